#!/usr/bin/env python3
"""Apply every behaviour-preserving patch under /verif/benign to a scratch copy and run ALL checks: every one must exit 0."""
import io, os, sys, subprocess, importlib, shutil
from concurrent.futures import ProcessPoolExecutor
V = os.path.dirname(os.path.dirname(os.path.abspath(__file__)))
sys.path.insert(0, V)
from sa import core, selftest
ALLP = ["C%02d" % i for i in range(1, 21)]


def one(name):
    scratch = selftest.make_copy()
    core.clear_ctx_cache()      # scratch copies are one-shot: never reuse a context across them
    try:
        r = subprocess.run(["patch", "-p1", "-s", "-i", os.path.join(V, "benign", name)], cwd=scratch, capture_output=True, text=True)
        if r.returncode != 0:
            return name, "patch-failed", []
        bad = []
        for p in ALLP:
            mod = importlib.import_module("sa.rules." + p.lower())
            out = io.StringIO()
            code, results = core.run_property(p, mod, repo=scratch, tier="quick", out=out, write_evidence=False)
            if code != 0:
                for x in results:
                    if x["status"] != core.PASS:
                        bad.append("%s %s %s[%s]: %s" % (p, x["status"], x["rule"], x["instance"], x["msg"][:150]))
                if not [x for x in results if x["status"] != core.PASS]:
                    bad.append("%s exit %d: %s" % (p, code, out.getvalue()[:200]))
        return name, "ok" if not bad else "ALARM", bad
    finally:
        shutil.rmtree(scratch, ignore_errors=True)


if __name__ == "__main__":
    names = sorted(f for f in os.listdir(os.path.join(V, "benign")) if f.endswith(".diff"))
    if len(sys.argv) > 1:
        names = [n for n in names if any(a in n for a in sys.argv[1:])]
    nbad = 0
    with ProcessPoolExecutor(max_workers=5) as ex:
        for name, st, bad in ex.map(one, names):
            desc = ""
            try:
                desc = open(os.path.join(V, "benign", name[:-5] + ".txt")).read().strip()[:110]
            except Exception:
                pass
            print("%-12s %-7s %s" % (name, st, desc))
            for b in bad[:6]:
                print("      " + b)
            nbad += st != "ok"
    sys.exit(1 if nbad else 0)
