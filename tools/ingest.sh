#!/bin/bash
# usage: ingest.sh <Cnn> <suffix> <worktree>   -- copy <worktree>/_seed to seeded/Cnn-suffix, record the blind verdict
# of the checks as they stand (all properties), confirm the demonstration in a fresh worktree, drop the agent's worktree.
p=$1; s=$2; w=$3
d=/verif/seeded/$p-$s
mkdir -p $d
cp -r $w/_seed/* $d/ 2>/dev/null
rm -f $d/demo $d/*.o $d/*.log $d/a.out
find $d -type f -size +300k -delete
find $d -type f -perm -u+x ! -name '*.sh' ! -name '*.py' -exec sh -c 'file "$1" | grep -q ELF && rm -f "$1"' _ {} \;
( cd /verif && echo "== $p-$s @ $(git rev-parse --short HEAD)$(git diff --quiet -- sa || echo +dirty)" && python3 tools/seeded_all.py --all-props $p-$s ) >> /verif/seeded/ASBUILT-$s.log 2>&1
tail -n 1 /verif/seeded/ASBUILT-$s.log
/verif/tools/confirm_seed.sh $p-$s
git -C /repo worktree remove --force $w 2>/dev/null; rm -rf $w
ls $d
