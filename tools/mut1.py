#!/usr/bin/env python3
"""debug aid: apply one mechanical mutant (by id, or file:line[:op[:k]]) to a scratch copy and run the named checks (default all)
usage: mut1.py <id|file:line[:op]> [Cnn ...]"""
import json, os, sys, subprocess, shutil
V = os.path.dirname(os.path.dirname(os.path.abspath(__file__)))
sys.path.insert(0, V)
from sa import selftest
import importlib
mr = importlib.import_module("tools.mutrun") if False else None
sel = sys.argv[1]
ms = [json.loads(l) for l in open(os.path.join(V, "mutation", "mutants.jsonl"))]
if any(str(m["id"]) == sel for m in ms):
    c = [m for m in ms if str(m["id"]) == sel]
elif ":" in sel:
    p = sel.split(":")
    c = [m for m in ms if m["file"].endswith(p[0]) and m["line"] == int(p[1]) and (len(p) < 3 or m["op"] == p[2])]
else:
    c = [m for m in ms if str(m["id"]) == sel]
if len(c) != 1:
    for m in c:
        print(m["id"], m["file"], m["line"], m["op"], m["new"].strip())
    sys.exit("need exactly one mutant (%d match)" % len(c))
m = c[0]
print("mutant", m["id"], m["file"], m["line"], m["op"], "\n  -", m["old"].strip(), "\n  +", m["new"].strip())
d = selftest.make_copy()
try:
    path = os.path.join(d, m["file"])
    lines = open(path).read().split("\n")
    assert lines[m["line"] - 1] == m["old"], "stale"
    lines[m["line"] - 1] = m["new"]
    if "old2" in m:
        lines[m["line"]] = m["new2"]
    open(path, "w").write("\n".join(lines))
    props = sys.argv[2:] or ["all"]
    for p in props:
        r = subprocess.run([os.path.join(V, "check"), p, "--repo", d, "--no-evidence"], capture_output=True, text=True)
        out = [l for l in r.stdout.split("\n") if l.startswith("  rule ") or l.startswith("ANALYSIS") or l.startswith("C") and ":" in l[:4]]
        print("\n".join(x[:400] for x in out[:30]))
finally:
    shutil.rmtree(d, ignore_errors=True)
