#!/bin/bash
# usage: seedtest.sh <seed-dir-name> [props...]  -- apply seeded patch to /repo, run checks, revert
d=/verif/seeded/$1; shift
props="$@"
[ -z "$props" ] && props=$(python3 -c "import json;print(json.load(open('$d/meta.json'))['property'])")
if ! git -C /repo diff --quiet; then echo "/repo dirty, refusing"; exit 3; fi
git -C /repo apply "$d/patch.diff" || { echo "patch does not apply"; exit 3; }
trap 'git -C /repo checkout -- . ' EXIT
for p in $props; do (cd /verif && ./check $p --no-evidence 2>&1 | grep -E "^VIOLATION|^  rule|^INCONCLUSIVE|^C[0-9]+:|ANALYSIS" | cut -c1-260); done
