#!/usr/bin/env python3
"""Run all 20 checks on mechanical mutants (tools/mutate.py) applied to scratch copies.  A measurement, not a check.
usage: mutrun.py <mutants.jsonl> <results.jsonl> [-j N]   (resumes: ids already in results are skipped)
result: {"id", "status": killed|inconclusive|silent|nobuild, "violations": {prop: [rule[instance]...]}, "inconclusive": [...]}"""
import importlib
import io
import json
import os
import shutil
import sys
from concurrent.futures import ProcessPoolExecutor

V = os.path.dirname(os.path.dirname(os.path.abspath(__file__)))
sys.path.insert(0, V)
from sa import core, selftest  # noqa

ALLP = ["C%02d" % i for i in range(1, 21)]


def apply(d, m):
    p = os.path.join(d, m["file"])
    lines = open(p).read().split("\n")
    k = m["line"] - 1
    if lines[k] != m["old"]:
        return "stale mutant"
    lines[k] = m["new"]
    if "old2" in m:
        if lines[k + 1] != m["old2"]:
            return "stale mutant"
        lines[k + 1] = m["new2"]
    open(p, "w").write("\n".join(lines))
    return None


def one(m):
    d = selftest.make_copy()
    core.clear_ctx_cache()      # scratch copies are one-shot: never reuse a context across them
    try:
        err = apply(d, m)
        if err:
            return {"id": m["id"], "status": "error", "msg": err}
        viol, unk = {}, {}
        nobuild = None
        for p in ALLP:
            mod = importlib.import_module("sa.rules." + p.lower())
            out = io.StringIO()
            code, results = core.run_property(p, mod, repo=d, tier="quick", out=out, write_evidence=False)
            if code == 2 and "ANALYSIS-BROKEN" in out.getvalue() and "build" in out.getvalue():
                nobuild = out.getvalue().strip()[-300:]
                break
            f = sorted(set("%s[%s]" % (x["rule"], x["instance"]) for x in results if x["status"] == core.VIOLATION))
            u = sorted(set("%s: %s" % (x["rule"], x["msg"][:100]) for x in results if x["status"] == core.INCONCLUSIVE))
            if f:
                viol[p] = f[:6]
            if u:
                unk[p] = u[:3]
        if nobuild:
            st = "nobuild"
        elif viol:
            st = "killed"
        elif unk:
            st = "inconclusive"
        else:
            st = "silent"
        r = {"id": m["id"], "status": st, "violations": viol, "inconclusive": unk}
        if nobuild:
            r["msg"] = nobuild
        return r
    except Exception as e:
        return {"id": m["id"], "status": "error", "msg": repr(e)[:300]}
    finally:
        shutil.rmtree(d, ignore_errors=True)


def main():
    a = sys.argv[1:]
    j = int(a[a.index("-j") + 1]) if "-j" in a else 8
    ms = [json.loads(l) for l in open(a[0])]
    done = set()
    if os.path.exists(a[1]):
        done = set(json.loads(l)["id"] for l in open(a[1]) if l.strip())
    ms = [m for m in ms if m["id"] not in done]
    sys.stderr.write("%d mutants to run\n" % len(ms))
    with open(a[1], "a") as f, ProcessPoolExecutor(max_workers=j) as ex:
        for r in ex.map(one, ms, chunksize=1):
            f.write(json.dumps(r) + "\n")
            f.flush()


if __name__ == "__main__":
    main()
