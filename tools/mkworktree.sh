#!/bin/bash
# usage: mkworktree.sh <dir>  -- scratch git worktree of /repo with a working in-tree build.
# /repo's config.status hard-codes ac_pwd='/repo' (and the libtool wrapper scripts of the test programs point at
# /repo/src/.libs), so the copy is re-pointed at <dir> and rebuilt from clean: otherwise `make check` in the
# worktree would run the unit tests against /repo's libraries instead of the worktree's.
set -e
d="$1"
git -C /repo worktree add -q --detach "$d" HEAD
rsync -a --exclude .git /repo/ "$d"/
cd "$d"
sed -i "s#^ac_pwd='/repo'#ac_pwd='$d'#; s#/repo/config/#$d/config/#g" config.status
./config.status >/dev/null 2>&1
grep -q "^abs_top_builddir = $d\$" src/Makefile || { echo "config.status did not re-point the build at $d"; exit 1; }
make clean >/dev/null 2>&1 || true
make -j16 >/dev/null 2>&1
if grep -q "/repo/src/.libs" tests/unit/test_uatomic 2>/dev/null; then echo "test wrappers still point at /repo"; exit 1; fi
git -C "$d" status --short | head -3
echo "ready: $d"
