#!/bin/bash
# usage: mkworktree.sh <dir>  -- scratch git worktree of /repo with a working in-tree build
set -e
d="$1"
git -C /repo worktree add -q --detach "$d" HEAD
rsync -a --exclude .git /repo/ "$d"/
cd "$d" && ./config.status >/dev/null 2>&1 && make -j16 >/dev/null 2>&1
git -C "$d" status --short | head -3
echo "ready: $d"
