#!/bin/bash
# usage: confirm_seed.sh <seed-name e.g. C02-b>
# Independently confirms a seeded change in a fresh scratch worktree /tmp/seed-<Cnn>:
#   1. unchanged tree: demo passes (run.sh exit 0)
#   2. with patch: builds, `make check` has no FAIL/ERROR, demo fails (run.sh exit != 0)
# Appends one line to /verif/seeded/CONFIRM.log and removes the worktree.
s=$1
d=/verif/seeded/$s
p=$(python3 -c "import json;print(json.load(open('$d/meta.json'))['property'])")
w=/tmp/seed-$p
# newer seeds have a location-independent run.sh: give each its own scratch path
grep -q "/tmp/seed-" "$d/run.sh" 2>/dev/null || w=/tmp/cf-$s
if [ -e "$w" ]; then echo "$w exists, refusing"; exit 3; fi
/verif/tools/mkworktree.sh "$w" >/dev/null || exit 3
trap 'git -C /repo worktree remove --force "$w" >/dev/null 2>&1; rm -rf "$w"' EXIT
mkdir -p "$w/_seed"
cp "$d"/* "$w/_seed/" 2>/dev/null
chmod +x "$w/_seed/run.sh"
reps=${REPS:-2}
base_ok=1
for i in $(seq $reps); do
  ( cd "$w" && timeout 600 ./_seed/run.sh ) >"$w/_seed/base.$i.log" 2>&1 || base_ok=0
done
if ! git -C "$w" apply "$d/patch.diff"; then echo "$s: PATCH-DOES-NOT-APPLY" | tee -a /verif/seeded/CONFIRM.log; exit 1; fi
( cd "$w" && find src tests -name '*.c' -o -name '*.cpp' | xargs touch )   # dependency tracking is off in this build
if ! ( cd "$w" && make -j16 >"$w/_seed/build.log" 2>&1 ); then echo "$s: BUILD-FAILS" | tee -a /verif/seeded/CONFIRM.log; exit 1; fi
( cd "$w" && make -j16 check >"$w/_seed/check.log" 2>&1 ); mc=$?
tot=$(grep -E "^# TOTAL:" "$w/_seed/check.log" | awk '{s+=$3} END{print s}')
fail=$(grep -E "^# (FAIL|ERROR|XPASS):" "$w/_seed/check.log" | awk '{s+=$3} END{print s}')
mut_fail=0
for i in $(seq $reps); do
  ( cd "$w" && timeout 600 ./_seed/run.sh ) >"$w/_seed/mut.$i.log" 2>&1 || mut_fail=$((mut_fail+1))
done
verdict=CONFIRMED
[ $base_ok = 1 ] || verdict=BASE-DEMO-FAILS
[ "$mc" = 0 ] && [ "$fail" = 0 ] || verdict=SUITE-FAILS
[ $mut_fail -ge 1 ] || verdict=DEMO-DOES-NOT-FAIL
echo "$s: $verdict base_ok=$base_ok suite_total=$tot suite_fail=$fail make_check_exit=$mc demo_failed_with_patch=$mut_fail/$reps" | tee -a /verif/seeded/CONFIRM.log
if [ $verdict != CONFIRMED ]; then for f in base.1 mut.1; do echo "--- $f"; tail -n 5 "$w/_seed/$f.log"; done; fi
