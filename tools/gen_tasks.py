#!/usr/bin/env python3
"""usage: gen_tasks.py <round-dir e.g. /tmp/r4> [--focus|--focus2..--focus8]  -- writes TASK-<Cnn>.md for the seeding sub-agents.
The task text contains only the property (statement, quantifier, anchors), the work rules and one-line summaries of
changes produced in earlier rounds (so that new ones differ); nothing about the checks in /verif."""
import glob
import json
import os
import sys

V = os.path.dirname(os.path.dirname(os.path.abspath(__file__)))
FOCUS = {
"C01": "the bp flavor, or nested read-side sections (only the outermost unlock ends one), or the snapshot/phase logic of rcu_read_lock in memb/mb - not qsbr and not the gp_waiters merging",
"C02": "the qsbr per-reader `waiting` flag handshake, or the spinning-to-sleeping transition of wait_for_readers/wait_gp in memb/mb (futex decrement / reset / re-scan), or thread (un)registration racing with a sleeping updater",
"C03": "per-CPU helpers (create_all_cpu_call_rcu_data / set_cpu_call_rcu_data / free_all_cpu_call_rcu_data), per-thread helpers, or real-time (URCU_CALL_RCU_RT, polling) helpers",
"C04": "rcu_barrier with several helpers and concurrent rcu_barrier callers, the completion refcount, or the qsbr online/offline handling of the caller",
"C05": "the shrink path (fini_table / remove_table) racing with lookups, or the chunk / mmap allocators' bucket_at, or the size load/publish ordering",
"C06": "the return values and node hand-over of cds_lfht_add_replace / cds_lfht_replace (each replaced node handed to exactly one caller), or lookup+next_duplicate under concurrent add_unique",
"C07": "competing cds_lfht_del / replace on the same node (exactly one winner, others fail), or bucket arrays released by a shrink in the chunk or mmap allocator",
"C08": "cds_lfht_new parameter normalisation (init/min/max combinations), cds_lfht_count_nodes, cds_lfht_is_empty/destroy, or the per-allocator index arithmetic (order/chunk/mmap) - sequential behaviour only",
"C09": "the node-counter driven lazy resize (split counters, ht_count_add/del, COUNT_COMMIT_ORDER thresholds, lazy shrink arbitration), or the work queue ordering between queued resizes and destroy",
"C10": "splice (source or destination role, all return codes), the last-node dequeue case (tail reset by cmpxchg), or the legacy cds_wfq",
"C11": "lfstack (cds_lfs_*) or the legacy rculfstack (cds_lfs_*_rcu), the push return value ('stack was non-empty'), or __cds_wfs_pop_all + iteration in blocking mode",
"C12": "the dummy-node lifecycle (allocation, re-enqueue on wrap, reclamation through queue_call_rcu after a grace period), or dequeue returning NULL only when empty",
"C13": "the encoding/decoding of (function, argument) pairs - arguments with the low bit set, equal to the marker value, repeated/changing functions - or ring wrap-around and capacity arithmetic",
"C14": "wrap-around of the grace-period id / signed comparisons, the 'once true it stays true' clause, or the interaction between several outstanding handles",
"C15": "memb/mb/qsbr rcu_register_thread/rcu_unregister_thread racing with both scanning phases of synchronize_rcu (private lists cur_snap_readers/qsreaders), or the bp arena growth (mremap in place vs. new chunk) and slot reuse",
"C16": "the bp flavor's before_fork/after_fork_parent/after_fork_child (registry pruning, signal mask), or the child's rebuilding of call_rcu helpers (per-CPU / per-thread helpers, queued callbacks run exactly once in the child), or the work queue's own fork handling",
"C17": "wait-freedom of wfcqueue enqueue / wfstack push / read-side lock-unlock, or the *_nonblocking variants returning WOULDBLOCK although no other operation is in progress (or blocking when they must not)",
"C18": "cds_list_del_rcu / cds_list_replace_rcu / cds_hlist_del_rcu or the traversal macros (cds_list_for_each_entry_rcu, cds_hlist_for_each_entry_rcu...) - reader positioned on a node being removed or replaced",
"C19": "the memb or mb flavor's rcu_read_lock/rcu_read_unlock being interrupted by a handler that itself takes the read lock (nesting count, rcu_read_ongoing, the value stored back), not the bp registration path",
"C20": "cmpxchg/xchg return values, 8-byte and 1-byte operands, and/or/inc, or the full-barrier guarantee of xchg/cmpxchg/add_return in include/urcu/uatomic/x86.h; or include/urcu/uatomic/generic.h helpers used by the default build",
}
FOCUS2 = {
"C01": "the memb/mb updater-side barrier machinery (smp_mb_master, sys_membarrier detection/initialisation, the has_sys_membarrier flag shared with the reader-side slave barrier), or the outermost-vs-nested decision in rcu_read_unlock",
"C02": "the wait-node state machine in src/urcu-wait.h (WAITING / WAKEUP / RUNNING / TEARDOWN, urcu_adaptative_busy_wait, urcu_adaptative_wake_up, urcu_wake_all_waiters), or src/compat_futex.c",
"C03": "helper creation and selection races (get_default_call_rcu_data, create_call_rcu_data, cpu affinity of per-CPU helpers), the helper main loop's flag handling (RT, STOP, STOPPED), or the enqueue/wake path of call_rcu itself",
"C04": "the completion object's life cycle (urcu_ref refcount, free_completion, _rcu_barrier_complete, the work items carrying the marker), or rcu_barrier being called while helpers are being created",
"C05": "_cds_lfht_gc_bucket (helping unlink) and the insertion cmpxchg in _cds_lfht_add, or bucket lookup / bit-reversed ordering of nodes within a bucket chain",
"C06": "add_unique's duplicate search (the d_iter / cds_lfht_next_duplicate walk inside _cds_lfht_add) or cds_lfht_next_duplicate itself under concurrent adds/removes of equal-hash nodes",
"C07": "cds_lfht_destroy on a table without AUTO_RESIZE, the three bucket allocators' free paths (order / chunk / mmap), or custom cds_lfht_alloc allocators",
"C08": "cds_lfht_count_nodes and the split-counter accounting (CDS_LFHT_ACCOUNTING), cds_lfht_new's handling of flags / allocator selection, or alloc_bucket_table for order 0 vs higher orders",
"C09": "explicit cds_lfht_resize (resize_target_update_count, the resize_mutex critical section, grow vs shrink dispatch), fini_table's per-order loop, or src/workqueue.c",
"C10": "__cds_wfcq_dequeue_with_state and its state flags (CDS_WFCQ_STATE_LAST), the interplay of dequeue with a concurrent enqueue on a one-element queue, or the legacy cds_wfq",
"C11": "wfstack pop / pop_with_state (cmpxchg path, CDS_WFS_STATE_LAST), or cds_wfs_pop_all followed by blocking iteration while a push is in flight",
"C12": "the enqueue path (node initialisation, linking, tail advance) or cds_lfq_init_rcu / cds_lfq_node_init_rcu",
"C13": "the reclaimer thread's sleep/wake protocol (wake_up_defer, wait_defer, the defer futex), rcu_defer_barrier / rcu_defer_barrier_thread, or the full-queue path of _defer_rcu",
"C14": "start_poll_synchronize_rcu when a worker callback is already queued / in flight, or urcu_poll_worker_cb's re-queue decision",
"C15": "the bp registry arena (expand_arena, arena_alloc, find_chunk, cleanup_thread) - slot reuse and reader-state address stability when the registry grows",
"C16": "call_rcu_after_fork_child's rebuilding of helpers and hand-over of inherited queues, or the work queue's pause/resume/re-creation across fork (urcu_workqueue_pause_worker, urcu_workqueue_resume_worker, urcu_workqueue_create_worker)",
"C17": "rculfqueue dequeue or lfstack pop (lock-free progress), or hash-table lookup/traversal (wait-free: must never loop on another thread's progress)",
"C18": "the pointer-publication primitives of include/urcu/static/pointer.h as used by the lists (rcu_dereference, rcu_assign_pointer / rcu_set_pointer, rcu_xchg_pointer, rcu_cmpxchg_pointer), or the hlist traversal macros",
"C19": "the bp flavor's rcu_read_lock / rcu_read_unlock of an already registered thread interrupted by a handler, bp synchronize_rcu's signal masking, or the mb flavor",
"C20": "uatomic_read / uatomic_set and the CMM_LOAD_SHARED / CMM_STORE_SHARED helpers, uatomic_add / uatomic_sub / uatomic_and / uatomic_or at 1 and 2 bytes, or cmpxchg's return value at 1/2 bytes in include/urcu/uatomic/x86.h",
}
T = '''# Task: seed a subtle property-breaking change into userspace-rcu (liburcu)

You are helping to evaluate a verification tool. Your job is to play the role of a
developer who introduces a *realistic, subtle bug* into the liburcu source tree.

Your scratch git worktree of the repository (already configured and built in-tree
with `make`) is: **{wt}**
Work ONLY inside that directory. Do not read or write anything under /verif, /repo,
/root/.vp or /root/.claude, and do not look at other directories under /tmp.
There is no network.

## The property you must break

**{id} — {title}**

{statement}

Quantified over: {qtext}

Where the property lives (anchors given with the property):
```json
{anchors}
```

## What to produce

A change to the library sources (src/ and/or include/ — not tests/, not doc/) that

1. still **compiles** without new warnings (`find src tests -name '*.c' -o -name '*.cpp' | xargs touch; make -j16`
   — note: dependency tracking is OFF in this build, so you MUST touch the .c files after editing a header,
   otherwise nothing is rebuilt);
2. still **passes the existing test suite** unchanged: `make -j16 check` (all `# FAIL:` and `# ERROR:` counts 0);
3. **breaks the property above**: there is an execution (schedule / input / sequence of API calls / fault) allowed by
   the property's quantifier in which the stated guarantee is violated;
4. needs **something specific to manifest** — a particular interleaving, a crash/fault/EINTR at a particular point,
   a multi-step sequence of operations, an unusual input, a particular configuration of helpers/threads, or two
   cooperating edit sites that each look fine alone. NOT something ordinary use would expose at once, and not
   something the existing tests or the benchmark programs under tests/ exercise.
5. looks like something a developer could plausibly write (an "optimisation", a "cleanup", a refactoring slip, a
   wrong constant, a reordered pair of statements, a dropped re-check, a mishandled corner case...). Keep it small
   (typically 1-15 changed lines). Do not add comments that announce the bug.

{focus}

{avoid}

Then write a **demonstration**: a small C program (plus `run.sh`) that uses the public API (or, where needed,
the `_LGPL_SOURCE` static-inline API) and
- **fails (non-zero exit, prints what went wrong) with your change applied**, and
- **passes (exit 0) on the unchanged tree**,
reliably (run each at least 3 times). To force a rare interleaving you may widen the window from *outside* the
library (long-running readers, sleeps in the demo, thread priorities/affinity, LD_PRELOAD or link-time interposers on
futex/poll/pthread functions inside the demo directory, signal handlers that stall a thread, many iterations) - but
the library sources used for the "with change" run must be exactly your patch, nothing else. A hang counts as failure:
wrap the run in `timeout`. The library in this tree is built with -O0 and with assertions enabled.

## Deliverables (all in {wt}/_seed/)

- `patch.diff` - `git diff` of your change (sources only; produce it with `git -C {wt} diff -- src include > _seed/patch.diff`)
- `demo.c` (or several files) and `run.sh`. **`run.sh` must be location-independent**: compute the worktree root as
  the parent directory of the directory containing run.sh (`W=$(cd "$(dirname "$0")/.." && pwd)`), build the demo
  against `$W/include`, `$W/src` and `$W/src/.libs` (use `-Wl,-rpath,$W/src/.libs`), run it under `timeout`,
  exit 0 iff the property held. It must rebuild the demo each time it runs (the demo may inline library headers).
  Keep one run of run.sh under about 60 seconds.
- `meta.json` with keys: `property` ("{id}"), `files_changed`, `what_breaks` (precise description of the edit and
  why it violates the property), `needs_to_manifest` (what specific schedule/input/fault/sequence is required and
  why ordinary use and the existing tests do not hit it), `how_verified` (the exact commands you ran and what you
  observed: build, make check totals, run.sh results with and without the change).

## Procedure

1. Read the anchored code and understand the mechanism. Pick a change. Prefer one whose effect is *not* obvious from
   the diff alone, e.g. one that involves a second clause of the property, an error/corner path, an interplay between
   two functions or files, or a weakening that only matters under a specific memory-ordering/interleaving.
2. Apply it, touch + rebuild, run `make -j16 check`. If a test fails, pick another change.
3. Write the demo; run it >=3x with the change (must fail each time or at least most times; say which) and, after
   `git checkout -- src include` + touch + rebuild, >=3x without (must pass every time).
4. Leave the worktree **with your change reverted and rebuilt**, and only `_seed/` added. Do not commit.
5. Reply with a short summary: the change, what it needs to manifest, and the observed results.

If, while reading, you notice that the **unchanged** tree already violates the property in some situation, do not use that as
your seed: finish your own seed, and report the observation separately at the end of your reply and under an `existing_defect`
key in `meta.json` (what fails, the exact input / build options / schedule, and a reproducer file in `_seed/` if you have one).

If after a serious attempt you cannot find a change meeting all of 1-5 with a working demonstration, say so plainly and
describe the best candidate and what is missing; do not fake a demonstration.
'''


def main():
    rd = sys.argv[1]
    use_focus = "--focus" in sys.argv or "--focus2" in sys.argv
    table = FOCUS2 if "--focus2" in sys.argv else FOCUS
    if "--focus3" in sys.argv:
        use_focus = True
        g = ("an error / corner path that the library handles itself (allocation or pthread_create or mmap or futex failure, EINTR/EAGAIN, "
             "an empty or single-element structure, a first-use / last-use transition, wrap-around of a counter), a rarely used public API "
             "function or flag combination, or an interplay between two functions or files that each look fine alone - anything within the "
             "property, but not the mainstream fast path that every user exercises")
        table = dict((k, g) for k in FOCUS)
    if "--focus4" in sys.argv:
        use_focus = True
        g = ("something that several functions depend on and that leaves each of those functions reading correctly on its own: a constant, "
             "a macro definition, an enum / flag value, a structure layout or static initialiser, a type width or signedness, an alignment, "
             "a default chosen at initialisation time, or a small inline helper in a shared header - or a change whose two halves sit in "
             "different functions / files and are each harmless alone")
        table = dict((k, g) for k in FOCUS)
    if "--focus5" in sys.argv:
        use_focus = True
        g = ("an ordinary-looking logic slip in the sequential skeleton of an operation - a loop bound or direction, an index or size computation, "
             "the polarity of a condition, an argument handed to a helper, a missing / duplicated / misplaced call, an early return, a wrong field - "
             "in code the test suite does not run; NOT a memory-ordering or barrier change")
        table = dict((k, g) for k in FOCUS)
    if "--focus6" in sys.argv:
        use_focus = True
        g = ("a lifecycle or hand-over step rather than the steady state: initialisation / first use, teardown, destroy, exit, unregister and "
             "re-register, a helper or worker being created, paused, resumed or stopped, state handed from one thread or structure to another; "
             "or a writer and a reader of the same flag / counter / encoded word that no longer agree on its value, polarity, mask or width; "
             "prefer a clause of the property other than its first sentence")
        table = dict((k, g) for k in FOCUS)
    if "--focus7" in sys.argv:
        use_focus = True
        g = ("the less-travelled parts of the public API and the arithmetic on encoded words: exported wrapper functions and the _LGPL_SOURCE inline "
             "twins, nonblocking / _safe / iteration variants, splice / pop_all / for_each helpers, auxiliary entry points (count, resize, destroy with "
             "attributes, explicit helper management, thread exit, poll-state handles), and masks, shifts, flag bits, sign / width conversions or "
             "off-by-one bounds in the words those functions encode - NOT another reordering of two statements on the main fast path")
        table = dict((k, g) for k in FOCUS)
    if "--focus8" in sys.argv:
        use_focus = True
        g = ("something whose effect depends on how the library or its *caller* is compiled, configured or run rather than on the algorithm as "
             "written: compiler-visible contracts (inline-asm constraints and clobbers, volatile / atomic qualifiers, attributes, evaluation of macro "
             "arguments, the _LGPL_SOURCE inline twins compiled into an optimised caller), the alternative paths this build can take at run time "
             "(sys_membarrier or sys_futex unavailable, the compat futex, real-time helpers, a CPU count that changes or cannot be read, "
             "environment-selected defaults), or an interaction with process-level events (fork in a multi-threaded process, thread exit order, "
             "library destructors, signals arriving inside the library) - still within the property, still invisible to the test suite")
        table = dict((k, g) for k in FOCUS)
    props = {json.loads(l)["id"]: json.loads(l) for l in open(os.path.join(V, "properties.jsonl"))}
    prev = {}
    for m in sorted(glob.glob(os.path.join(V, "seeded", "C*-*", "meta.json"))):
        d = json.load(open(m))
        prev.setdefault(d["property"], []).append(str(d.get("what_breaks", ""))[:230].replace("\n", " "))
    os.makedirs(rd, exist_ok=True)
    for pid, p in props.items():
        wt = os.path.join(rd, pid)
        av = prev.get(pid, [])
        avoid = ""
        if av:
            avoid = ("Earlier rounds already produced the following changes for this property. Produce something **different in mechanism "
                     "and site** (a different function/file and a different clause of the property):\n" + "\n".join("- " + a + "..." for a in av))
        focus = ""
        if use_focus and pid in table:
            focus = "**Focus for this round**: aim your change at " + table[pid] + "."
        open(os.path.join(rd, "TASK-%s.md" % pid), "w").write(T.format(
            wt=wt, id=pid, title=p["title"], statement=p["statement"], qtext=p["quantifier"]["text"],
            anchors=json.dumps(p["anchors"], indent=1), avoid=avoid, focus=focus))
    print(len(props), "tasks in", rd)


if __name__ == "__main__":
    main()
