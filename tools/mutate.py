#!/usr/bin/env python3
"""Mechanical source mutants of the library (one-line edits), used to *measure* what the static checks see - not a check
itself.  usage: mutate.py [--files f1 f2 ...] [--max N] [--seed S] > mutants.jsonl
Each mutant: {"id", "file", "line", "op", "old", "new"} (old/new = full text of that line; SWP carries two lines).
Operators: SDL statement deletion, NEG condition negation, ROR relational operator, LOR logical connector, AOR +1/-1,
CRP constant 0<->1 in an assignment / argument, SWP swap of two adjacent simple statements, BAR barrier / atomic weakening."""
import json
import os
import random
import re
import sys

REPO = "/repo"
FILES = [
    "src/urcu.c", "src/urcu-qsbr.c", "src/urcu-bp.c", "src/urcu-call-rcu-impl.h", "src/urcu-defer-impl.h", "src/urcu-poll-impl.h",
    "src/urcu-wait.h", "src/compat_futex.c", "src/workqueue.c", "src/rculfhash.c", "src/rculfhash-mm-order.c", "src/rculfhash-mm-chunk.c",
    "src/rculfhash-mm-mmap.c", "src/rculfqueue.c", "src/rculfstack.c", "src/wfcqueue.c", "src/wfstack.c", "src/wfqueue.c", "src/lfstack.c",
    "src/urcu-utils.h", "src/urcu-pointer.c",
    "include/urcu/static/urcu-common.h", "include/urcu/static/urcu-memb.h", "include/urcu/static/urcu-mb.h", "include/urcu/static/urcu-qsbr.h",
    "include/urcu/static/urcu-bp.h", "include/urcu/static/wfcqueue.h", "include/urcu/static/wfstack.h", "include/urcu/static/wfqueue.h",
    "include/urcu/static/lfstack.h", "include/urcu/static/rculfqueue.h", "include/urcu/static/rculfstack.h", "include/urcu/static/pointer.h",
    "include/urcu/rculist.h", "include/urcu/rcuhlist.h", "include/urcu/list.h", "include/urcu/hlist.h", "include/urcu/futex.h",
    "include/urcu/uatomic/x86.h", "include/urcu/uatomic/generic.h", "include/urcu/ref.h", "include/urcu/wfcqueue.h", "include/urcu/wfstack.h",
]
DECL = re.compile(r"^\s*(static|const|struct|unsigned|int|long|char|void|size_t|ssize_t|pthread_\w+|sigset_t|cds_\w+_t|typeof|__typeof__|volatile|register|enum|union|uint\d+_t|int\d+_t|bool)\b")
SKIP = re.compile(r"urcu_posix_assert|assert\(|urcu_die|fprintf|perror|abort\(|DBG_|dbg_printf|__attribute__|^\s*#|^\s*\*|^\s*/\*|CDS_INIT|TAILQ|^\s*case |^\s*default:")


def strip_comment_lines(lines):
    """mark lines inside /* */ comments"""
    inc = False
    mask = []
    for l in lines:
        m = inc
        s = l
        if inc:
            if "*/" in s:
                inc = False
        else:
            if "/*" in s and "*/" not in s.split("/*", 1)[1]:
                inc = True
                m = s.strip().startswith("/*")
        mask.append(m)
    return mask


def in_body(lines):
    """line index -> True when inside a function / macro body (brace depth >= 1 or a continued #define)"""
    depth = 0
    res = []
    cont = False
    for l in lines:
        macro = cont or l.lstrip().startswith("#define")
        cont = l.rstrip().endswith("\\")
        res.append(depth >= 1 or (macro and not l.lstrip().startswith("#define")))
        code = re.sub(r'"(\\.|[^"\\])*"', '""', l)
        code = re.sub(r"/\*.*?\*/", "", code)
        depth += code.count("{") - code.count("}")
        if depth < 0:
            depth = 0
    return res


def gen_file(rel):
    p = os.path.join(REPO, rel)
    lines = open(p).read().split("\n")
    cm = strip_comment_lines(lines)
    body = in_body(lines)
    out = []

    def add(k, op, new, extra=None):
        if new != lines[k]:
            d = {"file": rel, "line": k + 1, "op": op, "old": lines[k], "new": new}
            if extra:
                d.update(extra)
            out.append(d)
    for k, l in enumerate(lines):
        if cm[k] or not body[k] or not l.strip() or SKIP.search(l):
            continue
        code = l
        tail = ""
        if code.rstrip().endswith("\\"):
            tail = code[len(code.rstrip()) - 1:]
            code = code.rstrip()[:-1].rstrip()
        st = code.strip()
        simple = st.endswith(";") and not DECL.match(code) and st.count("(") == st.count(")") and not st.startswith(("}", "{", "else", "do", "for", "while", "if", "return", "goto", "case"))
        if simple:
            add(k, "SDL", re.match(r"^\s*", code).group(0) + ";" + tail)
        if st.startswith(("break;", "continue;")):
            add(k, "SDL", re.match(r"^\s*", code).group(0) + ";" + tail)
        m = re.match(r"^(\s*(?:\}\s*else\s+)?if\s*\()(.*)(\)\s*\{?\s*)$", code)
        if m and m.group(2).count("(") == m.group(2).count(")"):
            add(k, "NEG", m.group(1) + "!(" + m.group(2) + ")" + m.group(3) + tail)
        m = re.match(r"^(\s*(?:\}\s*)?while\s*\()(.*)(\)\s*;?\s*\{?\s*)$", code)
        if m and m.group(2).count("(") == m.group(2).count(")") and m.group(2).strip() not in ("1", "0"):
            add(k, "NEG", m.group(1) + "!(" + m.group(2) + ")" + m.group(3) + tail)
        for a, bs in ((" == ", [" != "]), (" != ", [" == "]), (" < ", [" <= ", " >= "]), (" <= ", [" < "]), (" > ", [" >= ", " <= "]), (" >= ", [" > "]), (" && ", [" || "]), (" || ", [" && "])):
            for mm_ in re.finditer(re.escape(a), code):
                for b in bs:
                    add(k, "LOR" if "&" in a or "|" in a else "ROR", code[:mm_.start()] + b + code[mm_.end():] + tail)
        for a, b in ((" + 1", " - 1"), (" - 1", " + 1"), ("++", "--"), ("--", "++"), (" << ", " >> "), (" >> ", " << ")):
            for mm_ in re.finditer(re.escape(a), code):
                add(k, "AOR", code[:mm_.start()] + b + code[mm_.end():] + tail)
        for a, b in (("= 0;", "= 1;"), ("= 1;", "= 0;"), (", 0)", ", 1)"), (", 1)", ", 0)"), ("= NULL;", None)):
            if b and a in code and not DECL.match(code):
                add(k, "CRP", code.replace(a, b, 1) + tail)
        for a, b in (("cmm_smp_mb()", "cmm_barrier()"), ("cmm_smp_wmb()", "cmm_barrier()"), ("cmm_smp_rmb()", "cmm_barrier()"), ("cmm_smp_mb__before_uatomic", None),
                     ("rcu_dereference(", "CMM_LOAD_SHARED("), ("rcu_assign_pointer(", "CMM_STORE_SHARED("), ("CMM_LOAD_SHARED(", "("), ("uatomic_read(", "*("),
                     ("CMM_SEQ_CST", "CMM_RELAXED"), ("CMM_ACQUIRE", "CMM_RELAXED"), ("CMM_RELEASE", "CMM_RELAXED"), ("CMM_CONSUME", "CMM_RELAXED"), ("CMM_SEQ_CST_FENCE", "CMM_RELAXED")):
            if b and a in code:
                add(k, "BAR", code.replace(a, b, 1) + tail)
        # swap with the next line when both are simple statements
        if simple and k + 1 < len(lines) and not cm[k + 1] and body[k + 1]:
            n = lines[k + 1]
            ns = n.strip().rstrip("\\").strip()
            if ns.endswith(";") and not DECL.match(n) and ns.count("(") == ns.count(")") and not SKIP.search(n) and not ns.startswith(("}", "{", "else", "do", "for", "while", "if", "return", "goto", "break", "continue", "case")) and ns != st:
                out.append({"file": rel, "line": k + 1, "op": "SWP", "old": lines[k], "new": lines[k + 1], "old2": lines[k + 1], "new2": lines[k]})
    for n, d in enumerate(out):
        d["id"] = "%s:%d:%s:%d" % (rel, d["line"], d["op"], n)
    return out


def main():
    a = sys.argv[1:]
    files = FILES
    if "--files" in a:
        i = a.index("--files")
        files = [x for x in a[i + 1:] if not x.startswith("--")]
    mx = int(a[a.index("--max") + 1]) if "--max" in a else None
    seed = int(a[a.index("--seed") + 1]) if "--seed" in a else 1
    allm = []
    for f in files:
        if os.path.exists(os.path.join(REPO, f)):
            allm += gen_file(f)
    if mx and len(allm) > mx:
        random.Random(seed).shuffle(allm)
        allm = sorted(allm[:mx], key=lambda d: (d["file"], d["line"]))
    for d in allm:
        print(json.dumps(d))
    sys.stderr.write("%d mutants\n" % len(allm))


if __name__ == "__main__":
    main()
