#!/bin/bash
# usage: saveseed.sh Cnn suffix  -- copy /tmp/seed-Cnn/_seed into /verif/seeded/Cnn-suffix and drop the worktree
p=$1; s=$2
mkdir -p /verif/seeded/$p-$s
cp /tmp/seed-$p/_seed/patch.diff /tmp/seed-$p/_seed/run.sh /tmp/seed-$p/_seed/meta.json /verif/seeded/$p-$s/ 2>/dev/null
cp /tmp/seed-$p/_seed/demo.c* /verif/seeded/$p-$s/ 2>/dev/null
git -C /repo worktree remove --force /tmp/seed-$p
ls /verif/seeded/$p-$s
