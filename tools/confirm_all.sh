#!/bin/bash
# confirm every seeded change (one suffix at a time: the demos hard-code /tmp/seed-<Cnn>)
cd /verif/seeded
for suf in $(ls -d C[0-9][0-9]-* | sed 's/.*-//' | sort -u); do
  ls -d C[0-9][0-9]-$suf | xargs -P 4 -n 1 /verif/tools/confirm_seed.sh >/dev/null 2>&1
done
sort /verif/seeded/CONFIRM.log
