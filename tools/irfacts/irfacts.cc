// irfacts: normalise an LLVM module built from liburcu sources and dump it as
// JSON facts (full SSA, CFG, access paths named from debug info, inlining
// provenance).  Static analysis only: nothing is executed or solved here.
//
// usage: irfacts <in.bc|ll> <out.json> [--flat] [--stop=f1,f2] [--inline-ext=f1,f2]
//                [--prim=substr1,substr2] [--ll=<out.ll>]
//
//  default ("perfn") : force-inline the primitive layer (functions whose
//                      DISubprogram file matches one of --prim substrings)
//                      and pure leaf helpers (no memory access, no call).
//  --flat            : additionally force-inline every function with internal
//                      linkage (except --stop) and the --inline-ext externals.
#include "llvm/ADT/SmallPtrSet.h"
#include "llvm/ADT/StringExtras.h"
#include "llvm/IR/Constants.h"
#include "llvm/IR/DataLayout.h"
#include "llvm/IR/DebugInfoMetadata.h"
#include "llvm/IR/DebugInfo.h"
#include "llvm/IR/GetElementPtrTypeIterator.h"
#include "llvm/IR/InlineAsm.h"
#include "llvm/IR/Instructions.h"
#include "llvm/IR/IntrinsicInst.h"
#include "llvm/IR/LLVMContext.h"
#include "llvm/IR/Module.h"
#include "llvm/IR/Operator.h"
#include "llvm/IR/Verifier.h"
#include "llvm/IRReader/IRReader.h"
#include "llvm/Passes/PassBuilder.h"
#include "llvm/Support/SourceMgr.h"
#include "llvm/Support/raw_ostream.h"
#include <map>
#include <set>
#include <string>
#include <vector>

using namespace llvm;

static std::vector<std::string> splitList(StringRef S) {
  std::vector<std::string> R;
  SmallVector<StringRef, 8> P;
  S.split(P, ',', -1, false);
  for (auto X : P) R.push_back(X.str());
  return R;
}

static std::string jstr(StringRef S) {
  std::string O = "\"";
  for (unsigned char C : S) {
    switch (C) {
    case '"': O += "\\\""; break;
    case '\\': O += "\\\\"; break;
    case '\n': O += "\\n"; break;
    case '\t': O += "\\t"; break;
    case '\r': O += "\\r"; break;
    default:
      if (C < 0x20 || C >= 0x7f) {
        char B[8];
        snprintf(B, sizeof B, "\\u%04x", C);
        O += B;
      } else
        O += (char)C;
    }
  }
  O += "\"";
  return O;
}

static std::string tystr(Type *T) {
  std::string S;
  raw_string_ostream OS(S);
  T->print(OS, false, true);
  return OS.str();
}

struct Dumper {
  Module &M;
  const DataLayout &DL;
  std::map<std::string, DICompositeType *> DIByName;
  std::map<std::string, DICompositeType *> EnumByName;
  std::map<const Instruction *, unsigned> InstId;
  std::map<const BasicBlock *, unsigned> BBId;
  std::set<const StructType *> UsedStructs;

  Dumper(Module &M) : M(M), DL(M.getDataLayout()) {
    DebugInfoFinder F;
    F.processModule(M);
    for (DIType *T : F.types())
      if (auto *C = dyn_cast<DICompositeType>(T)) {
        if (C->getTag() == dwarf::DW_TAG_enumeration_type) {
          std::string N = C->getName().str();
          if (N.empty()) N = "<anon>@" + C->getFilename().str() + ":" + std::to_string(C->getLine());
          if (C->getElements().size()) EnumByName[N] = C;
          continue;
        }
        if (C->getName().empty()) continue;
        if (C->getTag() != dwarf::DW_TAG_structure_type &&
            C->getTag() != dwarf::DW_TAG_union_type)
          continue;
        std::string N = C->getName().str();
        auto It = DIByName.find(N);
        if (It == DIByName.end() ||
            (It->second->getElements().size() == 0 && C->getElements().size()))
          DIByName[N] = C;
      }
  }

  static std::string baseStructName(StringRef N) {
    // "struct.foo.12" -> "foo"; "union.anon.3" -> "anon"
    if (N.startswith("struct.")) N = N.drop_front(7);
    else if (N.startswith("union.")) N = N.drop_front(6);
    size_t P = N.rfind('.');
    if (P != StringRef::npos) {
      StringRef Suf = N.substr(P + 1);
      bool AllDigit = !Suf.empty();
      for (char C : Suf) if (!isdigit(C)) AllDigit = false;
      if (AllDigit) N = N.substr(0, P);
    }
    return N.str();
  }

  std::string fieldName(StructType *ST, unsigned Idx) {
    std::string SN = ST->hasName() ? baseStructName(ST->getName()) : "literal";
    uint64_t Off = DL.getStructLayout(ST)->getElementOffset(Idx);
    auto It = DIByName.find(SN);
    if (It != DIByName.end()) {
      for (auto *E : It->second->getElements())
        if (auto *D = dyn_cast<DIDerivedType>(E))
          if (D->getTag() == dwarf::DW_TAG_member &&
              D->getOffsetInBits() == Off * 8) {
            std::string FN = D->getName().str();
            if (FN.empty()) FN = "<anon>";
            return SN + "." + FN;
          }
    }
    return SN + "#" + std::to_string(Idx);
  }

  // Access path: strip casts and GEPs, collecting steps (outermost last).
  const Value *accessPath(const Value *P, std::vector<std::string> &Steps) {
    std::vector<std::vector<std::string>> Rev;
    unsigned Guard = 0;
    while (Guard++ < 64) {
      if (auto *O = dyn_cast<Operator>(P)) {
        unsigned Opc = O->getOpcode();
        if (Opc == Instruction::BitCast || Opc == Instruction::AddrSpaceCast) {
          P = O->getOperand(0);
          continue;
        }
        if (auto *G = dyn_cast<GEPOperator>(P)) {
          std::vector<std::string> S;
          auto GTI = gep_type_begin(G), GTE = gep_type_end(G);
          bool First = true;
          for (; GTI != GTE; ++GTI) {
            const Value *Idx = GTI.getOperand();
            if (StructType *ST = GTI.getStructTypeOrNull()) {
              unsigned I = cast<ConstantInt>(Idx)->getZExtValue();
              S.push_back(fieldName(ST, I));
            } else {
              std::string E;
              if (auto *CI = dyn_cast<ConstantInt>(Idx)) {
                int64_t V = CI->getSExtValue();
                if (First && V == 0) { First = false; continue; }
                if (First) {
                  Type *ET = G->getSourceElementType();
                  E = tystr(ET) + "[" + std::to_string(V) + "]";
                } else
                  E = "[" + std::to_string(V) + "]";
              } else {
                E = First ? (tystr(G->getSourceElementType()) + "[?]") : "[?]";
              }
              S.push_back(E);
            }
            First = false;
          }
          Rev.push_back(S);
          P = G->getPointerOperand();
          continue;
        }
      }
      break;
    }
    for (auto It = Rev.rbegin(); It != Rev.rend(); ++It)
      for (auto &X : *It) Steps.push_back(X);
    return P;
  }

  std::string apJson(const Value *P) {
    std::vector<std::string> Steps;
    const Value *B = accessPath(P, Steps);
    std::string O = "{\"base\":" + valref(B, false) + ",\"steps\":[";
    for (size_t i = 0; i < Steps.size(); i++) {
      if (i) O += ",";
      O += jstr(Steps[i]);
    }
    O += "]}";
    return O;
  }

  std::string valref(const Value *V, bool AllowCE = true) {
    if (auto *I = dyn_cast<Instruction>(V)) {
      auto It = InstId.find(I);
      if (It == InstId.end()) return "[\"x\",\"foreign-inst\"]";
      return "[\"i\"," + std::to_string(It->second) + "]";
    }
    if (auto *A = dyn_cast<Argument>(V))
      return "[\"a\"," + std::to_string(A->getArgNo()) + "]";
    if (auto *CI = dyn_cast<ConstantInt>(V)) {
      if (CI->getBitWidth() <= 64)
        return "[\"c\"," + std::to_string(CI->getSExtValue()) + "," +
               std::to_string(CI->getBitWidth()) + "]";
      return "[\"c\"," + toString(CI->getValue(), 10, true) + "," +
             std::to_string(CI->getBitWidth()) + "]";
    }
    if (isa<ConstantPointerNull>(V)) return "[\"null\"]";
    if (isa<UndefValue>(V)) return "[\"undef\"]";
    if (auto *F = dyn_cast<Function>(V)) return "[\"f\"," + jstr(F->getName()) + "]";
    if (auto *G = dyn_cast<GlobalVariable>(V))
      return "[\"g\"," + jstr(G->getName()) + "]";
    if (auto *GA = dyn_cast<GlobalAlias>(V))
      return valref(GA->getAliasee());
    if (auto *B = dyn_cast<BasicBlock>(V)) return "[\"bb\"," + std::to_string(BBId[B]) + "]";
    if (auto *CE = dyn_cast<ConstantExpr>(V)) {
      unsigned Opc = CE->getOpcode();
      if (Opc == Instruction::BitCast || Opc == Instruction::AddrSpaceCast ||
          Opc == Instruction::GetElementPtr) {
        if (AllowCE) return "[\"ce\"," + apJson(CE) + "]";
      }
      if (Opc == Instruction::PtrToInt || Opc == Instruction::IntToPtr)
        return "[\"cast\"," + jstr(CE->getOpcodeName()) + "," + valref(CE->getOperand(0)) + "]";
      std::string S;
      raw_string_ostream OS(S);
      CE->printAsOperand(OS, false);
      return "[\"cx\"," + jstr(OS.str()) + "]";
    }
    if (isa<ConstantAggregateZero>(V)) return "[\"zero\"]";
    if (auto *CF = dyn_cast<ConstantFP>(V)) {
      (void)CF;
      return "[\"fp\"]";
    }
    if (isa<InlineAsm>(V)) return "[\"asm\"]";
    if (isa<MetadataAsValue>(V)) return "[\"md\"]";
    std::string S;
    raw_string_ostream OS(S);
    V->printAsOperand(OS, false);
    return "[\"x\"," + jstr(OS.str()) + "]";
  }

  // strip typedef/const/volatile to the composite type of a global's debug-info type
  static DICompositeType *diComposite(DIType *T) {
    unsigned G = 0;
    while (T && G++ < 16) {
      if (auto *C = dyn_cast<DICompositeType>(T)) return C;
      if (auto *D = dyn_cast<DIDerivedType>(T)) { T = D->getBaseType(); continue; }
      break;
    }
    return nullptr;
  }

  std::string constJson(const Constant *C, unsigned Depth = 0, DICompositeType *Hint = nullptr) {
    if (Depth > 6) return "[\"deep\"]";
    if (auto *CS = dyn_cast<ConstantStruct>(C)) {
      StructType *ST = CS->getType();
      bool UseHint = Hint && !ST->hasName() && Hint->getTag() == dwarf::DW_TAG_structure_type;
      std::string SN = ST->hasName() ? baseStructName(ST->getName()) : (UseHint ? Hint->getName().str() : "literal");
      std::string O = "[\"struct\"," + jstr(SN) + ",[";
      for (unsigned i = 0; i < CS->getNumOperands(); i++) {
        if (i) O += ",";
        std::string FN = fieldName(ST, i);
        DICompositeType *Sub = nullptr;
        if (UseHint || (Hint && ST->hasName())) {
          uint64_t Off = DL.getStructLayout(ST)->getElementOffset(i);
          for (auto *E : Hint->getElements())
            if (auto *D = dyn_cast<DIDerivedType>(E))
              if (D->getTag() == dwarf::DW_TAG_member && D->getOffsetInBits() == Off * 8) {
                if (UseHint) FN = SN + "." + (D->getName().empty() ? "<anon>" : D->getName().str());
                Sub = diComposite(D->getBaseType());
                break;
              }
        }
        O += "[" + jstr(FN) + "," + constJson(CS->getOperand(i), Depth + 1, Sub) + "]";
      }
      return O + "]]";
    }
    if (auto *CA = dyn_cast<ConstantArray>(C)) {
      std::string O = "[\"array\",[";
      unsigned N = std::min<unsigned>(CA->getNumOperands(), 1024);
      for (unsigned i = 0; i < N; i++) {
        if (i) O += ",";
        O += constJson(CA->getOperand(i), Depth + 1);
      }
      return O + "]]";
    }
    if (auto *CD = dyn_cast<ConstantDataSequential>(C)) {
      std::string O = "[\"data\",[";
      unsigned N = std::min<unsigned>(CD->getNumElements(), 4096);
      if (CD->getElementType()->isIntegerTy()) {
        for (unsigned i = 0; i < N; i++) {
          if (i) O += ",";
          O += std::to_string(CD->getElementAsInteger(i));
        }
      }
      return O + "]]";
    }
    if (isa<ConstantAggregateZero>(C)) return "[\"zero\"]";
    return valref(C);
  }

  std::string locJson(const Instruction &I) {
    const DebugLoc &D = I.getDebugLoc();
    if (!D) return "null";
    std::string O = "[";
    const DILocation *L = D.get();
    bool First = true;
    while (L) {
      if (!First) O += ",";
      First = false;
      std::string Fn;
      if (auto *SP = L->getScope()->getSubprogram()) {
        Fn = SP->getLinkageName().empty() ? SP->getName().str() : SP->getLinkageName().str();
      }
      O += "[" + jstr(Fn) + "," + jstr(L->getFilename()) + "," + std::to_string(L->getLine()) + "]";
      L = L->getInlinedAt();
    }
    return O + "]";
  }

  static const char *ordStr(AtomicOrdering O) {
    switch (O) {
    case AtomicOrdering::NotAtomic: return "na";
    case AtomicOrdering::Unordered: return "unordered";
    case AtomicOrdering::Monotonic: return "relaxed";
    case AtomicOrdering::Acquire: return "acquire";
    case AtomicOrdering::Release: return "release";
    case AtomicOrdering::AcquireRelease: return "acq_rel";
    case AtomicOrdering::SequentiallyConsistent: return "seq_cst";
    }
    return "?";
  }

  void dumpInst(raw_ostream &OS, const Instruction &I) {
    OS << "{\"id\":" << InstId[&I];
    auto args = [&](std::initializer_list<const Value *> Vs) {
      OS << ",\"args\":[";
      bool F = true;
      for (auto *V : Vs) {
        if (!F) OS << ",";
        F = false;
        OS << valref(V);
      }
      OS << "]";
    };
    auto op = [&](const char *N) { OS << ",\"op\":\"" << N << "\""; };
    if (!I.getType()->isVoidTy()) OS << ",\"ty\":" << jstr(tystr(I.getType()));
    if (auto *L = dyn_cast<LoadInst>(&I)) {
      op("load");
      args({L->getPointerOperand()});
      OS << ",\"order\":\"" << ordStr(L->getOrdering()) << "\"";
      if (L->isVolatile()) OS << ",\"vol\":1";
      OS << ",\"bits\":" << DL.getTypeSizeInBits(L->getType());
      OS << ",\"ap\":" << apJson(L->getPointerOperand());
    } else if (auto *S = dyn_cast<StoreInst>(&I)) {
      op("store");
      args({S->getValueOperand(), S->getPointerOperand()});
      OS << ",\"order\":\"" << ordStr(S->getOrdering()) << "\"";
      if (S->isVolatile()) OS << ",\"vol\":1";
      OS << ",\"bits\":" << DL.getTypeSizeInBits(S->getValueOperand()->getType());
      OS << ",\"ap\":" << apJson(S->getPointerOperand());
    } else if (auto *R = dyn_cast<AtomicRMWInst>(&I)) {
      op("rmw");
      args({R->getPointerOperand(), R->getValOperand()});
      OS << ",\"rmwop\":" << jstr(AtomicRMWInst::getOperationName(R->getOperation()));
      OS << ",\"order\":\"" << ordStr(R->getOrdering()) << "\"";
      OS << ",\"bits\":" << DL.getTypeSizeInBits(R->getValOperand()->getType());
      OS << ",\"ap\":" << apJson(R->getPointerOperand());
    } else if (auto *C = dyn_cast<AtomicCmpXchgInst>(&I)) {
      op("cmpxchg");
      args({C->getPointerOperand(), C->getCompareOperand(), C->getNewValOperand()});
      OS << ",\"order\":\"" << ordStr(C->getSuccessOrdering()) << "\"";
      OS << ",\"forder\":\"" << ordStr(C->getFailureOrdering()) << "\"";
      OS << ",\"bits\":" << DL.getTypeSizeInBits(C->getNewValOperand()->getType());
      OS << ",\"ap\":" << apJson(C->getPointerOperand());
    } else if (auto *F = dyn_cast<FenceInst>(&I)) {
      op("fence");
      OS << ",\"order\":\"" << ordStr(F->getOrdering()) << "\"";
      OS << ",\"scope\":" << (F->getSyncScopeID() == SyncScope::SingleThread ? "\"singlethread\"" : "\"system\"");
    } else if (auto *CB = dyn_cast<CallBase>(&I)) {
      const Value *Callee = CB->getCalledOperand()->stripPointerCasts();
      if (auto *IA = dyn_cast<InlineAsm>(CB->getCalledOperand())) {
        op("asm");
        OS << ",\"asm\":" << jstr(IA->getAsmString());
        OS << ",\"cons\":" << jstr(IA->getConstraintString());
        if (IA->hasSideEffects()) OS << ",\"sideeffect\":1";
      } else if (auto *Fn = dyn_cast<Function>(Callee)) {
        op("call");
        OS << ",\"callee\":" << jstr(Fn->getName());
        if (Fn->doesNotReturn() || CB->doesNotReturn()) OS << ",\"noreturn\":1";
      } else {
        op("icall");
        OS << ",\"fp\":" << valref(CB->getCalledOperand());
      }
      OS << ",\"args\":[";
      for (unsigned i = 0; i < CB->arg_size(); i++) {
        if (i) OS << ",";
        OS << valref(CB->getArgOperand(i));
      }
      OS << "],\"aps\":[";
      for (unsigned i = 0; i < CB->arg_size(); i++) {
        if (i) OS << ",";
        Value *A = CB->getArgOperand(i);
        if (A->getType()->isPointerTy())
          OS << apJson(A);
        else
          OS << "null";
      }
      OS << "],\"atys\":[";
      for (unsigned i = 0; i < CB->arg_size(); i++) {
        if (i) OS << ",";
        OS << jstr(tystr(CB->getArgOperand(i)->getType()));
      }
      OS << "]";
    } else if (auto *R = dyn_cast<ReturnInst>(&I)) {
      op("ret");
      if (R->getReturnValue()) args({R->getReturnValue()});
      else OS << ",\"args\":[]";
    } else if (auto *B = dyn_cast<BranchInst>(&I)) {
      op("br");
      if (B->isConditional()) {
        args({B->getCondition()});
        OS << ",\"succ\":[" << BBId[B->getSuccessor(0)] << "," << BBId[B->getSuccessor(1)] << "]";
      } else {
        OS << ",\"args\":[],\"succ\":[" << BBId[B->getSuccessor(0)] << "]";
      }
    } else if (auto *SW = dyn_cast<SwitchInst>(&I)) {
      op("switch");
      args({SW->getCondition()});
      OS << ",\"default\":" << BBId[SW->getDefaultDest()] << ",\"cases\":[";
      bool F = true;
      for (auto &C : SW->cases()) {
        if (!F) OS << ",";
        F = false;
        OS << "[" << C.getCaseValue()->getSExtValue() << "," << BBId[C.getCaseSuccessor()] << "]";
      }
      OS << "]";
    } else if (isa<UnreachableInst>(&I)) {
      op("unreachable");
    } else if (auto *P = dyn_cast<PHINode>(&I)) {
      op("phi");
      OS << ",\"inc\":[";
      for (unsigned i = 0; i < P->getNumIncomingValues(); i++) {
        if (i) OS << ",";
        OS << "[" << valref(P->getIncomingValue(i)) << "," << BBId[P->getIncomingBlock(i)] << "]";
      }
      OS << "]";
    } else if (auto *S = dyn_cast<SelectInst>(&I)) {
      op("select");
      args({S->getCondition(), S->getTrueValue(), S->getFalseValue()});
    } else if (auto *C = dyn_cast<ICmpInst>(&I)) {
      op("icmp");
      OS << ",\"pred\":" << jstr(CmpInst::getPredicateName(C->getPredicate()));
      args({C->getOperand(0), C->getOperand(1)});
    } else if (auto *BO = dyn_cast<BinaryOperator>(&I)) {
      op("bin");
      OS << ",\"bop\":" << jstr(BO->getOpcodeName());
      args({BO->getOperand(0), BO->getOperand(1)});
    } else if (auto *C = dyn_cast<CastInst>(&I)) {
      op("cast");
      OS << ",\"cop\":" << jstr(C->getOpcodeName());
      args({C->getOperand(0)});
      if (C->getType()->isPointerTy() && C->getOperand(0)->getType()->isPointerTy())
        OS << ",\"ap\":" << apJson(&I);
    } else if (auto *G = dyn_cast<GetElementPtrInst>(&I)) {
      op("gep");
      OS << ",\"args\":[";
      for (unsigned i = 0; i < G->getNumOperands(); i++) {
        if (i) OS << ",";
        OS << valref(G->getOperand(i));
      }
      OS << "]";
      OS << ",\"ap\":" << apJson(&I);
    } else if (auto *A = dyn_cast<AllocaInst>(&I)) {
      op("alloca");
      OS << ",\"aty\":" << jstr(tystr(A->getAllocatedType()));
      OS << ",\"name\":" << jstr(A->getName());
      OS << ",\"args\":[]";
    } else if (auto *E = dyn_cast<ExtractValueInst>(&I)) {
      op("extractvalue");
      args({E->getAggregateOperand()});
      OS << ",\"idx\":[";
      for (unsigned i = 0; i < E->getNumIndices(); i++) {
        if (i) OS << ",";
        OS << E->getIndices()[i];
      }
      OS << "]";
    } else if (auto *U = dyn_cast<UnaryOperator>(&I)) {
      op("un");
      OS << ",\"uop\":" << jstr(U->getOpcodeName());
      args({U->getOperand(0)});
    } else if (auto *Fz = dyn_cast<FreezeInst>(&I)) {
      op("cast");
      OS << ",\"cop\":\"freeze\"";
      args({Fz->getOperand(0)});
    } else {
      op("other");
      OS << ",\"name\":" << jstr(I.getOpcodeName());
      OS << ",\"args\":[";
      for (unsigned i = 0; i < I.getNumOperands(); i++) {
        if (i) OS << ",";
        OS << valref(I.getOperand(i));
      }
      OS << "]";
    }
    OS << ",\"loc\":" << locJson(I) << "}";
  }

  void dumpFunction(raw_ostream &OS, Function &F) {
    InstId.clear();
    BBId.clear();
    unsigned N = 0, B = 0;
    for (auto &BB : F) {
      BBId[&BB] = B++;
      for (auto &I : BB) {
        if (isa<DbgInfoIntrinsic>(&I)) continue;
        InstId[&I] = N++;
      }
    }
    OS << "{\"name\":" << jstr(F.getName());
    OS << ",\"linkage\":" << (F.hasInternalLinkage() || F.hasPrivateLinkage() ? "\"internal\"" : (F.hasWeakLinkage() || F.hasLinkOnceLinkage() ? "\"weak\"" : "\"external\""));
    if (F.doesNotReturn()) OS << ",\"noreturn\":1";
    if (F.hasFnAttribute(Attribute::AlwaysInline)) OS << ",\"alwaysinline\":1";
    if (auto *SP = F.getSubprogram()) {
      OS << ",\"file\":" << jstr(SP->getFilename()) << ",\"line\":" << SP->getLine();
      OS << ",\"srcname\":" << jstr(SP->getName());
    }
    OS << ",\"ret\":" << jstr(tystr(F.getReturnType()));
    OS << ",\"args\":[";
    for (auto &A : F.args()) {
      if (A.getArgNo()) OS << ",";
      OS << "[" << jstr(A.getName()) << "," << jstr(tystr(A.getType())) << "]";
    }
    OS << "]";
    if (F.isDeclaration()) {
      OS << ",\"decl\":1}";
      return;
    }
    OS << ",\"blocks\":[\n";
    bool FB = true;
    for (auto &BB : F) {
      if (!FB) OS << ",\n";
      FB = false;
      OS << " {\"id\":" << BBId[&BB] << ",\"name\":" << jstr(BB.getName()) << ",\"insts\":[\n";
      bool FI = true;
      for (auto &I : BB) {
        if (isa<DbgInfoIntrinsic>(&I)) continue;
        if (!FI) OS << ",\n";
        FI = false;
        OS << "  ";
        dumpInst(OS, I);
      }
      OS << "]}";
    }
    OS << "]}";
  }

  void dumpStructs(raw_ostream &OS) {
    OS << "\"structs\":{";
    bool F = true;
    for (auto &KV : DIByName) {
      DICompositeType *C = KV.second;
      if (!C->getElements().size()) continue;
      if (!F) OS << ",\n";
      F = false;
      OS << jstr(KV.first) << ":{\"size\":" << C->getSizeInBits() / 8 << ",\"fields\":[";
      bool FF = true;
      for (auto *E : C->getElements())
        if (auto *D = dyn_cast<DIDerivedType>(E))
          if (D->getTag() == dwarf::DW_TAG_member) {
            if (!FF) OS << ",";
            FF = false;
            OS << "[" << jstr(D->getName()) << "," << D->getOffsetInBits() / 8 << "," << D->getSizeInBits() / 8 << "]";
          }
      OS << "]}";
    }
    OS << "}";
  }

  void dump(raw_ostream &OS) {
    OS << "{\"module\":" << jstr(M.getName()) << ",\n";
    dumpStructs(OS);
    OS << ",\n\"enums\":{";
    {
      bool FE = true;
      for (auto &KV : EnumByName) {
        if (!FE) OS << ",\n";
        FE = false;
        OS << jstr(KV.first) << ":{";
        bool FF = true;
        for (auto *E : KV.second->getElements())
          if (auto *En = dyn_cast<DIEnumerator>(E)) {
            if (!FF) OS << ",";
            FF = false;
            OS << jstr(En->getName()) << ":" << En->getValue().getSExtValue();
          }
        OS << "}";
      }
    }
    OS << "},\n\"globals\":[\n";
    bool F = true;
    for (auto &G : M.globals()) {
      if (G.getName().startswith("llvm.")) continue;
      if (!F) OS << ",\n";
      F = false;
      OS << "{\"name\":" << jstr(G.getName());
      OS << ",\"linkage\":" << (G.hasInternalLinkage() || G.hasPrivateLinkage() ? "\"internal\"" : "\"external\"");
      if (G.isThreadLocal()) OS << ",\"tls\":1";
      if (G.isConstant()) OS << ",\"const\":1";
      OS << ",\"ty\":" << jstr(tystr(G.getValueType()));
      if (G.hasInitializer()) {
        DICompositeType *Hint = nullptr;
        SmallVector<DIGlobalVariableExpression *, 1> GVEs;
        G.getDebugInfo(GVEs);
        if (!GVEs.empty()) Hint = diComposite(GVEs[0]->getVariable()->getType());
        OS << ",\"init\":" << constJson(G.getInitializer(), 0, Hint);
      }
      OS << "}";
    }
    OS << "],\n\"aliases\":[";
    F = true;
    for (auto &A : M.aliases()) {
      if (!F) OS << ",";
      F = false;
      OS << "[" << jstr(A.getName()) << "," << valref(A.getAliasee()) << "]";
    }
    OS << "],\n\"functions\":[\n";
    F = true;
    for (auto &Fn : M) {
      if (Fn.isIntrinsic() && Fn.getName().startswith("llvm.dbg")) continue;
      if (!F) OS << ",\n";
      F = false;
      dumpFunction(OS, Fn);
    }
    OS << "]}\n";
  }
};

static void runPipeline(Module &M, StringRef Pipeline) {
  LoopAnalysisManager LAM;
  FunctionAnalysisManager FAM;
  CGSCCAnalysisManager CGAM;
  ModuleAnalysisManager MAM;
  PassBuilder PB;
  PB.registerModuleAnalyses(MAM);
  PB.registerCGSCCAnalyses(CGAM);
  PB.registerFunctionAnalyses(FAM);
  PB.registerLoopAnalyses(LAM);
  PB.crossRegisterProxies(LAM, FAM, CGAM, MAM);
  ModulePassManager MPM;
  if (auto Err = PB.parsePassPipeline(MPM, Pipeline)) {
    errs() << "irfacts: bad pipeline: " << toString(std::move(Err)) << "\n";
    exit(2);
  }
  MPM.run(M, MAM);
}

static bool isPureLeaf(Function &F) {
  for (auto &BB : F)
    for (auto &I : BB) {
      if (isa<DbgInfoIntrinsic>(&I)) continue;
      if (isa<CallBase>(&I)) return false;
      if (I.mayReadOrWriteMemory()) return false;
    }
  return true;
}

int main(int argc, char **argv) {
  if (argc < 3) {
    errs() << "usage: irfacts in.bc out.json [--flat] [--stop=..] [--inline-ext=..] [--prim=..] [--ll=file]\n";
    return 2;
  }
  bool Flat = false;
  std::set<std::string> Stop, InlExt;
  std::vector<std::string> Prim = {"urcu/uatomic", "urcu/arch", "urcu/compiler.h",
                                   "urcu/system.h", "urcu/annotate.h"};
  std::string LLOut;
  for (int i = 3; i < argc; i++) {
    StringRef A(argv[i]);
    if (A == "--flat") Flat = true;
    else if (A.startswith("--stop=")) for (auto &S : splitList(A.drop_front(7))) Stop.insert(S);
    else if (A.startswith("--inline-ext=")) for (auto &S : splitList(A.drop_front(13))) InlExt.insert(S);
    else if (A.startswith("--prim=")) Prim = splitList(A.drop_front(7));
    else if (A.startswith("--ll=")) LLOut = A.drop_front(5).str();
    else { errs() << "irfacts: unknown option " << A << "\n"; return 2; }
  }
  LLVMContext Ctx;
  SMDiagnostic Err;
  std::unique_ptr<Module> M = parseIRFile(argv[1], Err, Ctx);
  if (!M) {
    Err.print("irfacts", errs());
    return 2;
  }
  // 1. local cleanup so that purity is visible.
  runPipeline(*M, "function(sroa,early-cse,simplifycfg)");
  // 2. mark.
  unsigned NPrim = 0, NLeaf = 0, NInt = 0;
  for (auto &F : *M) {
    if (F.isDeclaration()) continue;
    bool Mark = false;
    std::string N = F.getName().str();
    if (Stop.count(N)) continue;
    if (auto *SP = F.getSubprogram()) {
      std::string File = SP->getFilename().str();
      for (auto &P : Prim)
        if (File.find(P) != std::string::npos) { Mark = true; NPrim++; break; }
    }
    if (!Mark && F.hasInternalLinkage() && isPureLeaf(F)) { Mark = true; NLeaf++; }
    if (!Mark && Flat && (F.hasInternalLinkage() || InlExt.count(N))) { Mark = true; NInt++; }
    if (Mark) {
      F.removeFnAttr(Attribute::NoInline);
      F.removeFnAttr(Attribute::OptimizeNone);
      F.addFnAttr(Attribute::AlwaysInline);
    }
  }
  // 3. inline + normalise; helpers that become pure leaves once their own helpers were
  //    inlined (is_end -> clear_flag, ...) are picked up in further rounds.
  const char *Pipe = "always-inline,always-inline,"
                     "function(sroa,early-cse,sccp,instsimplify,simplifycfg,adce,"
                     "sroa,early-cse,sccp,instsimplify,simplifycfg,adce)";
  runPipeline(*M, Pipe);
  for (int Round = 0; Round < 3; Round++) {
    unsigned New = 0;
    for (auto &F : *M) {
      if (F.isDeclaration() || F.hasFnAttribute(Attribute::AlwaysInline)) continue;
      if (Stop.count(F.getName().str())) continue;
      if (F.hasInternalLinkage() && isPureLeaf(F)) {
        F.removeFnAttr(Attribute::NoInline);
        F.removeFnAttr(Attribute::OptimizeNone);
        F.addFnAttr(Attribute::AlwaysInline);
        New++;
        NLeaf++;
      }
    }
    if (!New) break;
    runPipeline(*M, Pipe);
  }
  if (verifyModule(*M, &errs())) {
    errs() << "irfacts: module broken after normalisation\n";
    return 2;
  }
  if (!LLOut.empty()) {
    std::error_code EC;
    raw_fd_ostream O(LLOut, EC);
    M->print(O, nullptr);
  }
  std::error_code EC;
  raw_fd_ostream OS(argv[2], EC);
  if (EC) { errs() << "irfacts: cannot write " << argv[2] << "\n"; return 2; }
  Dumper D(*M);
  D.dump(OS);
  errs() << "irfacts: " << argv[1] << (Flat ? " flat" : " perfn") << " prim=" << NPrim
         << " leaf=" << NLeaf << " internal=" << NInt << "\n";
  return 0;
}
