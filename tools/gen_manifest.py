#!/usr/bin/env python3
"""Regenerates MANIFEST.json from the rule modules that exist under sa/rules (claimed) and the
property list (everything else goes to not_applicable with its reason)."""
import importlib
import json
import os
import sys

V = os.path.dirname(os.path.dirname(os.path.abspath(__file__)))
sys.path.insert(0, V)
props = [json.loads(l) for l in open(os.path.join(V, "properties.jsonl"))]
NA_REASON = {}
try:
    NA_REASON = json.load(open(os.path.join(V, "tools", "na_reasons.json")))
except Exception:
    pass
checks, na = [], []
for p in props:
    pid = p["id"]
    try:
        mod = importlib.import_module("sa.rules." + pid.lower())
    except ImportError:
        na.append({"property_id": pid, "reason": NA_REASON.get(pid, "rules designed in DESIGN.md section 3 but not implemented yet; nothing is claimed for this property")})
        continue
    meta = mod.META
    checks.append({
        "property_id": pid,
        "quick_cmd": "./check %s --tier quick" % pid,
        "thorough_cmd": "./check %s --tier thorough" % pid,
        "evidence_file": "/verif/evidence/%s.json" % pid,
        "replay_cmd_template": "./check %s --replay {path}" % pid,
        "engine": "irfacts+rules",
        "technique": meta.get("technique", "static analysis: all-paths rules (must-pass-through, barrier pairing, lockset, def-use, sibling agreement) over normalised LLVM IR of every built unit"),
        "level_claimed": {
            "category": "other",
            "text": meta.get("level_text", "Static, all-paths decision of the structural clauses listed in the evidence explanation: each is a necessary "
                    "condition of the behavioural property (breaking it yields a failing schedule/input); sufficiency under all interleavings is not claimed. ") + " Decided: " + meta["explanation"][:1500],
            "design_ref": "DESIGN.md section 3, %s" % pid,
        },
        "level_note": "Not decided: " + meta.get("not_decided", "") + ". Trusted: clang 14 front end, LLVM normalisation passes, the x86-64 memory-model table (DESIGN 2.2); "
                      "configuration as found in include/urcu/config.h; 64-bit only.",
    })
man = {
    "version": 1,
    "setup_cmd": "make -C tools/irfacts",
    "hooks": {
        "guard": "URCU_VERIF_SA",
        "enable": "none needed: the analysis compiles /repo's unmodified sources to LLVM IR (no hooks, no source commits besides fix: commits)",
        "baseline_off_cmd": "make -C /repo -k check",
        "source_commits": [],
        "add_only": True,
    },
    "engines": [{
        "name": "irfacts+rules",
        "path": "/verif/check",
        "serves_properties": [c["property_id"] for c in checks],
        "kind_free_text": "custom static analyser: clang -> LLVM IR -> tools/irfacts (C++/LLVM 14: selective inlining, normalisation, JSON facts with debug-info access paths) -> python rule tables (sa/rules) using dominators, path reachability with removed nodes, SCCs, locksets, def-use origins",
    }],
    "checks": checks,
    "not_applicable": na,
    "notes": "Exit codes: 0 held, 1 VIOLATION (with replay file), 2 analysis broken / inconclusive (anchor vanished, idiom not recognised). "
             "known_findings.json lists genuine defects (fixed: entries suppress nothing).",
}
json.dump(man, open(os.path.join(V, "MANIFEST.json"), "w"), indent=1)
print("claimed:", [c["property_id"] for c in checks])
print("n/a:", [n["property_id"] for n in na])
