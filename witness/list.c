/* Witness unit for the plain (non-RCU) list.h traversal macros the library's registries, helper lists and fork handlers are walked
 * with: each macro instantiated in a function of its own so that the static rules can inspect what it expands to.  Never executed. */
#include <stddef.h>
#include <urcu/list.h>

struct w_litem {
	long pad;		/* list member deliberately not at offset 0 */
	struct cds_list_head node;
	long key;
};

extern void w_visit(void *p);

void w_ltrav_cds_list_for_each(struct cds_list_head *head)
{
	struct cds_list_head *pos;
	cds_list_for_each(pos, head)
		w_visit(pos);
}

void w_ltrav_cds_list_for_each_safe(struct cds_list_head *head)
{
	struct cds_list_head *pos, *p;
	cds_list_for_each_safe(pos, p, head)
		w_visit(pos);
}

void w_ltrav_cds_list_for_each_prev(struct cds_list_head *head)
{
	struct cds_list_head *pos;
	cds_list_for_each_prev(pos, head)
		w_visit(pos);
}

void w_ltrav_cds_list_for_each_prev_safe(struct cds_list_head *head)
{
	struct cds_list_head *pos, *p;
	cds_list_for_each_prev_safe(pos, p, head)
		w_visit(pos);
}

void w_ltrav_cds_list_for_each_entry(struct cds_list_head *head)
{
	struct w_litem *pos;
	cds_list_for_each_entry(pos, head, node)
		w_visit(pos);
}

void w_ltrav_cds_list_for_each_entry_reverse(struct cds_list_head *head)
{
	struct w_litem *pos;
	cds_list_for_each_entry_reverse(pos, head, node)
		w_visit(pos);
}

void w_ltrav_cds_list_for_each_entry_safe(struct cds_list_head *head)
{
	struct w_litem *pos, *p;
	cds_list_for_each_entry_safe(pos, p, head, node)
		w_visit(pos);
}

int w_lempty(struct cds_list_head *head) { return cds_list_empty(head); }
