/* Positive examples for rules whose expected match count on the library is zero: each must be reported by its detector
 * on every run (a detector that stops matching these is broken, not the library clean).  Never executed. */
struct w_counted { unsigned char narrow; int wide; };

/* narrowing store of a counted value (detector: sa/narrow.py) */
void w_selfcheck_narrowing_store(struct w_counted *c, int count)
{
	c->narrow = count;
}

/* not a narrowing of a counted value: constant, masked and boolean results fit by construction */
void w_selfcheck_fitting_stores(struct w_counted *c, int count)
{
	c->narrow = 3;
	c->narrow = count & 0x7f;
	c->narrow = count > 2;
}

#include <urcu/uatomic.h>

/* atomic updates that cannot change the word: a flag constant that evaluates to 0 (detector: sa/narrow.py noop_updates) */
void w_selfcheck_noop_updates(unsigned long *p)
{
	uatomic_or(p, 0);
	uatomic_and(p, ~0UL);
}

void w_selfcheck_real_updates(unsigned long *p)
{
	uatomic_or(p, 2);
	uatomic_and(p, ~2UL);
}

#include <errno.h>
#include <unistd.h>

/* errno consulted on the success path of the call it belongs to (detector: sa/narrow.py errno_misuse) */
int w_selfcheck_errno_on_success(int fd)
{
	if (!close(fd)) {
		if (errno == EINTR)
			return 1;
	}
	return 0;
}

int w_selfcheck_errno_on_failure(int fd)
{
	if (close(fd)) {
		if (errno == EINTR)
			return 1;
	}
	return 0;
}

#include <pthread.h>
static pthread_mutex_t w_selfcheck_mutex = PTHREAD_MUTEX_INITIALIZER;
int w_selfcheck_shared;

/* a path that returns with the mutex still held (detector: sa/narrow.py held_at_return) */
int w_selfcheck_missing_unlock(int x)
{
	pthread_mutex_lock(&w_selfcheck_mutex);
	if (x < 0)
		return -1;
	w_selfcheck_shared = x;
	pthread_mutex_unlock(&w_selfcheck_mutex);
	return 0;
}

int w_selfcheck_paired_unlock(int x)
{
	int ret = 0;

	pthread_mutex_lock(&w_selfcheck_mutex);
	if (x < 0)
		ret = -1;
	else
		w_selfcheck_shared = x;
	pthread_mutex_unlock(&w_selfcheck_mutex);
	return ret;
}

#include <stdlib.h>
/* a value used before it is assigned (detector: sa/narrow.py undef_uses) */
void w_selfcheck_use_before_def(void)
{
	void *p;

	free(p);
}
