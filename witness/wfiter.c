/* Witness unit for C10/C11: instantiates the iteration macros of wfcqueue.h, wfstack.h and lfstack.h
 * (public, non-LGPL form: the first/next helpers are calls into the library) in one function each, so
 * that the static rules can inspect what the macros expand to.  w_visit() may free the node it is
 * given.  Never executed. */
#include <stddef.h>
#include <urcu/wfcqueue.h>
#include <urcu/wfstack.h>
#include <urcu/lfstack.h>

extern void w_visit(void *p);

void w_iter___cds_wfcq_for_each_blocking(struct cds_wfcq_head *head, struct cds_wfcq_tail *tail)
{
	struct cds_wfcq_node *node;
	__cds_wfcq_for_each_blocking(head, tail, node)
		w_visit(node);
}

void w_iter___cds_wfcq_for_each_blocking_safe(struct cds_wfcq_head *head, struct cds_wfcq_tail *tail)
{
	struct cds_wfcq_node *node, *n;
	__cds_wfcq_for_each_blocking_safe(head, tail, node, n)
		w_visit(node);
}

void w_iter_cds_wfs_for_each_blocking(struct cds_wfs_head *head)
{
	struct cds_wfs_node *node;
	cds_wfs_for_each_blocking(head, node)
		w_visit(node);
}

void w_iter_cds_wfs_for_each_blocking_safe(struct cds_wfs_head *head)
{
	struct cds_wfs_node *node, *n;
	cds_wfs_for_each_blocking_safe(head, node, n)
		w_visit(node);
}

void w_iter_cds_lfs_for_each(struct cds_lfs_head *head)
{
	struct cds_lfs_node *node;
	cds_lfs_for_each(head, node)
		w_visit(node);
}

void w_iter_cds_lfs_for_each_safe(struct cds_lfs_head *head)
{
	struct cds_lfs_node *node, *n;
	cds_lfs_for_each_safe(head, node, n)
		w_visit(node);
}
