/* Witness unit: every exported (non-LGPL) entry point of the queue / stack families, instantiated from the static-inline
 * implementation that _LGPL_SOURCE users get.  The rules compare each library symbol with its inline twin (same writes, same
 * external calls).  Generated once from the definitions in src/{wfcqueue,wfqueue,wfstack,lfstack,rculfqueue,rculfstack}.c;
 * an entry point without a twin here is reported as not analysed.  Never executed. */
#define _LGPL_SOURCE
#define CDS_WFQ_DEPRECATED
#define CDS_LFS_RCU_DEPRECATED
#include <urcu/wfcqueue.h>
#include <urcu/wfqueue.h>
#include <urcu/wfstack.h>
#include <urcu/lfstack.h>
#include <urcu/rculfqueue.h>
#include <urcu/rculfstack.h>

void w_inl_cds_wfcq_node_init(struct cds_wfcq_node *node) { cds_wfcq_node_init(node); }
void w_inl_cds_wfcq_init(struct cds_wfcq_head *head, struct cds_wfcq_tail *tail) { cds_wfcq_init(head, tail); }
void w_inl_cds_wfcq_destroy(struct cds_wfcq_head *head, struct cds_wfcq_tail *tail) { cds_wfcq_destroy(head, tail); }
void w_inl___cds_wfcq_init(struct __cds_wfcq_head *head, struct cds_wfcq_tail *tail) { __cds_wfcq_init(head, tail); }
bool w_inl_cds_wfcq_empty(cds_wfcq_head_const_ptr_t head, const struct cds_wfcq_tail *tail) { return cds_wfcq_empty(head, tail); }
bool w_inl_cds_wfcq_enqueue(cds_wfcq_head_ptr_t head, struct cds_wfcq_tail *tail, struct cds_wfcq_node *node) { return cds_wfcq_enqueue(head, tail, node); }
void w_inl_cds_wfcq_dequeue_lock(struct cds_wfcq_head *head, struct cds_wfcq_tail *tail) { cds_wfcq_dequeue_lock(head, tail); }
void w_inl_cds_wfcq_dequeue_unlock(struct cds_wfcq_head *head, struct cds_wfcq_tail *tail) { cds_wfcq_dequeue_unlock(head, tail); }
struct cds_wfcq_node * w_inl_cds_wfcq_dequeue_blocking(struct cds_wfcq_head *head, struct cds_wfcq_tail *tail) { return cds_wfcq_dequeue_blocking(head, tail); }
struct cds_wfcq_node * w_inl_cds_wfcq_dequeue_with_state_blocking(struct cds_wfcq_head *head, struct cds_wfcq_tail *tail, int *state) { return cds_wfcq_dequeue_with_state_blocking(head, tail, state); }
enum cds_wfcq_ret w_inl_cds_wfcq_splice_blocking(struct cds_wfcq_head *dest_q_head, struct cds_wfcq_tail *dest_q_tail, struct cds_wfcq_head *src_q_head, struct cds_wfcq_tail *src_q_tail) { return cds_wfcq_splice_blocking(dest_q_head, dest_q_tail, src_q_head, src_q_tail); }
struct cds_wfcq_node * w_inl___cds_wfcq_dequeue_blocking(cds_wfcq_head_ptr_t head, struct cds_wfcq_tail *tail) { return __cds_wfcq_dequeue_blocking(head, tail); }
struct cds_wfcq_node * w_inl___cds_wfcq_dequeue_with_state_blocking(cds_wfcq_head_ptr_t head, struct cds_wfcq_tail *tail, int *state) { return __cds_wfcq_dequeue_with_state_blocking(head, tail, state); }
struct cds_wfcq_node * w_inl___cds_wfcq_dequeue_nonblocking(cds_wfcq_head_ptr_t head, struct cds_wfcq_tail *tail) { return __cds_wfcq_dequeue_nonblocking(head, tail); }
struct cds_wfcq_node * w_inl___cds_wfcq_dequeue_with_state_nonblocking(cds_wfcq_head_ptr_t head, struct cds_wfcq_tail *tail, int *state) { return __cds_wfcq_dequeue_with_state_nonblocking(head, tail, state); }
enum cds_wfcq_ret w_inl___cds_wfcq_splice_blocking(cds_wfcq_head_ptr_t dest_q_head, struct cds_wfcq_tail *dest_q_tail, cds_wfcq_head_ptr_t src_q_head, struct cds_wfcq_tail *src_q_tail) { return __cds_wfcq_splice_blocking(dest_q_head, dest_q_tail, src_q_head, src_q_tail); }
enum cds_wfcq_ret w_inl___cds_wfcq_splice_nonblocking(cds_wfcq_head_ptr_t dest_q_head, struct cds_wfcq_tail *dest_q_tail, cds_wfcq_head_ptr_t src_q_head, struct cds_wfcq_tail *src_q_tail) { return __cds_wfcq_splice_nonblocking(dest_q_head, dest_q_tail, src_q_head, src_q_tail); }
struct cds_wfcq_node * w_inl___cds_wfcq_first_blocking(cds_wfcq_head_ptr_t head, struct cds_wfcq_tail *tail) { return __cds_wfcq_first_blocking(head, tail); }
struct cds_wfcq_node * w_inl___cds_wfcq_first_nonblocking(cds_wfcq_head_ptr_t head, struct cds_wfcq_tail *tail) { return __cds_wfcq_first_nonblocking(head, tail); }
struct cds_wfcq_node * w_inl___cds_wfcq_next_blocking(cds_wfcq_head_ptr_t head, struct cds_wfcq_tail *tail, struct cds_wfcq_node *node) { return __cds_wfcq_next_blocking(head, tail, node); }
struct cds_wfcq_node * w_inl___cds_wfcq_next_nonblocking(cds_wfcq_head_ptr_t head, struct cds_wfcq_tail *tail, struct cds_wfcq_node *node) { return __cds_wfcq_next_nonblocking(head, tail, node); }
void w_inl_cds_wfq_node_init(struct cds_wfq_node *node) { cds_wfq_node_init(node); }
void w_inl_cds_wfq_init(struct cds_wfq_queue *q) { cds_wfq_init(q); }
void w_inl_cds_wfq_destroy(struct cds_wfq_queue *q) { cds_wfq_destroy(q); }
void w_inl_cds_wfq_enqueue(struct cds_wfq_queue *q, struct cds_wfq_node *node) { cds_wfq_enqueue(q, node); }
struct cds_wfq_node * w_inl___cds_wfq_dequeue_blocking(struct cds_wfq_queue *q) { return __cds_wfq_dequeue_blocking(q); }
struct cds_wfq_node * w_inl_cds_wfq_dequeue_blocking(struct cds_wfq_queue *q) { return cds_wfq_dequeue_blocking(q); }
void w_inl_cds_wfs_node_init(struct cds_wfs_node *node) { cds_wfs_node_init(node); }
void w_inl_cds_wfs_init(struct cds_wfs_stack *s) { cds_wfs_init(s); }
void w_inl_cds_wfs_destroy(struct cds_wfs_stack *s) { cds_wfs_destroy(s); }
void w_inl___cds_wfs_init(struct __cds_wfs_stack *s) { __cds_wfs_init(s); }
bool w_inl_cds_wfs_empty(cds_wfs_stack_const_ptr_t u_stack) { return cds_wfs_empty(u_stack); }
int w_inl_cds_wfs_push(cds_wfs_stack_ptr_t u_stack, struct cds_wfs_node *node) { return cds_wfs_push(u_stack, node); }
struct cds_wfs_node * w_inl_cds_wfs_pop_blocking(struct cds_wfs_stack *s) { return cds_wfs_pop_blocking(s); }
struct cds_wfs_node * w_inl_cds_wfs_pop_with_state_blocking(struct cds_wfs_stack *s, int *state) { return cds_wfs_pop_with_state_blocking(s, state); }
struct cds_wfs_head * w_inl_cds_wfs_pop_all_blocking(struct cds_wfs_stack *s) { return cds_wfs_pop_all_blocking(s); }
struct cds_wfs_node * w_inl_cds_wfs_first(struct cds_wfs_head *head) { return cds_wfs_first(head); }
struct cds_wfs_node * w_inl_cds_wfs_next_blocking(struct cds_wfs_node *node) { return cds_wfs_next_blocking(node); }
struct cds_wfs_node * w_inl_cds_wfs_next_nonblocking(struct cds_wfs_node *node) { return cds_wfs_next_nonblocking(node); }
void w_inl_cds_wfs_pop_lock(struct cds_wfs_stack *s) { cds_wfs_pop_lock(s); }
void w_inl_cds_wfs_pop_unlock(struct cds_wfs_stack *s) { cds_wfs_pop_unlock(s); }
struct cds_wfs_node * w_inl___cds_wfs_pop_blocking(cds_wfs_stack_ptr_t u_stack) { return __cds_wfs_pop_blocking(u_stack); }
struct cds_wfs_node * w_inl___cds_wfs_pop_with_state_blocking(cds_wfs_stack_ptr_t u_stack, int *state) { return __cds_wfs_pop_with_state_blocking(u_stack, state); }
struct cds_wfs_node * w_inl___cds_wfs_pop_nonblocking(cds_wfs_stack_ptr_t u_stack) { return __cds_wfs_pop_nonblocking(u_stack); }
struct cds_wfs_node * w_inl___cds_wfs_pop_with_state_nonblocking(cds_wfs_stack_ptr_t u_stack, int *state) { return __cds_wfs_pop_with_state_nonblocking(u_stack, state); }
struct cds_wfs_head * w_inl___cds_wfs_pop_all(cds_wfs_stack_ptr_t u_stack) { return __cds_wfs_pop_all(u_stack); }
void w_inl_cds_lfs_node_init(struct cds_lfs_node *node) { cds_lfs_node_init(node); }
void w_inl_cds_lfs_init(struct cds_lfs_stack *s) { cds_lfs_init(s); }
void w_inl_cds_lfs_destroy(struct cds_lfs_stack *s) { cds_lfs_destroy(s); }
void w_inl___cds_lfs_init(struct __cds_lfs_stack *s) { __cds_lfs_init(s); }
bool w_inl_cds_lfs_empty(cds_lfs_stack_const_ptr_t s) { return cds_lfs_empty(s); }
bool w_inl_cds_lfs_push(cds_lfs_stack_ptr_t s, struct cds_lfs_node *node) { return cds_lfs_push(s, node); }
struct cds_lfs_node * w_inl_cds_lfs_pop_blocking(struct cds_lfs_stack *s) { return cds_lfs_pop_blocking(s); }
struct cds_lfs_head * w_inl_cds_lfs_pop_all_blocking(struct cds_lfs_stack *s) { return cds_lfs_pop_all_blocking(s); }
void w_inl_cds_lfs_pop_lock(struct cds_lfs_stack *s) { cds_lfs_pop_lock(s); }
void w_inl_cds_lfs_pop_unlock(struct cds_lfs_stack *s) { cds_lfs_pop_unlock(s); }
struct cds_lfs_node * w_inl___cds_lfs_pop(cds_lfs_stack_ptr_t s) { return __cds_lfs_pop(s); }
struct cds_lfs_head * w_inl___cds_lfs_pop_all(cds_lfs_stack_ptr_t s) { return __cds_lfs_pop_all(s); }
void w_inl_cds_lfq_node_init_rcu(struct cds_lfq_node_rcu *node) { cds_lfq_node_init_rcu(node); }
int w_inl_cds_lfq_destroy_rcu(struct cds_lfq_queue_rcu *q) { return cds_lfq_destroy_rcu(q); }
void w_inl_cds_lfq_enqueue_rcu(struct cds_lfq_queue_rcu *q, struct cds_lfq_node_rcu *node) { cds_lfq_enqueue_rcu(q, node); }
struct cds_lfq_node_rcu * w_inl_cds_lfq_dequeue_rcu(struct cds_lfq_queue_rcu *q) { return cds_lfq_dequeue_rcu(q); }
void w_inl_cds_lfs_node_init_rcu(struct cds_lfs_node_rcu *node) { cds_lfs_node_init_rcu(node); }
void w_inl_cds_lfs_init_rcu(struct cds_lfs_stack_rcu *s) { cds_lfs_init_rcu(s); }
int w_inl_cds_lfs_push_rcu(struct cds_lfs_stack_rcu *s, struct cds_lfs_node_rcu *node) { return cds_lfs_push_rcu(s, node); }
struct cds_lfs_node_rcu * w_inl_cds_lfs_pop_rcu(struct cds_lfs_stack_rcu *s) { return cds_lfs_pop_rcu(s); }
void w_inl_cds_lfq_init_rcu(struct cds_lfq_queue_rcu *q, void queue_call_rcu(struct rcu_head *head, void (*func)(struct rcu_head *head))) { cds_lfq_init_rcu(q, queue_call_rcu); }
