/* Witness unit for C20: every uatomic operation at every operand width and signedness, with
 * the documented default memory order, plus mixed-width operands and explicit load/store
 * orders.  One function per (op, type): the static rules inspect what each expands to.
 * Never executed. */
#include <urcu/uatomic.h>

#define W_TYPES(X) \
	X(uc, unsigned char) X(sc, signed char) X(us, unsigned short) X(ss, short) \
	X(ui, unsigned int) X(si, int) X(ul, unsigned long) X(sl, long)

#define W_OPS(T, TY) \
	void w_set__##T(TY *p, TY v) { uatomic_set(p, v); } \
	TY w_read__##T(TY *p) { return uatomic_read(p); } \
	TY w_xchg__##T(TY *p, TY v) { return uatomic_xchg(p, v); } \
	TY w_cmpxchg__##T(TY *p, TY o, TY n) { return uatomic_cmpxchg(p, o, n); } \
	TY w_add_return__##T(TY *p, TY v) { return uatomic_add_return(p, v); } \
	TY w_sub_return__##T(TY *p, TY v) { return uatomic_sub_return(p, v); } \
	void w_add__##T(TY *p, TY v) { uatomic_add(p, v); } \
	void w_sub__##T(TY *p, TY v) { uatomic_sub(p, v); } \
	void w_inc__##T(TY *p) { uatomic_inc(p); } \
	void w_dec__##T(TY *p) { uatomic_dec(p); } \
	void w_and__##T(TY *p, TY v) { uatomic_and(p, v); } \
	void w_or__##T(TY *p, TY v) { uatomic_or(p, v); }

W_TYPES(W_OPS)

/* mixed widths: 8-byte target, 4-byte (and 1-byte) operand */
#define W_MIX(T, TY, V, VY) \
	TY w_add_return__##T##__##V(TY *p, VY v) { return uatomic_add_return(p, v); } \
	TY w_sub_return__##T##__##V(TY *p, VY v) { return uatomic_sub_return(p, v); } \
	void w_add__##T##__##V(TY *p, VY v) { uatomic_add(p, v); } \
	void w_sub__##T##__##V(TY *p, VY v) { uatomic_sub(p, v); }

W_MIX(ul, unsigned long, ui, unsigned int)
W_MIX(sl, long, si, int)
W_MIX(ul, unsigned long, si, int)
W_MIX(sl, long, ui, unsigned int)
W_MIX(ul, unsigned long, uc, unsigned char)
W_MIX(ui, unsigned int, uc, unsigned char)

/* mixed widths for the bit / store / exchange operations: the operation acts on the *object's* width whatever the type of the
 * value expression (the value is converted to the object's type first) */
#define W_MIX2(T, TY, V, VY) \
	void w_and__##T##__##V(TY *p, VY v) { uatomic_and(p, v); } \
	void w_or__##T##__##V(TY *p, VY v) { uatomic_or(p, v); } \
	void w_set__##T##__##V(TY *p, VY v) { uatomic_set(p, v); } \
	TY w_xchg__##T##__##V(TY *p, VY v) { return uatomic_xchg(p, v); } \
	TY w_cmpxchg__##T##__##V(TY *p, VY o, VY n) { return uatomic_cmpxchg(p, o, n); }

W_MIX2(us, unsigned short, uc, unsigned char)
W_MIX2(us, unsigned short, sc, signed char)
W_MIX2(ui, unsigned int, uc, unsigned char)
W_MIX2(ui, unsigned int, us, unsigned short)
W_MIX2(ul, unsigned long, uc, unsigned char)
W_MIX2(ul, unsigned long, ss, short)
W_MIX2(ul, unsigned long, ui, unsigned int)
W_MIX2(sl, long, si, int)
W_MIX(us, unsigned short, uc, unsigned char)
W_MIX(ui, unsigned int, us, unsigned short)

/* explicit memory orders for load/store */
#define W_MO(T, TY) \
	TY w_load_relaxed__##T(TY *p) { return uatomic_load(p, CMM_RELAXED); } \
	TY w_load_consume__##T(TY *p) { return uatomic_load(p, CMM_CONSUME); } \
	TY w_load_acquire__##T(TY *p) { return uatomic_load(p, CMM_ACQUIRE); } \
	TY w_load_seq_cst__##T(TY *p) { return uatomic_load(p, CMM_SEQ_CST); } \
	TY w_load_seq_cst_fence__##T(TY *p) { return uatomic_load(p, CMM_SEQ_CST_FENCE); } \
	void w_store_relaxed__##T(TY *p, TY v) { uatomic_store(p, v, CMM_RELAXED); } \
	void w_store_release__##T(TY *p, TY v) { uatomic_store(p, v, CMM_RELEASE); } \
	void w_store_seq_cst__##T(TY *p, TY v) { uatomic_store(p, v, CMM_SEQ_CST); } \
	void w_store_seq_cst_fence__##T(TY *p, TY v) { uatomic_store(p, v, CMM_SEQ_CST_FENCE); }

W_TYPES(W_MO)

/* macro-argument hygiene: a compound operand is evaluated as a whole, in its own type, before any conversion the macro
 * applies (an unparenthesised use of the parameter inside a cast or a unary operator would bind to its first sub-expression) */
#define W_CMPD(T, TY) \
	void w_set_cmpd__##T(TY *p, int a, int b) { uatomic_set(p, a < b); } \
	TY w_xchg_cmpd__##T(TY *p, int a, int b) { return uatomic_xchg(p, a < b); } \
	TY w_cmpxchg_cmpd__##T(TY *p, int a, int b) { return uatomic_cmpxchg(p, a < b, b < a); } \
	TY w_add_return_cmpd__##T(TY *p, int a, int b) { return uatomic_add_return(p, a < b); } \
	TY w_sub_return_cmpd__##T(TY *p, int a, int b) { return uatomic_sub_return(p, a < b); } \
	void w_add_cmpd__##T(TY *p, int a, int b) { uatomic_add(p, a < b); } \
	void w_sub_cmpd__##T(TY *p, int a, int b) { uatomic_sub(p, a < b); } \
	void w_and_cmpd__##T(TY *p, int a, int b) { uatomic_and(p, a < b); } \
	void w_or_cmpd__##T(TY *p, int a, int b) { uatomic_or(p, a < b); }

W_CMPD(uc, unsigned char)
W_CMPD(us, unsigned short)
W_CMPD(ui, unsigned int)
W_CMPD(sl, long)
W_CMPD(ul, unsigned long)

/* identity operands given as literals: `add 0`, `or 0`, `and ~0`, `xchg(p, 0)`, `cmpxchg(p, 0, 0)` are still read-modify-write
 * operations (callers use uatomic_add_return(p, 0) as a fully ordered read) - a macro that special-cases a constant operand
 * into a plain load / nothing loses the atomicity and the barrier */
#define W_CONST(T, TY) \
	TY w_add_return_k0__##T(TY *p) { return uatomic_add_return(p, 0); } \
	TY w_sub_return_k0__##T(TY *p) { return uatomic_sub_return(p, 0); } \
	TY w_add_return_k1__##T(TY *p) { return uatomic_add_return(p, 1); } \
	TY w_sub_return_k1__##T(TY *p) { return uatomic_sub_return(p, 1); } \
	TY w_xchg_k0__##T(TY *p) { return uatomic_xchg(p, 0); } \
	TY w_cmpxchg_k0__##T(TY *p) { return uatomic_cmpxchg(p, 0, 0); } \
	void w_add_k0__##T(TY *p) { uatomic_add(p, 0); } \
	void w_sub_k0__##T(TY *p) { uatomic_sub(p, 0); } \
	void w_or_k0__##T(TY *p) { uatomic_or(p, 0); } \
	void w_and_k0__##T(TY *p) { uatomic_and(p, (TY) -1); }

W_TYPES(W_CONST)
