/* Witness unit for C18: instantiates every RCU list update primitive and every
 * *_rcu traversal macro of /repo's current headers in a function of its own, so that the
 * static rules can inspect the code the macros expand to.  Never executed. */
/* _LGPL_SOURCE selects the static-inline rcu_dereference / rcu_assign_pointer of
 * urcu/static/pointer.h (the anchored implementation); the function-call wrappers of non-LGPL
 * builds are not analysed. */
#define _LGPL_SOURCE
#include <stddef.h>
#include <urcu/rculist.h>
#include <urcu/rcuhlist.h>

struct w_item {
	long pad;		/* list member deliberately not at offset 0 */
	struct cds_list_head node;
	struct cds_hlist_node hnode;
	long key;
};

extern void w_visit(void *p);

void w_list_add_rcu(struct cds_list_head *newp, struct cds_list_head *head) { cds_list_add_rcu(newp, head); }
void w_list_add_tail_rcu(struct cds_list_head *newp, struct cds_list_head *head) { cds_list_add_tail_rcu(newp, head); }
void w_list_replace_rcu(struct cds_list_head *old, struct cds_list_head *newp) { cds_list_replace_rcu(old, newp); }
void w_list_del_rcu(struct cds_list_head *elem) { cds_list_del_rcu(elem); }
void w_hlist_add_head_rcu(struct cds_hlist_node *newp, struct cds_hlist_head *head) { cds_hlist_add_head_rcu(newp, head); }
void w_hlist_del_rcu(struct cds_hlist_node *elem) { cds_hlist_del_rcu(elem); }

void w_trav_cds_list_for_each_rcu(struct cds_list_head *head)
{
	struct cds_list_head *pos;
	cds_list_for_each_rcu(pos, head)
		w_visit(pos);
}

void w_trav_cds_list_for_each_entry_rcu(struct cds_list_head *head)
{
	struct w_item *pos;
	cds_list_for_each_entry_rcu(pos, head, node)
		w_visit(pos);
}

void w_trav_cds_hlist_for_each_rcu(struct cds_hlist_head *head)
{
	struct cds_hlist_node *pos;
	cds_hlist_for_each_rcu(pos, head)
		w_visit(pos);
}

void w_trav_cds_hlist_for_each_entry_rcu(struct cds_hlist_head *head)
{
	struct w_item *entry;
	struct cds_hlist_node *pos;
	cds_hlist_for_each_entry_rcu(entry, pos, head, hnode)
		w_visit(entry);
}

void w_trav_cds_hlist_for_each_entry_rcu_2(struct cds_hlist_head *head)
{
	struct w_item *entry;
	cds_hlist_for_each_entry_rcu_2(entry, head, hnode)
		w_visit(entry);
}
