/* Witness unit for urcu_ref (include/urcu/ref.h), the reference count under rcu_barrier's completion object and the work
 * queue's completion.  One function per primitive; never executed. */
#include <urcu/ref.h>

void w_ref_put(struct urcu_ref *ref, void (*release)(struct urcu_ref *)) { urcu_ref_put(ref, release); }
bool w_ref_get_safe(struct urcu_ref *ref) { return urcu_ref_get_safe(ref); }
void w_ref_get(struct urcu_ref *ref) { urcu_ref_get(ref); }
bool w_ref_get_unless_zero(struct urcu_ref *ref) { return urcu_ref_get_unless_zero(ref); }
void w_ref_init(struct urcu_ref *ref) { urcu_ref_init(ref); }
void w_ref_set(struct urcu_ref *ref, long v) { urcu_ref_set(ref, v); }
