"""Self-test seeds: single-site source edits (DESIGN Appendix B).  kind=mutant must make `rule`
fire; kind=benign must leave the property's check silent."""

def M(id, prop, rule, file, old, new, **kw):
    d = dict(id=id, prop=prop, rule=rule, kind="mutant", edits=[(file, old, new)])
    d.update(kw)
    return d

def B(id, prop, file, old, new, **kw):
    d = dict(id=id, prop=prop, rule=None, kind="benign", edits=[(file, old, new)])
    d.update(kw)
    return d

SEEDS = [
    # ---------------- C01 ----------------
    M("c01-drop-scan2", "C01", "C01.skel", "src/urcu.c",
      "\twait_for_readers(&cur_snap_readers, NULL, &qsreaders, &acquire_group);\n", "\t(void) &cur_snap_readers;\n"),
    M("c01-drop-flip", "C01", "C01.skel", "src/urcu.c",
      "\tuatomic_store(&rcu_gp.ctr, rcu_gp.ctr ^ URCU_GP_CTR_PHASE);\n", ""),
    M("c01-drop-first-master", "C01", "C01.skel", "src/urcu.c",
      "\t/* Write new ptr before changing the qparity */\n\tsmp_mb_master();\n", "\t/* Write new ptr before changing the qparity */\n"),
    M("c01-drop-last-master", "C01", "C01.skel", "src/urcu.c",
      "\tsmp_mb_master();\n\tcmm_annotate_group_mb_acquire(&acquire_group);\nout:", "\tcmm_annotate_group_mb_acquire(&acquire_group);\nout:"),
    M("c01-move-waiters-before-lock", "C01", "C01.merge", "src/urcu.c",
      "\tmutex_lock(&rcu_gp_lock);\n\n\t/*\n\t * Move all waiters into our local queue.\n\t */\n\turcu_move_waiters(&waiters, &gp_waiters);\n",
      "\turcu_move_waiters(&waiters, &gp_waiters);\n\tmutex_lock(&rcu_gp_lock);\n"),
    M("c01-old-falls-through", "C01", "C01.scan", "src/urcu.c",
      "\t\t\tcase URCU_READER_INACTIVE:\n\t\t\t\tcds_list_move(&index->node, qsreaders);\n\t\t\t\tbreak;\n\t\t\tcase URCU_READER_ACTIVE_OLD:",
      "\t\t\tcase URCU_READER_ACTIVE_OLD:\n\t\t\tcase URCU_READER_INACTIVE:\n\t\t\t\tcds_list_move(&index->node, qsreaders);\n\t\t\t\tbreak;\n\t\t\tcase 77:"),
    M("c01-nonsafe-iteration", "C01", "C01.scan", "src/urcu.c",
      "\t\tcds_list_for_each_entry_safe(index, tmp, input_readers, node) {", "\t\t(void) tmp; cds_list_for_each_entry(index, input_readers, node) {"),
    M("c01-classify-polarity", "C01", "C01.classify", "include/urcu/static/urcu-common.h",
      "\tif (!(v & URCU_GP_CTR_NEST_MASK))\n\t\treturn URCU_READER_INACTIVE;", "\tif ((v & URCU_GP_CTR_NEST_MASK))\n\t\treturn URCU_READER_INACTIVE;"),
    M("c01-mb-readlock-weak", "C01", "C01.rlock", "include/urcu/static/urcu-mb.h",
      "\t\tuatomic_store(ctr, uatomic_load(&urcu_mb_gp.ctr));\n\t\tcmm_smp_mb();", "\t\tuatomic_store(ctr, uatomic_load(&urcu_mb_gp.ctr));\n\t\tcmm_barrier();"),
    M("c01-memb-unlock-no-second-slave", "C01", "C01.runlock", "include/urcu/static/urcu-memb.h",
      "\t\turcu_memb_smp_mb_slave();\n\t\turcu_common_wake_up_gp(&urcu_memb_gp);", "\t\turcu_common_wake_up_gp(&urcu_memb_gp);"),
    M("c01-qsbr-no-final-mb", "C01", "C01.skel", "src/urcu-qsbr.c",
      "\telse\n\t\tcmm_smp_mb();\n\n\tcmm_annotate_group_mb_acquire(&acquire_group);", "\telse\n\t\tcmm_barrier();\n\n\tcmm_annotate_group_mb_acquire(&acquire_group);"),
    B("c01-benign-qsbr-notrequired-mb", "C01", "src/urcu-qsbr.c",
      "\tuatomic_store(&urcu_qsbr_gp.ctr, urcu_qsbr_gp.ctr + URCU_QSBR_GP_CTR);\n\n\t/*\n\t * Must commit urcu_qsbr_gp.ctr update to memory before waiting for\n\t * quiescent state. Failure to do so could result in the writer\n\t * waiting forever while new readers are always accessing data\n\t * (no progress). Enforce compiler-order of store to urcu_qsbr_gp.ctr\n\t * before load URCU_TLS(urcu_qsbr_reader).ctr.\n\t */\n\tcmm_barrier();\n\n\t/*\n\t * Adding a cmm_smp_mb() which is _not_ formally required, but makes the\n\t * model easier to understand. It does not have a big performance impact\n\t * anyway, given this is the write-side.\n\t */\n\tcmm_smp_mb();",
      "\tuatomic_store(&urcu_qsbr_gp.ctr, urcu_qsbr_gp.ctr + URCU_QSBR_GP_CTR);\n\tcmm_barrier();"),
    B("c01-benign-notrequired-mb", "C01", "src/urcu.c",
      "\t * anyway, given this is the write-side.\n\t */\n\tcmm_smp_mb();\n\n\t/* Switch parity: 0 -> 1, 1 -> 0 */",
      "\t * anyway, given this is the write-side.\n\t */\n\tcmm_barrier();\n\n\t/* Switch parity: 0 -> 1, 1 -> 0 */"),
    B("c01-benign-rename-local", "C01", "src/urcu.c", "wait_loops", "spin_count", count=8),
]
