/*
 * Observation on the UNCHANGED tree (not the seed).
 *
 * QSBR flavor: the forking thread is a registered (hence online) reader - the
 * only registered application thread, as the documentation requires.  It has
 * queued a callback a little while ago, so the default call_rcu helper is
 * inside synchronize_rcu(), waiting for the forking thread to announce a
 * quiescent state.  urcu_qsbr_call_rcu_before_fork() then waits (poll loop)
 * for the helper to reach its PAUSED state without putting the calling thread
 * offline (rcu_barrier() does take that precaution), so both wait on each
 * other forever: the fork never happens.
 */
#include <stdio.h>
#include <stdlib.h>
#include <unistd.h>
#include <signal.h>
#include <time.h>
#include <sys/wait.h>
#include <urcu/urcu-qsbr.h>

static void cb(struct rcu_head *h)
{
	free(h);
}

static void on_alarm(int sig)
{
	static const char msg[] =
		"HANG: urcu_qsbr_call_rcu_before_fork() did not return within 5 s "
		"(forking thread online, helper in a grace period)\n";

	(void) sig;
	if (write(1, msg, sizeof(msg) - 1) < 0)
		_exit(2);
	_exit(1);
}

int main(void)
{
	struct timespec ts = { 0, 100 * 1000000L };
	struct rcu_head *h = calloc(1, sizeof(*h));
	pid_t pid;

	signal(SIGALRM, on_alarm);
	urcu_qsbr_register_thread();
	urcu_qsbr_call_rcu(h, cb);
	nanosleep(&ts, NULL);		/* helper is now in synchronize_rcu() */

	alarm(5);
#ifdef GO_OFFLINE	/* control: passes when the forking thread is offline */
	urcu_qsbr_thread_offline();
#endif
	urcu_qsbr_call_rcu_before_fork();
	pid = fork();
	if (pid == 0) {
		urcu_qsbr_call_rcu_after_fork_child();
		_exit(0);
	}
	urcu_qsbr_call_rcu_after_fork_parent();
#ifdef GO_OFFLINE
	urcu_qsbr_thread_online();
#endif
	alarm(0);
	waitpid(pid, NULL, 0);
	urcu_qsbr_quiescent_state();
	urcu_qsbr_barrier();
	urcu_qsbr_unregister_thread();
	printf("ok: fork completed\n");
	return 0;
}
