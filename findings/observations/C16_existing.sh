#!/bin/sh
# Reproducers for behaviours of the UNCHANGED tree noticed while preparing the
# seed (not part of the seed).  Each prints HANG/ok; exit status is ignored.
W=$(cd "$(dirname "$0")/.." && pwd)
D=$(cd "$(dirname "$0")" && pwd)
C="gcc -O2 -Wall -I$W/include"
L="-L$W/src/.libs -Wl,-rpath,$W/src/.libs -lurcu-common -lpthread"

$C -o "$D/ex_qsbr" "$D/existing_qsbr_before_fork.c" -lurcu-qsbr $L || exit 2
$C -DGO_OFFLINE -o "$D/ex_qsbr_ctl" "$D/existing_qsbr_before_fork.c" -lurcu-qsbr $L || exit 2
$C -o "$D/ex_free" "$D/existing_free_vs_fork.c" -lurcu-memb $L || exit 2
$C -DJOIN_FIRST -o "$D/ex_free_ctl" "$D/existing_free_vs_fork.c" -lurcu-memb $L || exit 2
$C -o "$D/ex_spin" "$D/existing_child_worker_spin.c" -lurcu-cds -lurcu-memb $L || exit 2

echo "== qsbr: online forking thread vs helper in a grace period"
timeout 20 "$D/ex_qsbr"; echo "   exit $?"
echo "== qsbr control (forking thread offline)"
timeout 20 "$D/ex_qsbr_ctl"; echo "   exit $?"
echo "== memb: call_rcu_data_free() from another thread vs fork"
timeout 20 "$D/ex_free"; echo "   exit $?"
echo "== memb control (free completed before the fork)"
timeout 20 "$D/ex_free_ctl"; echo "   exit $?"
echo "== memb+rculfhash: child resize worker CPU usage"
timeout 20 "$D/ex_spin"; echo "   exit $?"
rm -f "$D/ex_qsbr" "$D/ex_qsbr_ctl" "$D/ex_free" "$D/ex_free_ctl" "$D/ex_spin"
exit 0
