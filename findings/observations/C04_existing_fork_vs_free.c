/*
 * Observation on the UNCHANGED tree (not the seeded change):
 * call_rcu_before_fork() can wait forever, holding call_rcu_mutex, for the
 * PAUSED flag of a helper that has already honoured URCU_CALL_RCU_STOP and
 * exited (call_rcu_data_free() sets STOP without the mutex and only takes
 * the mutex -- to unlink the helper -- after the helper has stopped).
 * Every later rcu_barrier()/create_call_rcu_data()/... then blocks on
 * call_rcu_mutex.
 *
 * exit 0: no hang seen in N iterations; exit 1: hang detected.
 */
#include <stdio.h>
#include <stdlib.h>
#include <unistd.h>
#include <signal.h>
#include <pthread.h>
#include <sys/types.h>
#include <sys/wait.h>

#include <urcu.h>

static volatile int stop;
static volatile unsigned long forks, frees;

static void on_alarm(int sig)
{
	static const char msg[] =
		"HANG: no progress for 10 s (call_rcu_before_fork() stuck waiting for PAUSED "
		"of a stopped helper while holding call_rcu_mutex)\n";
	(void) sig;
	if (write(1, msg, sizeof(msg) - 1) < 0)
		_exit(3);
	_exit(1);
}

static void *churn(void *arg)
{
	(void) arg;
	while (!stop) {
		struct call_rcu_data *c = create_call_rcu_data(0, -1);

		call_rcu_data_free(c);
		frees++;
	}
	return NULL;
}

int main(void)
{
	pthread_t t;
	int i;

	setvbuf(stdout, NULL, _IONBF, 0);
	signal(SIGALRM, on_alarm);
	pthread_create(&t, NULL, churn, NULL);

	for (i = 0; i < 3000; i++) {
		pid_t pid;

		alarm(10);
		call_rcu_before_fork();
		pid = fork();
		if (pid == 0)
			_exit(0);
		call_rcu_after_fork_parent();
		if (pid > 0)
			waitpid(pid, NULL, 0);
		forks++;
	}
	alarm(10);
	stop = 1;
	pthread_join(t, NULL);
	printf("no hang in %lu forks / %lu helper create+free cycles\n", forks, frees);
	return 0;
}
