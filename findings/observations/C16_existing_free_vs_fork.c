/*
 * Observation on the UNCHANGED tree (not the seed).
 *
 * memb flavor.  An unregistered application thread retires a call_rcu helper
 * with call_rcu_data_free() while that helper is busy in a (slow) callback;
 * meanwhile the only registered thread forks with the documented handlers.
 *
 * call_rcu_data_free() sets STOP and polls for STOPPED *without* holding
 * call_rcu_mutex, and only takes the mutex afterwards to unlink the
 * call_rcu_data from call_rcu_data_list.  call_rcu_before_fork() (mutex held)
 * therefore still finds the dying helper on the list, sets PAUSE on it and
 * waits for PAUSED; the helper, once its callback returns, honours STOP,
 * sets STOPPED and exits without ever setting PAUSED.  The forking thread
 * spins forever in call_rcu_before_fork() and the freeing thread blocks
 * forever on call_rcu_mutex.
 */
#include <stdio.h>
#include <stdlib.h>
#include <unistd.h>
#include <signal.h>
#include <pthread.h>
#include <time.h>
#include <sys/wait.h>
#include <urcu/urcu-memb.h>

static void msleep(int ms)
{
	struct timespec ts = { ms / 1000, (ms % 1000) * 1000000L };

	nanosleep(&ts, NULL);
}

static void slow_cb(struct rcu_head *h)
{
	msleep(400);
	free(h);
}

static void *freer(void *arg)
{
	urcu_memb_call_rcu_data_free(arg);
	return NULL;
}

static void on_alarm(int sig)
{
	static const char msg[] =
		"HANG: urcu_memb_call_rcu_before_fork() did not return within 5 s "
		"(helper being freed concurrently never reports PAUSED)\n";

	(void) sig;
	if (write(1, msg, sizeof(msg) - 1) < 0)
		_exit(2);
	_exit(1);
}

int main(void)
{
	struct call_rcu_data *crdp;
	struct rcu_head *h = calloc(1, sizeof(*h));
	pthread_t tid;
	pid_t pid;

	signal(SIGALRM, on_alarm);
	urcu_memb_register_thread();

	crdp = urcu_memb_create_call_rcu_data(0, -1);
	urcu_memb_set_thread_call_rcu_data(crdp);
	urcu_memb_call_rcu(h, slow_cb);
	urcu_memb_set_thread_call_rcu_data(NULL);
	urcu_memb_synchronize_rcu();
	msleep(100);			/* helper is now inside slow_cb() */

	pthread_create(&tid, NULL, freer, crdp);	/* unregistered thread */
	msleep(100);			/* STOP is set, helper still busy */
#ifdef JOIN_FIRST	/* control: passes when the free completes before the fork */
	pthread_join(tid, NULL);
#endif

	alarm(5);
	urcu_memb_call_rcu_before_fork();
	pid = fork();
	if (pid == 0) {
		urcu_memb_call_rcu_after_fork_child();
		_exit(0);
	}
	urcu_memb_call_rcu_after_fork_parent();
	alarm(0);
	waitpid(pid, NULL, 0);
#ifndef JOIN_FIRST
	pthread_join(tid, NULL);
#endif
	urcu_memb_barrier();
	urcu_memb_unregister_thread();
	printf("ok: fork completed\n");
	return 0;
}
