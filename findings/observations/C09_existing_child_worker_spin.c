/* Observation on the UNCHANGED tree: after the documented fork protocol the
 * re-created rculfhash worker of the child busy-spins (workqueue->futex is
 * inherited as -1 and decremented to -2, so futex_wait() never sleeps).
 * Not a C09 violation (work is still processed), CPU burn only.
 * Prints the child's CPU time consumed over 1 s of idling. */
#define _GNU_SOURCE
#include <stdio.h>
#include <stdlib.h>
#include <unistd.h>
#include <time.h>
#include <sys/wait.h>
#include <urcu/urcu-memb.h>
#include <urcu/rculfhash.h>
int main(void)
{
	struct cds_lfht *ht;
	struct timespec ts;
	pid_t pid;
	int st;

	urcu_memb_register_thread();
	ht = cds_lfht_new_flavor(1, 1, 0, CDS_LFHT_AUTO_RESIZE, &urcu_memb_flavor, NULL);
	(void) ht;
	usleep(100000);
	urcu_memb_call_rcu_before_fork();
	pid = fork();
	if (!pid) {
		urcu_memb_call_rcu_after_fork_child();
		sleep(1);
		clock_gettime(CLOCK_PROCESS_CPUTIME_ID, &ts);
		printf("child CPU time while idle for 1s: %ld.%03lds\n", (long) ts.tv_sec, ts.tv_nsec / 1000000);
		fflush(stdout);
		_exit(ts.tv_nsec > 500000000L || ts.tv_sec ? 1 : 0);
	}
	urcu_memb_call_rcu_after_fork_parent();
	waitpid(pid, &st, 0);
	return WEXITSTATUS(st);
}
