/*
 * Observation on the UNCHANGED tree (performance only, the property still holds):
 * after fork, the re-created rculfhash resize worker in the child busy-loops.
 * urcu_workqueue_create_worker() re-uses the inherited struct urcu_workqueue whose
 * futex word is still -1 (the parent's worker was parked with the futex armed);
 * the new worker's start-up uatomic_dec() makes it -2, futex_wait() only sleeps
 * while the word is exactly -1, so the worker spins at 100% CPU (decrementing the
 * word each turn) instead of sleeping.
 */
#include <stdio.h>
#include <stdlib.h>
#include <unistd.h>
#include <time.h>
#include <sys/wait.h>
#include <urcu/urcu-memb.h>
#include <urcu/rculfhash.h>

static double cpu_s(void)
{
	struct timespec ts;
	clock_gettime(CLOCK_PROCESS_CPUTIME_ID, &ts);
	return ts.tv_sec + ts.tv_nsec / 1e9;
}

int main(void)
{
	struct cds_lfht *ht;
	pid_t pid;
	int st;

	urcu_memb_register_thread();
	ht = cds_lfht_new_flavor(1, 1, 0, CDS_LFHT_AUTO_RESIZE, &urcu_memb_flavor, NULL);
	if (!ht) abort();
	urcu_memb_call_rcu_before_fork();
	pid = fork();
	if (pid == 0) {
		double t0;
		urcu_memb_call_rcu_after_fork_child();
		t0 = cpu_s();
		sleep(1);
		t0 = cpu_s() - t0;
		printf("child: %.2f s of CPU burnt during 1 s of idling%s\n", t0,
			t0 > 0.5 ? "  (resize worker is spinning)" : "");
		fflush(stdout);
		_exit(t0 > 0.5);
	}
	urcu_memb_call_rcu_after_fork_parent();
	waitpid(pid, &st, 0);
	{
		double t0 = cpu_s();
		sleep(1);
		printf("parent: %.2f s of CPU during 1 s of idling\n", cpu_s() - t0);
	}
	return WEXITSTATUS(st);
}
