/*
 * Observation on the UNCHANGED tree (not the seed): urcu_bp_unregister()
 * (bp thread-exit notifier) restores the signal mask and only then calls
 * urcu_bp_exit(), which takes init_lock.  A signal delivered to the exiting
 * thread while it holds init_lock, whose handler performs an RCU read
 * (allowed for bp), finds the thread unregistered, re-enters
 * urcu_bp_register() -> _urcu_bp_init() -> mutex_lock(&init_lock) and
 * self-deadlocks.  The window is a few instructions wide; this reproducer
 * widens it by interposing pthread_mutex_lock() in the executable and
 * raising the signal right after the exiting thread's 2nd lock acquisition
 * (1st = rcu_registry_lock, 2nd = init_lock).
 *
 * build: gcc -O2 -rdynamic -I$W/include existing_defect_sig_exit.c \
 *        -L$W/src/.libs -lurcu-bp -lpthread -ldl -Wl,-rpath,$W/src/.libs
 * exit 0 = thread exited normally, 1 = exiting thread deadlocked.
 */
#define _GNU_SOURCE
#include <dlfcn.h>
#include <pthread.h>
#include <signal.h>
#include <stdio.h>
#include <stdlib.h>
#include <time.h>
#include <unistd.h>
#include <urcu/urcu-bp.h>

static __thread int exiting, nlocks;
static int (*real_lock)(pthread_mutex_t *);

int pthread_mutex_lock(pthread_mutex_t *m)
{
	int ret;

	if (!real_lock)
		real_lock = (int (*)(pthread_mutex_t *)) dlsym(RTLD_NEXT, "pthread_mutex_lock");
	ret = real_lock(m);
	if (exiting && ++nlocks == 2 && !getenv("NO_SIGNAL"))
		raise(SIGUSR1);
	return ret;
}

static void handler(int sig)
{
	(void) sig;
	urcu_bp_read_lock();
	urcu_bp_read_unlock();
}

static void *thr(void *arg)
{
	(void) arg;
	urcu_bp_read_lock();
	urcu_bp_read_unlock();
	exiting = 1;
	return NULL;
}

int main(void)
{
	struct sigaction sa = { .sa_handler = handler };
	struct timespec ts;
	pthread_t t;

	setvbuf(stdout, NULL, _IONBF, 0);
	sigaction(SIGUSR1, &sa, NULL);
	pthread_create(&t, NULL, thr, NULL);
	clock_gettime(CLOCK_REALTIME, &ts);
	ts.tv_sec += 3;
	if (pthread_timedjoin_np(t, NULL, &ts)) {
		printf("DEFECT: exiting bp thread deadlocked: signal handler doing "
			"urcu_bp_read_lock() re-registered while urcu_bp_exit() held init_lock\n");
		_exit(1);
	}
	printf("thread exited normally\n");
	return 0;
}
