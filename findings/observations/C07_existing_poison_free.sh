#!/bin/sh
# Reproducer for an EXISTING defect (unchanged tree), non-default build option
# -DPOISON_FREE: poison_free(ht->alloc, ht) expands its first macro argument
# after memset(ht, 0x42, sizeof(*ht)), so ht->alloc is read from poisoned
# memory (0x4242424242424242) and the teardown crashes.
# Builds rculfhash + workqueue privately with -DPOISON_FREE and runs demo.c.
# Expected: exit 2 ("unexpected signal 11 at (nil)", general-protection fault
# in do_auto_resize_destroy_cb at the poison_free(ht->alloc, ht) line).
W=$(cd "$(dirname "$0")/.." && pwd)
D=$(cd "$(dirname "$0")" && pwd)
B=$(mktemp -d "${TMPDIR:-/tmp}/c07pf.XXXXXX") || exit 2
trap 'rm -rf "$B"' EXIT
gcc -O0 -g -w -DPOISON_FREE -DHAVE_CONFIG_H -I"$W/include" -include config.h \
	-include string.h -I"$W/src" -pthread -o "$B/demo_pf" "$D/demo.c" \
	"$W/src/rculfhash.c" "$W/src/rculfhash-mm-order.c" \
	"$W/src/rculfhash-mm-chunk.c" "$W/src/rculfhash-mm-mmap.c" \
	"$W/src/workqueue.c" \
	-L"$W/src/.libs" -Wl,-rpath,"$W/src/.libs" -lurcu-memb -lurcu-common || exit 2
timeout 50 "$B/demo_pf"
echo "exit status: $?"
