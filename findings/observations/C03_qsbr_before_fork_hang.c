/*
 * Observation on the UNCHANGED tree (not the seed): with the QSBR flavor,
 * call_rcu_before_fork() called from a registered, online thread while a
 * helper has callbacks to process never returns: the helper sits in
 * synchronize_rcu() waiting for the caller's quiescent state, the caller
 * polls for URCU_CALL_RCU_PAUSED. rcu_barrier() avoids the same situation by
 * going offline itself; call_rcu_before_fork() does not.
 *
 * gcc -I$W/include -o t qsbr_before_fork_hang.c -L$W/src/.libs -Wl,-rpath,$W/src/.libs -lurcu-qsbr
 * timeout 10 ./t ; echo $?      # 124 = hang
 */
#include <stdio.h>
#include <unistd.h>
#include <urcu-qsbr.h>

static struct rcu_head h;
static void cb(struct rcu_head *head) { (void) head; }

int main(void)
{
	rcu_register_thread();
	call_rcu(&h, cb);		/* helper enters synchronize_rcu() */
	usleep(100000);
	call_rcu_before_fork();		/* caller still online */
	printf("before_fork returned\n");
	call_rcu_after_fork_parent();
	rcu_barrier();
	rcu_unregister_thread();
	return 0;
}
