/* Replay of the C13 finding: re-registering a defer_rcu user after the reclaimer thread ran
 * rcu_defer_barrier() aborts on `Assertion (defer_queue).last_head == 0` (unfixed tree). */
#include <stdio.h>
#include <stdlib.h>
#include <unistd.h>
#include <urcu/urcu-memb.h>
static void cb(void *p) { (void)p; }
int main(void)
{
	urcu_memb_register_thread();
	if (urcu_memb_defer_register_thread()) return 2;
	urcu_memb_defer_rcu(cb, (void *)0x10);
	usleep(400000);	/* reclaimer wakes up, runs rcu_defer_barrier(): last_head != 0 */
	urcu_memb_defer_unregister_thread();
	if (urcu_memb_defer_register_thread()) return 2;	/* aborts on the unfixed tree */
	urcu_memb_defer_unregister_thread();
	urcu_memb_unregister_thread();
	printf("re-registration ok\n");
	return 0;
}
