/* Replay of the C20 finding (unfixed tree, /repo before 0fd784d): the x86 helpers __uatomic_and/or/add/inc/dec declared *addr as a
 * write-only asm output ("=m").  gcc -O1 and above then deletes a plain store that precedes the operation in the same optimisation
 * scope, and the locked instruction operates on the stale bytes:
 *     gcc -O2 -I/repo/include findings/c20_rmw_dead_store.c -o /tmp/t && /tmp/t
 * unfixed: inc/add/or/and/dec lines + "bad=5", exit 1 (gcc 12.2; clang and -O0 are unaffected);  fixed: "bad=0", exit 0. */
#include <stdio.h>
#include <stdlib.h>
#include <string.h>
#include <urcu/uatomic.h>
struct o { long ref; int r4; short r2; unsigned char r1; };
__attribute__((noinline)) struct o *mk(void){ struct o *p = malloc(sizeof *p); memset(p, 0x5a, sizeof *p); return p; }
__attribute__((noinline)) void use(struct o *p){ __asm__ __volatile__("" :: "r"(p)); }
int main(void){
	int bad = 0;
	struct o *p = mk();
	p->ref = 5; uatomic_inc(&p->ref);
	if (p->ref != 6) { printf("inc: ref=%lx expected 6\n", p->ref); bad++; }
	p = mk();
	p->ref = 5; uatomic_add(&p->ref, 10);
	if (p->ref != 15) { printf("add: ref=%lx expected 15\n", p->ref); bad++; }
	p = mk();
	p->r4 = 0xf0; uatomic_or(&p->r4, 1);
	if (p->r4 != 0xf1) { printf("or: r4=%x expected f1\n", p->r4); bad++; }
	p = mk();
	p->r4 = 0xff; uatomic_and(&p->r4, 0xf);
	if (p->r4 != 0xf) { printf("and: r4=%x expected f\n", p->r4); bad++; }
	p = mk();
	p->ref = 5; uatomic_dec(&p->ref);
	if (p->ref != 4) { printf("dec: ref=%lx expected 4\n", p->ref); bad++; }
	p = mk();
	p->ref = 5; long r = uatomic_add_return(&p->ref, 1);
	if (r != 6) { printf("add_return: %lx expected 6\n", r); bad++; }
	p = mk();
	p->ref = 5; r = uatomic_xchg(&p->ref, 1);
	if (r != 5) { printf("xchg: %lx expected 5\n", r); bad++; }
	p = mk();
	p->ref = 5; r = uatomic_cmpxchg(&p->ref, 5, 1);
	if (r != 5) { printf("cmpxchg: %lx expected 5\n", r); bad++; }
	printf("bad=%d\n", bad);
	return bad != 0;
}
