/* Replay of the same C09 finding, site 2: the resize worker (do_resize_cb) registers with the flavor and then blocks on resize_mutex while
 * online; the explicit shrink that owns the mutex waits for it in synchronize_rcu().
 *   gcc -O2 -pthread -I/repo/include findings/c09_qsbr_resize_worker.c -L/repo/src/.libs -Wl,-rpath,/repo/src/.libs -lurcu-cds -lurcu-qsbr -lurcu-common
 * unfixed (before ac4b599): "HANG: ..." exit 3 (3/3 runs); fixed: "cds_lfht_resize(ht, 1) returned", exit 0. */
/* second site: the resize worker (do_resize_cb) registers with the flavor and then blocks on resize_mutex while online */
#define _GNU_SOURCE
#include <stdio.h>
#include <stdlib.h>
#include <unistd.h>
#include <signal.h>
#include <pthread.h>
#include <urcu/urcu-qsbr.h>
#include <urcu/rculfhash.h>

#define NR	(1UL << 16)
struct mynode { struct cds_lfht_node node; };
static struct mynode *nodes, *extra;
static struct cds_lfht *ht;
static volatile int stop;

static void on_alarm(int sig)
{
	static const char m[] = "HANG: cds_lfht_resize(ht, 1) did not return within 20 s (resize worker on-line on resize_mutex vs explicit shrink in synchronize_rcu)\n";
	ssize_t r = write(2, m, sizeof(m) - 1);
	(void) r; (void) sig;
	_exit(3);
}

/* a registered reader that announces a quiescent state every 50 ms: each grace period of the shrink takes that long */
static void *slow_reader(void *arg)
{
	(void) arg;
	urcu_qsbr_register_thread();
	while (!stop) {
		usleep(50000);
		urcu_qsbr_quiescent_state();
	}
	urcu_qsbr_unregister_thread();
	return NULL;
}

int main(void)
{
	pthread_t t;
	unsigned long k;

	nodes = calloc(NR, sizeof(*nodes));
	extra = calloc(NR, sizeof(*extra));
	urcu_qsbr_register_thread();
	ht = cds_lfht_new_flavor(1024, 1, 0, CDS_LFHT_AUTO_RESIZE, &urcu_qsbr_flavor, NULL);
	(void) k;
	pthread_create(&t, NULL, slow_reader, NULL);
	signal(SIGALRM, on_alarm);
	alarm(20);
	/* a long chain (same hash) queues a lazy grow: the work item is pending when the explicit shrink takes the mutex */
	for (k = 0; k < 8; k++) {
		urcu_qsbr_read_lock();
		cds_lfht_add(ht, 42 + (k << 10), &extra[k].node);	/* distinct hashes, one bucket */
		urcu_qsbr_read_unlock();
	}
	cds_lfht_resize(ht, 1);		/* explicit shrink: holds resize_mutex across one grace period per order */
	alarm(0);
	stop = 1;
	urcu_qsbr_thread_offline();
	pthread_join(t, NULL);
	urcu_qsbr_thread_online();
	printf("cds_lfht_resize(ht, 1) returned\n");
	return 0;
}
