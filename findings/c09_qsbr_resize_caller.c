/* Replay of the C09 finding "QSBR threads wait online for resize_mutex" (unfixed tree: /repo before ac4b599), site 1: cds_lfht_resize() called by an
 * online urcu-qsbr thread while the worker runs a lazy shrink.  Build line below; unfixed: "HANG: ..." exit 3 (3/3 runs); fixed: returns, exit 0. */
/*
 * Observation on the UNCHANGED tree (not the seed):
 * cds_lfht_resize() called by an on-line QSBR thread blocks on
 * ht->resize_mutex without going off-line. If the mutex is held by the
 * work-queue thread running a lazy shrink, that thread sits in
 * fini_table() -> synchronize_rcu() waiting for the caller to pass through
 * a quiescent state, which it never does while blocked on the mutex:
 * cds_lfht_resize() never returns.
 *
 * Build: gcc -O2 -pthread -I$W/include -o q existing_qsbr_resize_deadlock.c \
 *        -L$W/src/.libs -Wl,-rpath,$W/src/.libs -lurcu-cds -lurcu-qsbr -lurcu-common
 * Run:   timeout 60 ./q   (exit 0 = resize returned, exit 3 = hung)
 */
#define _GNU_SOURCE
#include <stdio.h>
#include <stdlib.h>
#include <unistd.h>
#include <signal.h>
#include <time.h>
#include <errno.h>

#include <urcu/urcu-qsbr.h>
#include <urcu/rculfhash.h>

#define NR	(1UL << 18)

struct mynode { struct cds_lfht_node node; unsigned long key; };
static struct mynode *nodes;

static void on_alarm(int sig)
{
	static const char m[] = "HANG: cds_lfht_resize() did not return within 15 s (QSBR caller on-line on resize_mutex vs lazy shrink in synchronize_rcu)\n";
	ssize_t r = write(2, m, sizeof(m) - 1);
	(void) r; (void) sig;
	_exit(3);
}

static void msleep(unsigned ms)
{
	struct timespec ts = { ms / 1000, (ms % 1000) * 1000000L };
	while (nanosleep(&ts, &ts) && errno == EINTR) ;
}

int main(void)
{
	struct cds_lfht *ht;
	unsigned long k;
	long before, after; unsigned long cnt;

	nodes = calloc(NR, sizeof(*nodes));
	urcu_qsbr_register_thread();
	ht = cds_lfht_new_flavor(1, 1, 0, CDS_LFHT_AUTO_RESIZE | CDS_LFHT_ACCOUNTING,
			&urcu_qsbr_flavor, NULL);
	for (k = 0; k < NR; k++) {
		nodes[k].key = k;
		urcu_qsbr_read_lock();
		cds_lfht_add(ht, k * 0x9E3779B97F4A7C15UL, &nodes[k].node);
		urcu_qsbr_read_unlock();
		if (!(k & 1023))
			urcu_qsbr_quiescent_state();
	}
	/* let the lazy grows settle */
	for (k = 0; k < 20; k++) { urcu_qsbr_quiescent_state(); msleep(50); }

	/* Delete 3/4 of the nodes without announcing a quiescent state:
	 * the node counter crosses powers of two and queues a lazy shrink,
	 * which then waits for us in synchronize_rcu() holding resize_mutex. */
	for (k = 0; k < NR - NR / 4; k++) {
		urcu_qsbr_read_lock();
		cds_lfht_del(ht, &nodes[k].node);
		urcu_qsbr_read_unlock();
	}
	msleep(300);	/* worker is now inside fini_table() */

	signal(SIGALRM, on_alarm);
	alarm(15);
	cds_lfht_resize(ht, NR);	/* still on-line, never read-side locked */
	alarm(0);
	urcu_qsbr_read_lock();
	cds_lfht_count_nodes(ht, &before, &cnt, &after);
	urcu_qsbr_read_unlock();
	printf("cds_lfht_resize() returned, %lu nodes\n", cnt);
	return 0;
}
