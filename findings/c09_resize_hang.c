/* Replay of the C09 finding: cds_lfht_resize(ht, n) never returns for a non-power-of-two n
 * below max_nr_buckets (unfixed tree).  Build: see run line below. */
#define _LGPL_SOURCE
#include <stdio.h>
#include <stdlib.h>
#include <unistd.h>
#include <signal.h>
#include <urcu/urcu-memb.h>
#include <urcu/rculfhash.h>
static void on_alarm(int s) { (void)s; static const char m[] = "HANG: cds_lfht_resize did not return\n"; write(1, m, sizeof m - 1); _exit(1); }
int main(int argc, char **argv)
{
	unsigned long n = argc > 1 ? strtoul(argv[1], NULL, 0) : 3;
	struct cds_lfht *ht;
	urcu_memb_register_thread();
	ht = cds_lfht_new_flavor(1, 1, 1024, 0, &urcu_memb_flavor, NULL);
	signal(SIGALRM, on_alarm);
	alarm(3);
	cds_lfht_resize(ht, n);
	alarm(0);
	printf("resize(%lu) returned\n", n);
	return 0;
}
