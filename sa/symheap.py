"""Symbolic post-state of small pointer-surgery functions (list primitives).  Each acyclic path is walked in
program order with a store map {location: value}; a load of a location the path already stored to yields the stored
value (store forwarding), any other load yields the pre-state symbol pre(<location>).  Locations and values are terms
over the arguments and pre-state symbols; distinct terms are treated as distinct locations (the generic, non-aliased
case - the same convention the expected tables use).  Nothing is executed."""
from . import ir, paths
from .core import Broken


def _field(step):
    return step.split(".")[-1]


class Walk:
    def __init__(self, f, path):
        self.f = f
        self.path = path
        self.env = {}
        self.mem = {}
        self.order = []

    def sym(self, v):
        f = self.f
        v = ir.strip_casts(f, v, int_too=True)
        k = v[0]
        if k == "c":
            return str(v[1])
        if k == "null":
            return "0"
        if k == "a":
            return "arg%d" % v[1]
        if k == "g":
            return "@" + v[1]
        if k != "i":
            return "?"
        i = f.insts[v[1]]
        if i.id in self.env:
            return self.env[i.id]
        if i.op == "phi":
            if i.blk.id in self.path:
                kx = self.path.index(i.blk.id)
                if kx > 0:
                    for val, blk in i.d["inc"]:
                        if blk == self.path[kx - 1]:
                            return self.sym(val)
            return "phi#%d" % i.id
        if i.op == "gep" or (i.op == "cast" and "ap" in i.d):
            return self.loc(i.d["ap"])
        return "?%s#%d" % (i.op, i.id)

    def loc(self, ap):
        base = self.sym(ap["base"])
        steps = [_field(s) for s in ap["steps"] if not s.endswith("]")]
        # a field at offset 0 of an embedded struct keeps the container's name
        return ".".join([base] + steps) if steps else base

    def run(self):
        f = self.f
        for b in self.path:
            for i in f.blocks[b].insts:
                if i.op == "load":
                    l = self.loc(i.d["ap"])
                    self.env[i.id] = self.mem.get(l, "pre(%s)" % l)
                elif i.op == "store":
                    l = self.loc(i.d["ap"])
                    self.mem[l] = self.sym(i.args[0])
                    self.order.append((l, i))
                elif i.op in ("rmw", "cmpxchg") or (i.op == "call" and not i.callee.startswith("llvm.") and not i.d.get("noreturn")):
                    raise Broken("%s: %s at %s: not plain pointer surgery" % (f.name, i.op, i.where()))
        return self.mem


def post_states(f, limit=16):
    out = []
    for p in paths.enum_paths(f, 0, limit=limit):
        w = Walk(f, p)
        mem = w.run()
        out.append((p, mem, w.order))
    if not out:
        raise Broken("%s: no returning path" % f.name)
    return out
