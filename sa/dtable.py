"""T15 DECISION-TABLE: small pure decision code whose outcome depends on a few loaded words only through
(in)equality comparisons with constants / arguments.  The loaded words are abstracted to the finite set of classes
the code can distinguish (each constant or argument a load is compared with, plus OTHER); for every assignment of
classes to the load instructions the feasible return cases (paths.ret_cases) are collected and compared with an
expected table.  Every distinct load *instruction* is its own variable: two loads of the same location may observe
different values when another thread writes in between.  Nothing is executed: atoms are evaluated over classes."""
import itertools

from . import ir, paths
from .core import Broken

OTHER = "OTHER"


def _loads_in(e, out):
    if not isinstance(e, tuple):
        return
    if e and e[0] == "load":
        out[e[3]] = e
        return
    if e and e[0] in ("asm", "rmw") and isinstance(e[-1], int):
        out[e[-1]] = e      # value returned by an atomic exchange / RMW: a variable like a load
        return
    if e and e[0] == "cmpxchg":
        out[e[2]] = e
        return
    for x in e[1:]:
        if isinstance(x, tuple):
            _loads_in(x, out)


def _key(v):
    """comparable class of a value expression that is not a load"""
    if v[0] == "c":
        return ("c", v[1])
    if v[0] in ("arg", "addr", "fn"):
        return v
    return None


def _collect_domains(atoms_list):
    dom = {}

    def visit(e):
        if not isinstance(e, tuple) or not e:
            return
        if e[0] in ("eq", "ne", "icmp"):
            a, b = (e[1], e[2]) if e[0] != "icmp" else (e[2], e[3])
            for x, y in ((a, b), (b, a)):
                lx = {}
                _loads_in(x, lx)
                k = _key(y)
                if k is not None:
                    for lid in lx:
                        dom.setdefault(lid, set()).add(k)
                    if x[0] == "arg" and k[0] == "c":
                        dom.setdefault(("arg", x[1]), set()).add(k)
                # select arms contribute constants too
        for x in e[1:]:
            if isinstance(x, tuple):
                visit(x)
    for atoms in atoms_list:
        for a in atoms:
            visit(a)
    return dom


def ev(e, env):
    """value class of expression e under env {load id: class}; None = unknown"""
    k = e[0]
    if k == "c":
        return ("c", e[1])
    if k == "arg" and e in env:
        return env[e]
    if k in ("arg", "addr", "fn"):
        return e
    if k == "load":
        return env.get(e[3])
    if k in ("asm", "rmw"):
        return env.get(e[-1])
    if k == "cmpxchg":
        return env.get(e[2])
    if k == "phi":
        return env.get(("phi", e[1]))
    if k == "bin" and e[1] == "and" and e[3][0] == "c":
        v = ev(e[2], env)
        if v is None:
            return None
        if v[0] == "c":
            return ("c", v[1] & e[3][1])
        if _is_other(v) and 0 <= e[3][1] < 8 and env.get("__aligned__"):
            return ("c", 0)          # OTHER stands for the address of a node: at least 8-byte aligned
        return None
    if k == "bin" and e[1] == "xor" and e[3] == ("c", -1):
        v = ev(e[2], env)
        if v in (("c", 0), ("c", 1)):
            return ("c", 1 - v[1])
        return None
    if k == "select":
        c = truth(e[1], env)
        if c is None:
            return None
        return ev(e[2] if c else e[3], env)
    if k == "icmp":
        t = _cmp(e[1], ev(e[2], env), ev(e[3], env), bool(env.get("__aligned__")))
        return None if t is None else ("c", 1 if t else 0)
    return None


def _is_other(x):
    return isinstance(x, tuple) and len(x) == 2 and x[0] == OTHER


_ORD = {"ult": (False, lambda x, y: x < y), "ule": (False, lambda x, y: x <= y), "ugt": (False, lambda x, y: x > y), "uge": (False, lambda x, y: x >= y),
        "slt": (True, lambda x, y: x < y), "sle": (True, lambda x, y: x <= y), "sgt": (True, lambda x, y: x > y), "sge": (True, lambda x, y: x >= y)}
_M64 = (1 << 64) - 1


def _ordval(v, signed, aligned):
    """numeric stand-in for an ordering comparison: constants are themselves; OTHER - in aligned mode the address of a node - is some value in
    [4096, 2^47): user-space addresses of this configuration (x86-64 Linux) are positive as signed longs and above the first page.  Only
    comparisons against constants outside that interval are decided; anything else stays unknown."""
    if v is None:
        return None
    if v[0] == "c":
        x = int(v[1]) & _M64
        if signed and x >> 63:
            x -= 1 << 64
        return ("k", x)
    if _is_other(v) and aligned:
        return ("addr",)
    return None


def _cmp(pred, a, b, aligned=False):
    if pred in _ORD and a is not None and b is not None:
        signed, op = _ORD[pred]
        x, y = _ordval(a, signed, aligned), _ordval(b, signed, aligned)
        if x is None or y is None:
            return None
        if x[0] == "k" and y[0] == "k":
            return op(x[1], y[1])
        lo, hi = 4096, (1 << 47) - 1
        if x[0] == "addr" and y[0] == "k":
            if y[1] < lo:
                return op(lo, y[1]) if op(lo, y[1]) == op(hi, y[1]) else None
            if y[1] > hi:
                return op(lo, y[1]) if op(lo, y[1]) == op(hi, y[1]) else None
            return None
        if x[0] == "k" and y[0] == "addr":
            if x[1] < lo or x[1] > hi:
                return op(x[1], lo) if op(x[1], lo) == op(x[1], hi) else None
            return None
        return None
    if a is None or b is None or pred not in ("eq", "ne"):
        return None
    if _is_other(a) and _is_other(b):
        if a != b:
            return None          # two different loads, both outside the named classes: unrelated
        same = True
    elif _is_other(a) or _is_other(b):
        same = False             # OTHER differs from every class the load is ever compared with
    else:
        same = (a == b)
    return same if pred == "eq" else (not same)


def truth(a, env):
    """truth of an atom / i1 expression under env; None = unknown"""
    k = a[0]
    if k in ("eq", "ne") or k in _ORD:
        return _cmp(k, ev(a[1], env), ev(a[2], env), bool(env.get("__aligned__")))
    if k == "icmp":
        return _cmp(a[1], ev(a[2], env), ev(a[3], env), bool(env.get("__aligned__")))
    if k == "c":
        return a[1] != 0
    v = ev(a, env)
    if v is None:
        return None
    return v != ("c", 0)


def table(f, extra=None, aligned=False):
    """-> (load ids in program order, {assignment tuple: sorted list of return classes}), where a return class is
    ('c', k), ('load', id), an addr/arg expression, or None for 'no value'"""
    cases = paths.ret_cases(f)
    if not cases:
        raise Broken("%s: no return case" % f.name)
    dom = _collect_domains([list(atoms) + ([v] if v is not None else []) for _p, atoms, v in cases])
    lids = sorted(dom, key=lambda l: (0, l[1]) if isinstance(l, tuple) else (1, l))
    if extra is not None:
        # refine with the constant classes of the specification (a function that no longer distinguishes a class the
        # specification distinguishes must still be evaluated on it)
        for l, ks in extra.items():
            if l in dom:
                for k in ks:
                    dom[l].add(("c", k))
    doms = [sorted(dom[l], key=str) + [(OTHER, l)] for l in lids]
    out = {}
    for asg in itertools.product(*doms):
        env = dict(zip(lids, asg))
        if aligned:
            env["__aligned__"] = True
        rets = set()
        for _p, atoms, v in cases:
            ok = True
            for a in atoms:
                t = truth(a, env)
                if t is None:
                    raise Broken("%s: cannot evaluate %s" % (f.name, ir.atom_str(a)))
                if not t:
                    ok = False
                    break
            if not ok:
                continue
            if v is None:
                rets.add(None)
            elif v[0] == "load":
                c = env.get(v[3])
                rets.add(c if c is not None and c[0] == "c" else ("load", v[3]))   # a word known to be the constant k *is* k
            elif v[0] in ("asm", "rmw") and isinstance(v[-1], int) and v[-1] in env:
                c = env.get(v[-1])
                rets.add(c if c[0] == "c" else ("load", v[-1]))
            else:
                r = ev(v, env)
                rets.add(r if r is not None else ("?", ir.expr_str(v)))
        out[asg] = sorted(rets, key=str)
    return lids, out


def normalized(f, extra=None, aligned=False):
    """{tuple of classes (args first, then loads in program order): frozenset of outcomes}; classes and outcomes are
    ints (constants), 'SELF' (an argument / address the word is compared with), 'X' (anything else); an outcome
    'V<k>' is the value of variable k itself, 'ADDR' an address computed from the arguments"""
    lids, t = table(f, extra, aligned)
    pos = {l: k for k, l in enumerate(lids)}

    def ncls(c):
        if _is_other(c):
            return "X"
        if c[0] == "c":
            return c[1]
        return "SELF"

    def nres(r):
        if r is None:
            return "void"
        if r[0] == "c":
            return r[1]
        if r[0] == "load":
            return "V%d" % pos[r[1]] if r[1] in pos else "LOAD"
        if r[0] in ("addr",):
            return "ADDR"
        if r[0] == "arg":
            return "ARG%d" % r[1]
        return str(r)
    # assertion guards: a variable for which exactly one class ever leads to a return only says "anything else aborts";
    # it is projected away so that compiling assertions in or out does not change the table
    keep = list(range(len(lids)))
    rows = dict(t)
    changed = True
    while changed:
        changed = False
        for col in list(keep):
            k = keep.index(col)
            live = set(asg[k] for asg, rets in rows.items() if rets)
            allc = set(asg[k] for asg in rows)
            if len(live) == 1 and len(allc) > 1:
                only = next(iter(live))
                rows = {asg[:k] + asg[k + 1:]: rets for asg, rets in rows.items() if asg[k] == only}
                keep.remove(col)
                changed = True
                break
    lids = [lids[c] for c in keep]
    pos = {l: k for k, l in enumerate(lids)}
    out = {}
    for asg, rets in rows.items():
        out[tuple(ncls(c) for c in asg)] = frozenset(nres(r) for r in rets)
    return lids, out


def compare(rep, rule, inst, f, expected, what, aligned=False):
    """expected: {class tuple: set of outcomes}.  Shape mismatch (different variables) => Broken (inconclusive)."""
    rep.touch(f)
    nvar = len(next(iter(expected)))
    lids0, _ = normalized(f, None, aligned)          # first pass: which variables survive the projection of assertion guards
    if len(lids0) != nvar:
        raise Broken("%s: %s has %d decision variables, specification has %d: table not comparable" % (inst, f.name, len(lids0), nvar))
    extra = {lids0[i]: sorted(set(k[i] for k in expected if isinstance(k[i], int))) for i in range(nvar)}
    lids, got = normalized(f, extra, aligned)
    if set(got) != set(expected):
        raise Broken("%s: decision variables of %s changed (%d cases, expected %d): table not comparable" % (inst, f.name, len(got), len(expected)))
    bad = [(k, got[k], frozenset(expected[k])) for k in sorted(got, key=str) if got[k] != frozenset(expected[k])]
    sites = [f.insts[l].where() for l in lids if not isinstance(l, tuple)][:3]
    if not bad:
        rep.ok(rule, inst, "%s: %d input classes decided as specified" % (what, len(got)), sites)
        return True
    k, g, e = bad[0]
    rep.bad(rule, inst, "%s: for input class %s the function yields %s, specified %s (%d of %d classes differ)" % (what, k, sorted(map(str, g)), sorted(map(str, e)), len(bad), len(got)), sites)
    return False
