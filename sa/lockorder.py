"""T6: whole-library lock-order graph, join-under-lock and sleep-under-lock rules.

Per linked library (flattened facts: internal functions are inlined into the exported roots and
thread bodies; exported functions stay calls) the analysis computes

* may-held lockset before every instruction (union at joins), with call summaries for functions that
  return holding / release a lock they did not take (fork brackets, the exported *_lock/_unlock API);
* acq*(f): every lock f may acquire, transitively through direct calls and through indirect calls
  whose function-pointer field is resolved from global initialisers (rcu_flavor_struct, urcu_atfork,
  cds_lfht_mm_type) or from the callback arguments handed to call_rcu / urcu_workqueue_queue_work;
* the *context* lockset of f: locks that may be held by some caller when f is entered (fixpoint).

Edges h -> m ("m acquired while h may be held") carry the site that produced them.  Locks are named by
the access path of the mutex argument, canonicalised to '@global' or 'struct.field' so that the graphs of
the flavor library and of liburcu-cds can be joined (cds calls the flavor through rcu_flavor_struct, the
flavor calls cds through urcu_atfork).
"""
from . import ir, lockset, mm

LOCK = "pthread_mutex_lock"
UNLOCK = "pthread_mutex_unlock"


def canon(n):
    if n is None or n == "?":
        return "?"
    if "." not in n:
        return n
    parts = n.replace(")", "").split(".")
    return ".".join(parts[-2:])


def lock_of(i):
    return canon(lockset.lock_name(i))


class LibGraph:
    def __init__(self, mods):
        """mods: {libname: ir.Module}; the analysis treats them as one program"""
        self.mods = mods
        self.fns = {}
        for ln, m in mods.items():
            for f in m.defined():
                # first definition wins (liburcu-common is linked into every flavor library)
                self.fns.setdefault(f.name, f)
        self.field_targets = {}
        self._collect_field_targets()
        self.thread_roots = {}
        self._collect_threads()
        self._summ = None
        self._held = {}
        self._acq = None
        self._ctx = None

    # ---- resolution of indirect calls ------------------------------------------------------
    def _collect_field_targets(self):
        ft = self.field_targets

        def walk(init):
            if not isinstance(init, list) or not init:
                return
            if init[0] == "struct":
                for fld, v in init[2]:
                    if isinstance(v, list) and v and v[0] == "f":
                        ft.setdefault(fld, set()).add(v[1])
                    else:
                        walk(v)
            elif init[0] in ("array",):
                for v in init[1:]:
                    if isinstance(v, list):
                        for x in v:
                            walk(x)
        for m in self.mods.values():
            for g in m.globals.values():
                walk(g.get("init"))
        # callbacks handed to call_rcu / the work queue inside the library
        for f in self.fns.values():
            for i in f.all_insts():
                if i.op != "call" or not i.callee:
                    continue
                if i.callee.endswith("_call_rcu") and len(i.args) >= 2 and i.args[1] and i.args[1][0] == "f":
                    ft.setdefault("rcu_head.func", set()).add(i.args[1][1])
                if i.callee == "urcu_workqueue_queue_work":
                    for a in i.args:
                        if a and a[0] == "f":
                            ft.setdefault("urcu_work.func", set()).add(a[1])
                if i.callee == "urcu_workqueue_create":
                    for a in i.args:
                        if a and a[0] == "f":
                            ft.setdefault("urcu_workqueue.*", set()).add(a[1])

    def icall_targets(self, i):
        e = ir.expr(i.fn, i.d["fp"], 4)
        if e and e[0] == "load":
            fld = ".".join(e[1].replace(")", "").split(".")[-2:])
            if fld in self.field_targets:
                return fld, sorted(self.field_targets[fld])
            if fld.startswith("urcu_workqueue."):
                return fld, sorted(self.field_targets.get("urcu_workqueue.*", ()))
            return fld, None
        return ir.expr_str(e), None

    def _collect_threads(self):
        for f in self.fns.values():
            for i in f.all_insts():
                if i.op == "call" and i.callee == "pthread_create" and i.args[2] and i.args[2][0] == "f":
                    tid = i.d["aps"][0]
                    key = canon(ir.ap_str(f, tid, 3)) if tid else "?"
                    self.thread_roots.setdefault(i.args[2][1], set()).add(key)

    # ---- summaries -------------------------------------------------------------------------
    def summaries(self):
        """{fn: (acquired-and-still-held at some return, released-but-never-taken)} iterated to a fixpoint"""
        if self._summ is not None:
            return self._summ
        summ = {}
        for _ in range(4):
            changed = False
            for name, f in self.fns.items():
                held = self._may(f, summ)
                acq = set()
                for r in f.rets():
                    acq |= set(held.get(r.id, ()))
                locked = set(lock_of(i) for i in f.all_insts() if i.op == "call" and i.callee == LOCK)
                unlocked = set(lock_of(i) for i in f.all_insts() if i.op == "call" and i.callee == UNLOCK)
                rel = unlocked - locked
                for i in f.all_insts():
                    if i.op == "call" and i.callee in summ:
                        rel |= set(summ[i.callee][1]) - locked
                new = (frozenset(acq), frozenset(rel))
                if (acq or rel) and summ.get(name) != new:
                    summ[name] = new
                    changed = True
            if not changed:
                break
        self._summ = summ
        return summ

    def _may(self, f, summ):
        inb = {b.id: None for b in f.blocks}
        inb[0] = frozenset()
        work = [0]
        outb = {}
        while work:
            b = work.pop()
            cur = set(inb[b])
            for i in f.blocks[b].insts:
                cur = self._tr(i, cur, summ)
            cur = frozenset(cur)
            if outb.get(b) == cur:
                continue
            outb[b] = cur
            for s in f.blocks[b].succ:
                new = cur if inb[s] is None else (inb[s] | cur)
                if inb[s] is None or new != inb[s]:
                    inb[s] = new
                    work.append(s)
        res = {}
        for b in f.blocks:
            if inb[b.id] is None:
                continue
            cur = set(inb[b.id])
            for i in b.insts:
                res[i.id] = frozenset(cur)
                cur = self._tr(i, cur, summ)
        return res

    @staticmethod
    def _tr(i, cur, summ):
        if i.op != "call":
            return cur
        c = i.callee
        if c == LOCK:
            return cur | {lock_of(i)}
        if c == UNLOCK:
            return cur - {lock_of(i)}
        if c in summ:
            return (cur | set(summ[c][0])) - set(summ[c][1])
        return cur

    def held(self, f):
        if f.name not in self._held:
            self._held[f.name] = self._may(f, self.summaries())
        return self._held[f.name]

    # ---- transitive acquisition --------------------------------------------------------------
    def callees(self, i):
        """defined functions an instruction may transfer control to (same thread)"""
        if i.op == "call" and i.callee in self.fns:
            return [i.callee]
        if i.op == "icall":
            _, t = self.icall_targets(i)
            return [x for x in (t or ()) if x in self.fns]
        return []

    def acq_trans(self):
        if self._acq is not None:
            return self._acq
        acq = {n: set(lock_of(i) for i in f.all_insts() if i.op == "call" and i.callee == LOCK) for n, f in self.fns.items()}
        cg = {n: set(c for i in f.all_insts() for c in self.callees(i)) for n, f in self.fns.items()}
        changed = True
        while changed:
            changed = False
            for n in acq:
                for c in cg[n]:
                    if not acq[c] <= acq[n]:
                        acq[n] |= acq[c]
                        changed = True
        self._acq = acq
        self.cg = cg
        return acq

    def context(self):
        """locks that may be held by a caller when the function is entered"""
        if self._ctx is not None:
            return self._ctx
        self.acq_trans()
        ctx = {n: set() for n in self.fns}
        changed = True
        while changed:
            changed = False
            for n, f in self.fns.items():
                h = self.held(f)
                for i in f.all_insts():
                    for c in self.callees(i):
                        new = set(h.get(i.id, ())) | ctx[n]
                        if not new <= ctx[c]:
                            ctx[c] |= new
                            changed = True
        self._ctx = ctx
        return ctx

    # ---- the graph -----------------------------------------------------------------------------
    def edges(self):
        """{(h, m): [site strings]}"""
        acq = self.acq_trans()
        ctx = self.context()
        E = {}
        for n, f in self.fns.items():
            h = self.held(f)
            for i in f.all_insts():
                if i.op == "call" and i.callee == LOCK:
                    got = {lock_of(i)}
                    via = ""
                else:
                    cs = self.callees(i)
                    if not cs:
                        continue
                    got = set()
                    for c in cs:
                        got |= acq[c]
                    via = " via " + ",".join(cs[:3])
                    if not got:
                        continue
                if i.id not in h:
                    continue
                for a in set(h[i.id]) | ctx[n]:
                    for m in got:
                        if a == m and via:
                            # re-acquisition through a callee while may-held: reported by the self-edge rule
                            pass
                        E.setdefault((a, m), []).append("%s%s" % (i.where(), via))
        return E

    def cycles(self, E):
        adj = {}
        for (a, b) in E:
            if a != b:
                adj.setdefault(a, set()).add(b)
        out = []
        color = {}

        def dfs(v, stack):
            color[v] = 1
            stack.append(v)
            for w in sorted(adj.get(v, ())):
                if color.get(w) == 1:
                    out.append(stack[stack.index(w):] + [w])
                elif w not in color:
                    dfs(w, stack)
            stack.pop()
            color[v] = 2
        for v in sorted(adj):
            if v not in color:
                dfs(v, [])
        return out

    # ---- join under lock -------------------------------------------------------------------------
    def joins(self):
        """[(join inst, may-held ∪ context, [(thread fn, its acq*)])]"""
        acq = self.acq_trans()
        ctx = self.context()
        out = []
        for n, f in self.fns.items():
            h = self.held(f)
            for i in f.all_insts():
                if i.op == "call" and i.callee == "pthread_join" and i.id in h:
                    e = ir.expr(f, i.args[0], 4)
                    key = canon(e[1]) if e and e[0] == "load" else ir.expr_str(e)
                    thr = [(t, acq.get(t, set())) for t, keys in self.thread_roots.items() if key in keys]
                    out.append((i, set(h[i.id]) | ctx[n], key, thr))
        return out

    # ---- futex sleeps and their wakers -------------------------------------------------------------
    def futex_sites(self):
        waits, wakes = [], []
        for n, f in self.fns.items():
            for i in f.all_insts():
                if mm.is_futex(i, mm.FUTEX_WAIT):
                    waits.append(i)
                elif mm.is_futex(i, mm.FUTEX_WAKE):
                    wakes.append(i)
        return waits, wakes

    def must_acquire_before(self, f, site):
        """locks l such that every entry->site path of f passes lock(l) (directly)"""
        res = set()
        locks = set(lock_of(i) for i in f.all_insts() if i.op == "call" and i.callee == LOCK)
        for l in locks:
            hit, _ = f.reach([f.entry()], [site], avoid=lambda i, l=l: i.op == "call" and i.callee == LOCK and lock_of(i) == l,
                             include_start=True)
            if hit is None:
                res.add(l)
        return res
