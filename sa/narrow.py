"""Narrowing stores: a value computed at a wider integer type (a count of helpers, a queue length, a reference count, a
grace-period id) stored into a narrower field of a shared structure silently wraps - modulo 256 for a count kept in a
`uint8_t`.  The library has no such store today (every counter field has the width of the variable it is computed in); for
every function a property's rules inspected, a store whose value is a truncation of a wider *computed* value is reported.
Constants, values masked to fit and comparison results are not narrowing.  The detector is kept alive by a positive example
in witness/selfcheck.c that must be reported on every run."""
from . import ir, mm
from .core import Broken

BITS = {"i8": 8, "i16": 16, "i32": 32, "i64": 64, "i1": 1}


def _fits(f, v, bits, depth=6):
    """value provably representable in `bits` bits"""
    c = ir.const_of(f, v)
    if c is not None:
        return -(1 << (bits - 1)) <= c < (1 << bits)
    if v[0] != "i" or depth == 0:
        return False
    i = f.insts[v[1]]
    if i.op == "icmp":
        return True
    if i.op == "cast":
        src = i.d.get("sty") or ""
        if i.d.get("cop") in ("zext", "sext") and BITS.get(src, 99) <= bits:
            return True
        if i.d.get("cop") in ("zext", "sext", "trunc"):
            return _fits(f, i.args[0], bits, depth - 1)
        return False
    if i.op == "bin" and i.d["bop"] == "and":
        for a in i.args:
            c = ir.const_of(f, a)
            if c is not None and 0 <= c < (1 << bits):
                return True
        return any(_fits(f, a, bits, depth - 1) for a in i.args)
    if i.op == "select":
        return all(_fits(f, a, bits, depth - 1) for a in i.args[1:])
    if i.op == "phi":
        return all(_fits(f, x, bits, depth - 1) for x, _b in i.d["inc"])
    if i.op == "load":
        return i.d.get("bits", 99) <= bits
    return False


def narrowing_stores(f):
    out = []
    for i in f.all_insts():
        if i.op != "store" or i.args[0][0] != "i":
            continue
        d = f.insts[i.args[0][1]]
        if d.op != "cast" or d.d.get("cop") != "trunc":
            continue
        ap = i.d.get("ap")
        if ap is None or (ap.get("base") or ["?"])[0] == "alloca":
            continue
        bits = i.d.get("bits") or BITS.get(d.d.get("ty"), 0)
        if not bits or _fits(f, d.args[0], bits):
            continue
        out.append((i, bits, d))
    return out


def noop_updates(f):
    """atomic or with 0 / and with all-ones / add of 0 on a non-local word: the update cannot change it"""
    out = []
    for i in f.all_insts():
        if i.op not in ("rmw", "asm"):
            continue
        e = mm.effect_of(i)
        if e is None or e.ap is None or e.kind != "rmw" or (e.ap.get("base") or ["?"])[0] == "alloca":
            continue
        c = ir.const_of(f, e.val) if e.val is not None else None
        if c is None:
            continue
        bits = e.bits or 64
        full = (1 << bits) - 1
        if (e.rop == "or" and c == 0) or (e.rop == "and" and (c & full) == full) or (e.rop in ("add", "sub", "xadd") and c == 0):
            out.append((i, e))
    return out


def check_noop(ctx, rep, pid):
    import os
    w = ctx.mod("w_selfcheck", "perfn")
    pos, neg = w.fn("w_selfcheck_noop_updates"), w.fn("w_selfcheck_real_updates")
    if pos is None or neg is None or len(noop_updates(pos)) != 2 or noop_updates(neg):
        raise Broken("no-op atomic update detector no longer matches its examples in witness/selfcheck.c")
    bad = []
    n = 0
    for path, name in sorted(rep.fn_seen):
        parts = os.path.basename(path).split(".")
        if len(parts) < 3 or parts[0].startswith("w_"):
            continue
        lib, mode = ".".join(parts[:-2]), parts[-2]
        f = ctx.mod(lib, mode).fn(name)
        if f is None or not f.blocks:
            continue
        n += 1
        for i, e in noop_updates(f):
            bad.append((lib, f, i, e))
    seen = set()
    for lib, f, i, e in bad:
        k = (i.origin_fn, i.line)
        if k in seen:
            continue
        seen.add(k)
        rep.bad("%s.noop" % pid, "%s.%s@%d" % (lib, i.origin_fn, i.line), "atomic `%s` of %s with a constant that cannot change the word: the flag / increment constant evaluates to %s - "
                "the state change this update stands for never happens (a waiter for that flag waits for ever)" % (e.rop, ir.ap_str(f, e.ap), ir.const_of(f, e.val)), [i.where()])
    if not bad:
        rep.ok("%s.noop" % pid, "no-noop-update", "no inspected function (%d) performs an atomic or/and/add that cannot change its word (detector verified on witness/selfcheck.c)" % n, [])


def errno_misuse(f):
    """loads of errno that steer a branch although the dominating test on a call's result says the call *succeeded*
    (errno is only meaningful after a failure; on success it holds whatever an earlier call left there)"""
    from . import pat
    out = []
    for i in f.all_insts():
        if i.op != "load":
            continue
        e = ir.expr(f, ["i", i.id], 3)
        if not (e[0] == "load" and "__errno_location" in e[1]):
            continue
        # used by a comparison / switch?
        used = any((u.op in ("icmp", "switch")) and any(a == ["i", i.id] for a in u.args) for u in f.all_insts())
        if not used:
            continue
        lv = pat.dom_leaf_atoms(f, i)
        res = [a for a in lv if len(a) == 3 and a[1][0] == "call" and a[2][0] == "c" and not a[1][1].startswith(("pthread_", "sig", "llvm."))]      # pthread_* report through their return value, not errno
        if not res:
            continue
        a = res[-1]          # innermost test of a call result
        success = (a[0] == "eq" and a[2][1] == 0) or (a[0] == "sge" and a[2][1] == 0) or (a[0] == "ne" and a[2][1] == -1) or (a[0] == "sgt" and a[2][1] == -1)
        if success:
            out.append((i, a))
    return out


def check_errno(ctx, rep, pid):
    import os
    w = ctx.mod("w_selfcheck", "perfn")
    pos, neg = w.fn("w_selfcheck_errno_on_success"), w.fn("w_selfcheck_errno_on_failure")
    if pos is None or neg is None or len(errno_misuse(pos)) != 1 or errno_misuse(neg):
        raise Broken("errno-discipline detector no longer matches its examples in witness/selfcheck.c")
    bad = []
    n = 0
    libs = set()
    for path, name in sorted(rep.fn_seen):
        parts = os.path.basename(path).split(".")
        if len(parts) >= 3 and not parts[0].startswith("w_"):
            libs.add(".".join(parts[:-2]))
    for lib in sorted(libs):
        # per-function view of the whole library: the call whose result is tested is still a call there (in the flattened view
        # the futex wrappers are inlined and their result is a phi)
        for f in ctx.mod(lib, "perfn").defined():
            n += 1
            for i, a in errno_misuse(f):
                bad.append((lib, f, i, a))
    seen = set()
    for lib, f, i, a in bad:
        k = (i.origin_fn, i.line)
        if k in seen:
            continue
        seen.add(k)
        rep.bad("%s.errno" % pid, "%s.%s@%d" % (lib, i.origin_fn, i.line), "errno decides a branch on the path where %s, i.e. the call succeeded: it holds a stale value there - the EINTR / EAGAIN handling of "
                "the wait is applied to the wrong outcome (a successful wake-up is treated as an error, a failure as success)" % ir.atom_str(a), [i.where()])
    if not bad:
        rep.ok("%s.errno" % pid, "errno-after-failure", "every errno test in the %d inspected functions is on the failure side of the call it belongs to (detector verified on witness/selfcheck.c)" % n, [])


HANDOFF_OK = {
    # functions whose contract is to return holding a lock (one reason each)
    "_before_fork": "fork bracket: released by after_fork_parent / after_fork_child",
    "_lock": "exported lock API of the structure (cds_wfs_pop_lock, cds_wfcq_dequeue_lock, cds_lfs_pop_lock)",
    "compat_futex_noasync": "may-analysis artefact: the path on which pthread_mutex_lock *failed* returns without unlocking",
}


RELEASE_OK = {
    "_after_fork_parent": "fork bracket: releases what before_fork took",
    "_after_fork_child": "fork bracket: releases what before_fork took",
    "_unlock": "exported unlock API of the structure",
}


def released_not_taken(ctx, lib, mode):
    from . import lockorder
    key = ("_released_not_taken", lib, mode)
    c = ctx.__dict__.setdefault("_lint_cache", {})
    if key not in c:
        g = lockorder.LibGraph({lib: ctx.mod(lib, mode)})
        summ = g.summaries()
        c[key] = {n: set(v[1]) for n, v in summ.items() if v[1]}
    return c[key]


def held_at_return(ctx, lib, mode):
    """{function name: locks that may still be held at a return} for one module (cached)"""
    from . import lockorder
    key = ("_held_at_return", lib, mode)
    c = ctx.__dict__.setdefault("_lint_cache", {})
    if key not in c:
        g = lockorder.LibGraph({lib: ctx.mod(lib, mode)})
        summ = g.summaries()
        c[key] = {n: set(v[0]) for n, v in summ.items() if v[0]}
    return c[key]


def check_lockpair(ctx, rep, pid):
    import os
    hs = held_at_return(ctx, "w_selfcheck", "perfn")
    if "w_selfcheck_missing_unlock" not in hs or "w_selfcheck_paired_unlock" in hs:
        raise Broken("held-at-return detector no longer matches its examples in witness/selfcheck.c")
    bad = []
    n = 0
    for path, name in sorted(rep.fn_seen):
        parts = os.path.basename(path).split(".")
        if len(parts) < 3 or parts[0].startswith("w_"):
            continue
        lib, mode = ".".join(parts[:-2]), parts[-2]
        if mode != "flat":
            continue        # internal helpers legitimately return holding their caller's lock (they drop and re-take it); decided on the exported roots
        n += 1
        held = set(x for x in (held_at_return(ctx, lib, mode).get(name) or ()) if not x.startswith("arg") and x != "?")
        if not held:
            continue
        if any(name.endswith(k) or name == k for k in HANDOFF_OK):
            continue
        bad.append((lib, name, held))
    for path, name in sorted(rep.fn_seen):
        parts = os.path.basename(path).split(".")
        if len(parts) < 3 or parts[0].startswith("w_") or parts[-2] != "flat":
            continue
        lib = ".".join(parts[:-2])
        rel = set(x for x in (released_not_taken(ctx, lib, "flat").get(name) or ()) if not x.startswith("arg") and x != "?")
        if rel and not any(name.endswith(k) for k in RELEASE_OK):
            rep.bad("%s.lockpair" % pid, "%s.%s.unlock-without-lock" % (lib, name), "%s unlocks %s without having locked it: the section it closes was never opened (its accesses run unprotected, "
                    "and the unlock of a mutex not owned is undefined)" % (name, sorted(rel)), [name])
    for lib, name, held in bad:
        rep.bad("%s.lockpair" % pid, "%s.%s" % (lib, name), "%s can return with %s still held (an unlock is missing on some path): the next thread that needs the lock - a concurrent caller of the same "
                "function, a helper, the fork handlers - blocks for ever" % (name, sorted(held)), [name])
    if not bad and not any(r["rule"] == "%s.lockpair" % pid and r["status"] != "pass" for r in rep.results):
        rep.ok("%s.lockpair" % pid, "locks-released", "none of the %d inspected functions can return holding a lock (lock-handoff functions excepted; detector verified on witness/selfcheck.c)" % n, [])


def undef_uses(f):
    """calls / stores / branches whose operand is an undefined value (a variable read before any assignment reaches it)"""
    out = []
    for i in f.all_insts():
        if i.op in ("call", "icall", "store", "ret", "icmp", "switch"):
            for a in i.args:
                if a and a[0] == "undef":
                    if i.op == "call" and i.callee and i.callee.startswith("llvm."):
                        continue
                    out.append(i)
                    break
    return out


def check_undef(ctx, rep, pid):
    import os
    w = ctx.mod("w_selfcheck", "perfn")
    pos = w.fn("w_selfcheck_use_before_def")
    if pos is None or not undef_uses(pos):
        raise Broken("use-before-definition detector no longer matches its example in witness/selfcheck.c")
    bad = []
    n = 0
    for path, name in sorted(rep.fn_seen):
        parts = os.path.basename(path).split(".")
        if len(parts) < 3 or parts[0].startswith("w_"):
            continue
        lib, mode = ".".join(parts[:-2]), parts[-2]
        f = ctx.mod(lib, mode).fn(name)
        if f is None or not f.blocks:
            continue
        n += 1
        for i in undef_uses(f):
            bad.append((lib, f, i))
    seen = set()
    for lib, f, i in bad:
        k = (i.origin_fn, i.line)
        if k in seen:
            continue
        seen.add(k)
        rep.bad("%s.undef" % pid, "%s.%s@%d" % (lib, i.origin_fn, i.line), "%s uses a variable before any assignment reaches it (the operand is undefined)" % (i.callee or i.op), [i.where()])
    if not bad:
        rep.ok("%s.undef" % pid, "no-use-before-def", "no inspected function (%d) passes / stores / tests an undefined value (detector verified on witness/selfcheck.c)" % n, [])


def check(ctx, rep, pid):
    # positive example first
    try:
        w = ctx.mod("w_selfcheck", "perfn")
    except Exception as e:
        raise Broken("witness/selfcheck.c not built: %s" % e)
    pos, neg = w.fn("w_selfcheck_narrowing_store"), w.fn("w_selfcheck_fitting_stores")
    if pos is None or neg is None or len(narrowing_stores(pos)) != 1 or narrowing_stores(neg):
        raise Broken("narrowing-store detector no longer matches its positive / negative examples in witness/selfcheck.c")
    import os
    n = 0
    bad = []
    for path, name in sorted(rep.fn_seen):
        parts = os.path.basename(path).split(".")
        if len(parts) < 3:
            continue
        lib, mode = ".".join(parts[:-2]), parts[-2]
        if lib.startswith("w_"):
            continue
        f = ctx.mod(lib, mode).fn(name)
        if f is None or not f.blocks:
            continue
        n += 1
        for i, bits, d in narrowing_stores(f):
            bad.append((lib, f, i, bits))
    seen = set()
    for lib, f, i, bits in bad:
        k = (i.origin_fn, i.line)
        if k in seen:
            continue
        seen.add(k)
        rep.bad("%s.narrow" % pid, "%s.%s@%d" % (lib, i.origin_fn, i.line), "a value computed at a wider type (%s) is stored into the %d-bit field %s: it wraps modulo 2^%d - "
                "a count / length / id kept there is wrong as soon as it exceeds the field" % (ir.expr_str(ir.expr(f, i.args[0], 4)), bits, ir.ap_str(f, i.d["ap"]), bits), [i.where()])
    if not bad:
        rep.ok("%s.narrow" % pid, "no-narrowing-store", "no inspected function (%d) stores a wider computed value into a narrower shared field (detector verified on witness/selfcheck.c)" % n, [])
