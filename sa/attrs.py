"""Compiler-visible contracts on the public prototypes: attributes that license an optimising *caller* to drop or merge calls.
The deciding step parses /repo's current public headers with clang (syntax only, AST dump) - nothing is executed.

`__attribute__((pure))` / `((const))` on a function that reads memory other threads write concurrently (a poll, an emptiness test, a
non-blocking next) lets gcc evaluate the call once and hoist it out of the caller's retry loop: the library code is unchanged and correct
when called, but the caller never calls it again."""
import os
import re
import subprocess
import tempfile

from .core import Broken

HEADERS = ("urcu/urcu-memb.h", "urcu/urcu-mb.h", "urcu/urcu-bp.h", "urcu/urcu-qsbr.h", "urcu/wfstack.h", "urcu/lfstack.h", "urcu/wfcqueue.h",
           "urcu/wfqueue.h", "urcu/rculfqueue.h", "urcu/rculfstack.h", "urcu/rculfhash.h", "urcu/rculist.h", "urcu/rcuhlist.h", "urcu/uatomic.h",
           "urcu/ref.h", "urcu/pointer.h")
WITNESS = "urcu_verif_pure_witness"
_CACHE = {}


def scan(repo):
    """-> {function name: set of attribute kinds} for every function declared while parsing the public headers, plus the number of decls seen"""
    key = os.path.abspath(repo)
    if key in _CACHE:
        return _CACHE[key]
    inc = os.path.join(repo, "include")
    hs = [h for h in HEADERS if os.path.exists(os.path.join(inc, h))]
    if len(hs) < 10:
        raise Broken("only %d of the public headers found under %s" % (len(hs), inc))
    with tempfile.TemporaryDirectory(prefix="urcu-attrs-") as d:
        tu = os.path.join(d, "tu.c")
        open(tu, "w").write("".join("#include <%s>\n" % h for h in hs) + "__attribute__((__pure__)) int %s(int);\n" % WITNESS)
        p = subprocess.run(["clang", "-fsyntax-only", "-Xclang", "-ast-dump", "-fno-color-diagnostics", "-I", inc, "-I", os.path.join(repo, "src"), tu],
                           stdout=subprocess.PIPE, stderr=subprocess.PIPE, universal_newlines=True)
    if p.returncode != 0:
        raise Broken("clang could not parse the public headers: %s" % p.stderr.strip()[-300:])
    out, cur, depth, n = {}, None, None, 0
    for line in p.stdout.split("\n"):
        m = re.match(r"^([|` -]*)(\w+) ", line)
        if not m:
            continue
        ind, kind = len(m.group(1)), m.group(2)
        if kind == "FunctionDecl":
            mm_ = re.search(r" (?:used |referenced |implicit )*([A-Za-z_]\w*) '", line)
            cur, depth = (mm_.group(1) if mm_ else None), ind
            if cur:
                n += 1
                out.setdefault(cur, set())
                if " prev " in line or "prev 0x" in line:
                    pass
            continue
        if cur is not None and ind <= depth:
            cur = None
        if cur is not None and kind in ("PureAttr", "ConstAttr") and ind == depth + 2:
            out[cur].add("pure" if kind == "PureAttr" else "const")
    if "pure" not in out.get(WITNESS, ()):
        raise Broken("attribute scan did not find its own positive witness (%s): AST dump format not understood" % WITNESS)
    _CACHE[key] = (out, n)
    return _CACHE[key]


def rule_nopure(ctx, rep, rid, family, what, floor):
    """no prototype of the family carries pure / const"""
    decls, n = scan(ctx.repo)
    fam = sorted(k for k in decls if re.search(family, k))
    if len(fam) < floor:
        raise Broken("%s: only %d declarations match the family %s (of %d parsed)" % (rid, len(fam), family, n))
    bad = [(k, sorted(decls[k])) for k in fam if decls[k]]
    rep.check(not bad, rid, "no-pure-const", "none of the %d %s prototypes is declared pure / const (%d function declarations parsed, positive witness found)" % (len(fam), what, n),
              "%s declared __attribute__((%s)): it reads memory other threads write concurrently, but an optimising caller may now evaluate the call once and hoist it out of its "
              "polling / retry loop - the loop keeps the first answer for ever although the library function, when called, is correct" % (bad[0][0] if bad else "", "/".join(bad[0][1]) if bad else ""),
              ["include/ (%s)" % k for k, _ in bad[:4]])
