"""Readable listing of a function's effects (debugging aid, also used for replay)."""
import sys
from . import ir
from .build import Facts


def inst_line(i):
    f = i.fn
    op = i.op
    if op == "load":
        return "%%%d = load.%s%s %s" % (i.id, i.d["order"], ".vol" if i.d.get("vol") else "", ir.mem_str(i))
    if op == "store":
        return "store.%s%s %s <- %s" % (i.d["order"], ".vol" if i.d.get("vol") else "", ir.mem_str(i), ir.expr_str(ir.expr(f, i.args[0], 4)))
    if op == "rmw":
        return "%%%d = rmw.%s.%s %s, %s" % (i.id, i.d["rmwop"], i.d["order"], ir.mem_str(i), ir.expr_str(ir.expr(f, i.args[1], 4)))
    if op == "cmpxchg":
        return "%%%d = cmpxchg.%s %s, exp=%s new=%s" % (i.id, i.d["order"], ir.mem_str(i), ir.expr_str(ir.expr(f, i.args[1], 4)), ir.expr_str(ir.expr(f, i.args[2], 4)))
    if op == "fence":
        return "fence.%s.%s" % (i.d["order"], i.d["scope"])
    if op == "asm":
        return "%%%d = asm %r [%s] (%s)" % (i.id, i.d["asm"], i.d["cons"], ", ".join(ir.expr_str(ir.expr(f, a, 3)) for a in i.args))
    if op == "call":
        return "%%%d = call %s(%s)%s" % (i.id, i.callee, ", ".join(ir.expr_str(ir.expr(f, a, 3)) for a in i.args), " noreturn" if i.d.get("noreturn") else "")
    if op == "icall":
        return "%%%d = icall [%s](%s)" % (i.id, ir.expr_str(ir.expr(f, i.d["fp"], 3)), ", ".join(ir.expr_str(ir.expr(f, a, 3)) for a in i.args))
    if op == "ret":
        return "ret %s" % (ir.expr_str(ir.expr(f, i.args[0], 5)) if i.args else "")
    if op == "br":
        if len(i.d["succ"]) == 2:
            return "br %s ? B%d : B%d" % (ir.atom_str(ir.cond_atom(f, i.args[0])), i.d["succ"][0], i.d["succ"][1])
        return "br B%d" % i.d["succ"][0]
    if op == "switch":
        return "switch %s %s default B%d" % (ir.expr_str(ir.expr(f, i.args[0], 4)), ["%d->B%d" % (c[0], c[1]) for c in i.d["cases"]], i.d["default"])
    if op == "unreachable":
        return "unreachable"
    if op == "phi":
        return "%%%d = phi %s" % (i.id, ", ".join("[%s from B%d]" % (ir.expr_str(ir.expr(f, x[0], 2)), x[1]) for x in i.d["inc"]))
    return None


def dump_fn(f, out=sys.stdout, all_insts=False):
    out.write("function %s (%s) %s:%d  blocks=%d insts=%d\n" % (f.name, f.linkage, f.file, f.line, len(f.blocks), len(f.insts)))
    for b in f.blocks:
        out.write(" B%d: preds=%s\n" % (b.id, b.pred))
        for i in b.insts:
            s = inst_line(i)
            if s is None:
                if not all_insts:
                    continue
                s = "%%%d = %s %s" % (i.id, i.op, i.d)
            chain = "<".join(i.scope_chain[:-1][:3])
            out.write("   %-100s ; %s %s\n" % (s, i.short(), chain))


if __name__ == "__main__":
    lib, mode, fn = sys.argv[1:4]
    repo = sys.argv[4] if len(sys.argv) > 4 else "/repo"
    m = ir.Module(Facts(repo).path(lib, mode))
    if fn == "--list":
        for f in m.defined():
            print(f.name, f.linkage, len(f.blocks), len(f.insts))
    else:
        dump_fn(m.functions[fn])
