"""In-memory view of the facts emitted by tools/irfacts, plus the graph and
def-use algorithms the rules share (dominators, reachability with removed
nodes, SCCs, value origins, access paths)."""
import json
import re
from collections import deque


class Inst:
    __slots__ = ("id", "op", "d", "fn", "blk", "pos", "args", "loc")

    def __init__(self, d, fn, blk, pos):
        self.d = d
        self.id = d["id"]
        self.op = d["op"]
        self.fn = fn
        self.blk = blk
        self.pos = pos
        self.args = d.get("args", [])
        self.loc = d.get("loc")

    def get(self, k, dflt=None):
        return self.d.get(k, dflt)

    # ---- provenance -------------------------------------------------
    @property
    def origin_fn(self):
        """Function in whose source text this instruction was written."""
        if self.loc:
            return self.loc[0][0]
        return self.fn.name

    @property
    def scope_chain(self):
        """[innermost function, ..., root]"""
        if self.loc:
            return [l[0] for l in self.loc]
        return [self.fn.name]

    @property
    def file(self):
        return self.loc[0][1] if self.loc else "?"

    @property
    def line(self):
        return self.loc[0][2] if self.loc else 0

    def where(self):
        if not self.loc:
            return "%s:<no-loc>" % self.fn.name
        parts = ["%s:%d (%s)" % (_short(l[1]), l[2], l[0]) for l in self.loc]
        return " <- ".join(parts)

    def short(self):
        return "%s:%d" % (_short(self.file), self.line)

    def inlined_from(self, fname):
        return fname in self.scope_chain

    # ---- classification ---------------------------------------------
    @property
    def callee(self):
        return self.d.get("callee")

    @property
    def asm(self):
        return self.d.get("asm")

    def is_mem(self):
        return self.op in ("load", "store", "rmw", "cmpxchg")

    def __repr__(self):
        return "<%s#%d %s %s>" % (self.fn.name, self.id, self.op, self.short())


def _short(path):
    p = path
    while p.startswith("./"):
        p = p[2:]
    p = p.replace("../include/", "include/").replace("../src/", "src/")
    if p.startswith("/"):
        for pref in ("/repo/", ):
            if p.startswith(pref):
                p = p[len(pref):]
    if "/" not in p:
        p = "src/" + p
    return p


class Block:
    __slots__ = ("id", "name", "insts", "succ", "pred", "fn")

    def __init__(self, d, fn):
        self.id = d["id"]
        self.name = d["name"]
        self.fn = fn
        self.insts = []
        self.succ = []
        self.pred = []


class Function:
    def __init__(self, d, mod):
        self.d = d
        self.mod = mod
        self.name = d["name"]
        self.linkage = d["linkage"]
        self.is_decl = "decl" in d
        self.noreturn = bool(d.get("noreturn"))
        self.args = d.get("args", [])
        self.file = d.get("file", "")
        self.line = d.get("line", 0)
        self.srcname = d.get("srcname", self.name)
        self.blocks = []
        self.insts = {}
        self._dom = None
        self._pdom = None
        self._users = None
        if not self.is_decl:
            for bd in d["blocks"]:
                b = Block(bd, self)
                for pos, idd in enumerate(bd["insts"]):
                    i = Inst(idd, self, b, pos)
                    b.insts.append(i)
                    self.insts[i.id] = i
                self.blocks.append(b)
            for b in self.blocks:
                t = b.insts[-1]
                if t.op == "br":
                    b.succ = list(t.d["succ"])
                elif t.op == "switch":
                    s = [c[1] for c in t.d["cases"]] + [t.d["default"]]
                    seen = []
                    for x in s:
                        if x not in seen:
                            seen.append(x)
                    b.succ = seen
                else:
                    b.succ = []
            for b in self.blocks:
                for s in b.succ:
                    self.blocks[s].pred.append(b.id)

    # ---- iteration ---------------------------------------------------
    def all_insts(self):
        for b in self.blocks:
            for i in b.insts:
                yield i

    def find(self, pred):
        return [i for i in self.all_insts() if pred(i)]

    def calls(self, name=None):
        return [i for i in self.all_insts() if i.op == "call" and (name is None or i.callee == name)]

    def rets(self):
        return [i for i in self.all_insts() if i.op == "ret"]

    def inst_of(self, vref):
        if vref and vref[0] == "i":
            return self.insts[vref[1]]
        return None

    def users(self, inst):
        if self._users is None:
            u = {}
            for i in self.all_insts():
                refs = list(i.args)
                if i.op == "phi":
                    refs = [x[0] for x in i.d["inc"]]
                if i.op == "icall":
                    refs = refs + [i.d["fp"]]
                for a in refs:
                    if a and a[0] == "i":
                        u.setdefault(a[1], []).append(i)
            self._users = u
        return self._users.get(inst.id, [])

    # ---- instruction-level successor relation ------------------------
    def isucc(self, i, edge_ok=None):
        """Successor instructions of i. edge_ok(term_inst, succ_block_id) may prune CFG edges."""
        b = i.blk
        if i.pos + 1 < len(b.insts):
            return [b.insts[i.pos + 1]]
        out = []
        for s in b.succ:
            if edge_ok is not None and not edge_ok(i, s):
                continue
            out.append(self.blocks[s].insts[0])
        return out

    def ipred(self, i):
        b = i.blk
        if i.pos > 0:
            return [b.insts[i.pos - 1]]
        return [self.blocks[p].insts[-1] for p in b.pred]

    def entry(self):
        return self.blocks[0].insts[0]

    # ---- dominators (block level, Cooper-Harvey-Kennedy) ---------------
    def _compute_dom(self, post=False):
        n = len(self.blocks)
        if not post:
            succ = {b.id: b.succ for b in self.blocks}
            pred = {b.id: b.pred for b in self.blocks}
            roots = [0]
        else:
            succ = {b.id: list(b.pred) for b in self.blocks}
            pred = {b.id: list(b.succ) for b in self.blocks}
            # virtual exit = n ; exits: blocks without successors that end in ret
            roots = [b.id for b in self.blocks if not b.succ and b.insts[-1].op == "ret"]
            succ[n] = roots
            pred[n] = []
            for r in roots:
                pred[r] = pred[r] + [n]
            roots = [n]
        order, seen = [], set()
        st = [(roots[0], iter(succ[roots[0]]))]
        seen.add(roots[0])
        while st:
            v, it = st[-1]
            adv = False
            for w in it:
                if w not in seen:
                    seen.add(w)
                    st.append((w, iter(succ[w])))
                    adv = True
                    break
            if not adv:
                order.append(v)
                st.pop()
        rpo = list(reversed(order))
        idx = {v: k for k, v in enumerate(rpo)}
        idom = {rpo[0]: rpo[0]}
        changed = True
        while changed:
            changed = False
            for v in rpo[1:]:
                ps = [p for p in pred[v] if p in idom]
                if not ps:
                    continue
                new = ps[0]
                for p in ps[1:]:
                    a, b2 = p, new
                    while a != b2:
                        while idx[a] > idx[b2]:
                            a = idom[a]
                        while idx[b2] > idx[a]:
                            b2 = idom[b2]
                    new = a
                if idom.get(v) != new:
                    idom[v] = new
                    changed = True
        return idom

    def bdom(self, a, b):
        """block a dominates block b"""
        if self._dom is None:
            self._dom = self._compute_dom(False)
        idom = self._dom
        if b not in idom:
            return False
        while True:
            if a == b:
                return True
            p = idom.get(b)
            if p is None or p == b:
                return False
            b = p

    def bpdom(self, a, b):
        """block a post-dominates block b (w.r.t. returning paths)"""
        if self._pdom is None:
            self._pdom = self._compute_dom(True)
        idom = self._pdom
        if b not in idom:
            return False
        while True:
            if a == b:
                return True
            p = idom.get(b)
            if p is None or p == b:
                return False
            b = p

    def dominates(self, a, b):
        """instruction a dominates instruction b"""
        if a.blk is b.blk:
            return a.pos <= b.pos
        return self.bdom(a.blk.id, b.blk.id)

    def postdominates(self, a, b):
        if a.blk is b.blk:
            return a.pos >= b.pos
        return self.bpdom(a.blk.id, b.blk.id)

    # ---- reachability ---------------------------------------------------
    def reach(self, starts, targets=None, avoid=None, edge_ok=None, include_start=False,
              stop_at_exit=False):
        """BFS over instructions from the successors of each start.
        Returns (hit, parent): hit = first target reached (or 'EXIT' when
        stop_at_exit and a ret is reached) avoiding `avoid` predicate nodes."""
        parent = {}
        dq = deque()
        for s in starts:
            if include_start:
                if s.id not in parent:
                    parent[s.id] = None
                    dq.append(s)
            else:
                for n in self.isucc(s, edge_ok):
                    if n.id not in parent:
                        parent[n.id] = s.id
                        dq.append(n)
        tset = None if targets is None else set(t.id for t in targets)
        while dq:
            i = dq.popleft()
            if avoid is not None and avoid(i):
                continue
            if tset is not None and i.id in tset:
                return i, parent
            if i.op == "ret" and stop_at_exit:
                return i, parent
            if i.op == "unreachable":
                continue
            if i.op in ("call",) and i.d.get("noreturn"):
                continue
            for n in self.isucc(i, edge_ok):
                if n.id not in parent:
                    parent[n.id] = i.id
                    dq.append(n)
        return None, parent

    def reachable_set(self, starts, avoid=None, edge_ok=None, include_start=False):
        _, parent = self.reach(starts, targets=None, avoid=avoid, edge_ok=edge_ok,
                               include_start=include_start)
        return set(parent.keys())

    def path_to(self, hit, parent):
        p, cur, seen = [], hit.id, set()
        while cur is not None and cur not in seen:
            seen.add(cur)
            p.append(self.insts[cur])
            cur = parent.get(cur)
        return list(reversed(p))

    # ---- SCCs over blocks -------------------------------------------------
    def sccs(self, edge_ok=None):
        """Tarjan over blocks; returns list of sets of block ids that form cycles."""
        index, low, onst, st, out = {}, {}, set(), [], []
        counter = [0]
        succ = {}
        for b in self.blocks:
            if edge_ok is None:
                succ[b.id] = b.succ
            else:
                succ[b.id] = [s for s in b.succ if edge_ok(b.insts[-1], s)]

        def strong(v0):
            work = [(v0, 0)]
            while work:
                v, pi = work.pop()
                if pi == 0:
                    index[v] = low[v] = counter[0]
                    counter[0] += 1
                    st.append(v)
                    onst.add(v)
                rec = False
                ss = succ[v]
                while pi < len(ss):
                    w = ss[pi]
                    pi += 1
                    if w not in index:
                        work.append((v, pi))
                        work.append((w, 0))
                        rec = True
                        break
                    elif w in onst:
                        low[v] = min(low[v], index[w])
                if rec:
                    continue
                if low[v] == index[v]:
                    comp = set()
                    while True:
                        w = st.pop()
                        onst.discard(w)
                        comp.add(w)
                        if w == v:
                            break
                    if len(comp) > 1 or v in succ[v]:
                        out.append(comp)
                if work:
                    u = work[-1][0]
                    low[u] = min(low[u], low[v])

        for b in self.blocks:
            if b.id not in index:
                strong(b.id)
        return out


class Module:
    def __init__(self, path):
        d = json.load(open(path))
        self.path = path
        self.name = d["module"]
        self.structs = d["structs"]
        self.enums = d.get("enums", {})
        self.globals = {g["name"]: g for g in d["globals"]}
        self.aliases = {a[0]: a[1] for a in d.get("aliases", [])}
        self.functions = {}
        for fd in d["functions"]:
            self.functions[fd["name"]] = Function(fd, self)
        self._callers = None

    def fn(self, name):
        f = self.functions.get(name)
        if f is None or f.is_decl:
            return None
        return f

    def defined(self):
        return [f for f in self.functions.values() if not f.is_decl]

    def callers(self, name):
        if self._callers is None:
            c = {}
            for f in self.defined():
                for i in f.all_insts():
                    if i.op == "call":
                        c.setdefault(i.callee, []).append(i)
            self._callers = c
        return self._callers.get(name, [])

    def n_insts(self):
        return sum(len(f.insts) for f in self.defined())

    def by_src(self, srcname):
        """all defined copies of a (static inline) source function; linking several units keeps one copy each"""
        return [f for f in self.defined() if f.srcname == srcname]

    def enum(self, ename, member):
        e = self.enums.get(ename)
        if e is None or member not in e:
            return None
        return e[member]

    def must_pass_summary(self, fname, pred, _stack=()):
        """every entry->ret path of defined function fname contains an instruction satisfying
        pred(inst) (pred may itself consult summaries).  Memoised per (fname, pred)."""
        key = (fname, getattr(pred, "__name__", id(pred)))
        memo = self.__dict__.setdefault("_summ", {})
        if key in memo:
            return memo[key]
        f = self.fn(fname)
        if f is None or fname in _stack:
            return False
        hit, _ = f.reach([f.entry()], None, avoid=pred, stop_at_exit=True, include_start=True)
        memo[key] = hit is None
        return memo[key]


# ======================================================================
# Access paths and value origins
# ======================================================================

def ap_fields(ap):
    """type-level field steps ('struct.field') of an access path"""
    if not ap:
        return []
    return [s for s in ap["steps"] if "." in s and not s.startswith("%") and "[" not in s]


def ap_last_field(ap):
    f = ap_fields(ap)
    return f[-1] if f else None


def ap_base(ap):
    return ap["base"] if ap else None


def ap_str(fn, ap, depth=3):
    if not ap:
        return "?"
    return base_str(fn, ap["base"], depth) + "".join(("." + s if "." in s or "#" in s else s) for s in ap["steps"])


def base_str(fn, v, depth=3):
    k = v[0]
    if k == "g":
        return "@" + v[1]
    if k == "a":
        return "arg%d" % v[1]
    if k == "f":
        return "&" + v[1]
    if k == "null":
        return "NULL"
    if k == "c":
        return str(v[1])
    if k == "ce":
        return ap_str(fn, v[1], depth)
    if k == "cast":
        return "(%s)%s" % (v[1], base_str(fn, v[2], depth))
    if k == "i":
        i = fn.insts[v[1]]
        if depth <= 0:
            return "%%%d" % i.id
        if i.op == "load":
            return "*(" + ap_str(fn, i.d["ap"], depth - 1) + ")"
        if i.op == "alloca":
            return "local:" + (i.d.get("name") or str(i.id))
        if i.op == "call":
            return "%s()#%d" % (i.callee, i.id)
        if i.op == "phi":
            return "phi#%d" % i.id
        if i.op in ("gep",) or (i.op == "cast" and "ap" in i.d):
            return ap_str(fn, i.d["ap"], depth - 1)
        if i.op == "cast":
            return base_str(fn, i.args[0], depth)
        if i.op == "select":
            return "sel#%d" % i.id
        if i.op == "bin":
            return "(%s %s %s)" % (base_str(fn, i.args[0], depth - 1), i.d["bop"], base_str(fn, i.args[1], depth - 1))
        if i.op == "asm":
            return "asm#%d" % i.id
        if i.op == "extractvalue":
            return "ev(%s)" % base_str(fn, i.args[0], depth)
        if i.op == "cmpxchg":
            return "cmpxchg#%d" % i.id
        if i.op == "rmw":
            return "rmw#%d" % i.id
        if i.op == "icall":
            return "icall#%d" % i.id
        return "%%%d" % i.id
    return str(v)


def mem_str(i, depth=3):
    return ap_str(i.fn, i.d.get("ap"), depth)


def strip_casts(fn, v, int_too=True):
    """Follow zext/sext/trunc/bitcast/ptrtoint/inttoptr/freeze chains."""
    n = 0
    while v and v[0] == "i" and n < 32:
        i = fn.insts[v[1]]
        if i.op == "cast" and (int_too or i.d["cop"] in ("bitcast", "addrspacecast")):
            v = i.args[0]
            n += 1
            continue
        break
    if v and v[0] == "cast":
        return strip_casts(fn, v[2], int_too)
    return v


def const_of(fn, v):
    v = strip_casts(fn, v)
    if v and v[0] == "c":
        return v[1]
    if v and v[0] == "null":
        return 0
    return None


def expr(fn, v, depth=8, through_phi=False, _seen=None):
    """Value origin as a nested tuple.  Casts are skipped."""
    v = strip_casts(fn, v)
    k = v[0]
    if k == "c":
        return ("c", v[1])
    if k == "null":
        return ("c", 0)
    if k == "a":
        return ("arg", v[1])
    if k == "g":
        return ("addr", "@" + v[1])
    if k == "f":
        return ("fn", v[1])
    if k == "ce":
        return ("addr", ap_str(fn, v[1]))
    if k == "undef":
        return ("undef",)
    if k != "i":
        return ("?", str(v))
    i = fn.insts[v[1]]
    if depth <= 0:
        return ("deep", i.id)
    op = i.op
    if op == "load":
        return ("load", ap_str(fn, i.d["ap"]), i.d["order"], i.id)
    if op == "bin":
        return ("bin", i.d["bop"], expr(fn, i.args[0], depth - 1, through_phi, _seen), expr(fn, i.args[1], depth - 1, through_phi, _seen))
    if op == "icmp":
        return ("icmp", i.d["pred"], expr(fn, i.args[0], depth - 1, through_phi, _seen), expr(fn, i.args[1], depth - 1, through_phi, _seen))
    if op == "select":
        return ("select", expr(fn, i.args[0], depth - 1, through_phi, _seen), expr(fn, i.args[1], depth - 1, through_phi, _seen), expr(fn, i.args[2], depth - 1, through_phi, _seen))
    if op == "phi":
        if through_phi:
            seen = _seen or set()
            if i.id in seen:
                return ("phi", i.id, "rec")
            seen = seen | {i.id}
            return ("phi", i.id, tuple(expr(fn, x[0], depth - 1, True, seen) for x in i.d["inc"]))
        return ("phi", i.id)
    if op == "call":
        return ("call", i.callee, i.id)
    if op == "icall":
        return ("icall", i.id)
    if op == "asm":
        return ("asm", i.d["asm"], i.id)
    if op == "extractvalue":
        return ("ev", expr(fn, i.args[0], depth - 1, through_phi, _seen), tuple(i.d["idx"]))
    if op == "rmw":
        return ("rmw", i.d["rmwop"], ap_str(fn, i.d["ap"]), i.id)
    if op == "cmpxchg":
        return ("cmpxchg", ap_str(fn, i.d["ap"]), i.id)
    if op == "alloca":
        return ("addr", "local:" + (i.d.get("name") or str(i.id)))
    if op == "gep" or (op == "cast" and "ap" in i.d):
        return ("addr", ap_str(fn, i.d["ap"]))
    if op == "un":
        return ("un", i.d["uop"], expr(fn, i.args[0], depth - 1, through_phi, _seen))
    return ("?", op, i.id)


def expr_str(e):
    k = e[0]
    if k == "c":
        return str(e[1])
    if k == "arg":
        return "arg%d" % e[1]
    if k in ("addr",):
        return "&" + e[1]
    if k == "fn":
        return e[1]
    if k == "load":
        return "ld(%s)" % e[1]
    if k == "bin":
        return "(%s %s %s)" % (expr_str(e[2]), e[1], expr_str(e[3]))
    if k == "icmp":
        return "(%s %s %s)" % (expr_str(e[2]), e[1], expr_str(e[3]))
    if k == "select":
        return "sel(%s,%s,%s)" % (expr_str(e[1]), expr_str(e[2]), expr_str(e[3]))
    if k == "phi":
        if len(e) > 2 and e[2] != "rec":
            return "phi#%d[%s]" % (e[1], ",".join(expr_str(x) for x in e[2]))
        return "phi#%d" % e[1]
    if k == "call":
        return "%s()#%d" % (e[1], e[2])
    if k == "asm":
        return "asm(%s)#%d" % (e[1].split()[0] if e[1] else "", e[2])
    if k == "ev":
        return "ev(%s,%s)" % (expr_str(e[1]), e[2])
    if k == "rmw":
        return "rmw_%s(%s)" % (e[1], e[2])
    if k == "cmpxchg":
        return "cmpxchg(%s)" % e[1]
    return str(e)


def subexprs(e):
    """all sub-expressions (tuples headed by a kind string), e included"""
    out = []
    expr_contains(e, lambda z: out.append(z) or False)
    return out


def expr_contains(e, pred):
    if pred(e):
        return True
    for x in e[1:]:
        if isinstance(x, tuple) and x and isinstance(x[0], str):
            if expr_contains(x, pred):
                return True
        elif isinstance(x, tuple):
            for y in x:
                if isinstance(y, tuple) and expr_contains(y, pred):
                    return True
    return False


def expr_loads(e):
    out = []

    def p(x):
        if x[0] == "load":
            out.append(x)
        return False
    expr_contains(e, p)
    return out


# ---- branch atoms -----------------------------------------------------
NEG = {"eq": "ne", "ne": "eq", "ult": "uge", "uge": "ult", "ugt": "ule", "ule": "ugt",
       "slt": "sge", "sge": "slt", "sgt": "sle", "sle": "sgt"}


def cond_atom(fn, v, polarity=True, depth=6):
    """Normalise a branch condition (i1 value) to (pred, lhs_expr, rhs_expr)."""
    v = strip_casts(fn, v)
    if v[0] == "c":
        return ("const", bool(v[1]) == polarity)
    if v[0] != "i":
        return ("?", expr(fn, v, depth), polarity)
    i = fn.insts[v[1]]
    if i.op == "icmp":
        pred = i.d["pred"]
        a, b = i.args
        # fold (icmp ne (zext i1 X), 0) and (icmp eq X,0) on i1-ish values
        ca, cb = const_of(fn, a), const_of(fn, b)
        sa = strip_casts(fn, a)
        if cb == 0 and pred in ("ne", "eq") and sa[0] == "i":
            ia = fn.insts[sa[1]]
            if ia.op == "icmp" or (ia.op == "bin" and ia.d["bop"] == "xor" and _is_i1(ia)):
                return cond_atom(fn, sa, polarity if pred == "ne" else not polarity, depth)
        if not polarity:
            pred = NEG[pred]
        return (pred, expr(fn, a, depth), expr(fn, b, depth))
    if i.op == "bin" and i.d["bop"] == "xor" and const_of(fn, i.args[1]) in (1, -1, True):
        return cond_atom(fn, i.args[0], not polarity, depth)
    if i.op == "bin" and i.d["bop"] in ("and", "or") and _is_i1(i):
        return (i.d["bop"] if polarity else "n" + i.d["bop"], cond_atom(fn, i.args[0], True, depth), cond_atom(fn, i.args[1], True, depth))
    e = expr(fn, v, depth)
    return ("ne" if polarity else "eq", e, ("c", 0))


def _is_i1(i):
    return i.d.get("ty") == "i1"


def edge_atoms(fn, blk_from, blk_to, depth=6):
    """Atoms that hold when control goes from block blk_from to blk_to."""
    t = fn.blocks[blk_from].insts[-1]
    if t.op == "br" and len(t.d["succ"]) == 2:
        s = t.d["succ"]
        if s[0] == s[1]:
            return []
        if blk_to == s[0]:
            return [cond_atom(fn, t.args[0], True, depth)]
        if blk_to == s[1]:
            return [cond_atom(fn, t.args[0], False, depth)]
    if t.op == "switch":
        e = expr(fn, t.args[0], depth)
        vals = [c[0] for c in t.d["cases"] if c[1] == blk_to]
        if blk_to == t.d["default"] and not vals:
            return [("notin", e, tuple(c[0] for c in t.d["cases"]))]
        if len(vals) == 1 and blk_to != t.d["default"]:
            return [("eq", e, ("c", vals[0]))]
        if vals and blk_to != t.d["default"]:
            return [("in", e, tuple(vals))]
    return []


def atom_str(a):
    if a[0] == "const":
        return "true" if a[1] else "false"
    if a[0] in ("and", "or", "nand", "nor"):
        return "%s(%s, %s)" % (a[0], atom_str(a[1]), atom_str(a[2]))
    if a[0] in ("in", "notin"):
        return "%s %s %s" % (expr_str(a[1]), a[0], list(a[2]))
    if a[0] == "?":
        return "?%s" % (a[1:],)
    return "%s %s %s" % (expr_str(a[1]), a[0], expr_str(a[2]))
