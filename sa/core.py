"""Rule runner: contexts, results, reports, evidence, known findings."""
import json
import os
import sys
import time
import traceback

from . import ir, mm
from .build import Facts, AnalysisBroken, VERIF

PASS, VIOLATION, INCONCLUSIVE = "pass", "violation", "inconclusive"


class Broken(Exception):
    """The rule cannot decide (anchor vanished, idiom not recognised): exit 2."""


class Ctx:
    def __init__(self, repo="/repo", tier="quick", extra_defs=(), tag="default"):
        self.repo = repo
        self.tier = tier
        self.tag = tag
        self.facts = Facts(repo, extra_defs=extra_defs, config_tag=tag)
        self._mods = {}

    def mod(self, lib, mode="flat"):
        k = (lib, mode)
        if k not in self._mods:
            self._mods[k] = ir.Module(self.facts.path(lib, mode))
        return self._mods[k]

    def fn(self, lib, name, mode="flat"):
        f = self.mod(lib, mode).fn(name)
        if f is None:
            raise Broken("anchor function %s not found in %s/%s" % (name, lib, mode))
        return f

    def src(self, rel):
        return open(os.path.join(self.repo, rel)).read()


_CTX_CACHE = {}


def get_ctx(repo, tier, defs, tag):
    """one analysis context (facts + parsed modules + per-context caches) per (tree, configuration) and process: the 20 checks
    of `./check all` and of a scratch-copy campaign share the parsed IR facts instead of re-reading them per property"""
    key = (os.path.abspath(repo), tier, tuple(defs), tag)
    c = _CTX_CACHE.get(key)
    if c is None:
        c = Ctx(repo, tier, defs, tag)
        if len(_CTX_CACHE) >= 4:
            _CTX_CACHE.clear()
        _CTX_CACHE[key] = c
    return c


def clear_ctx_cache():
    _CTX_CACHE.clear()


class Report:
    def __init__(self, pid, ctx):
        self.pid = pid
        self.ctx = ctx
        self.results = []
        self.cur_rule = None
        self.fn_seen = set()
        self.inst_seen = 0
        self.paths = 0

    # ---- bookkeeping ---------------------------------------------------
    def touch(self, f):
        key = (f.mod.path, f.name)
        if key not in self.fn_seen:
            self.fn_seen.add(key)
            self.inst_seen += len(f.insts)

    def _add(self, status, rule, instance, msg, sites=None, key=None):
        tag = self.ctx.tag
        self.results.append({"rule": rule, "instance": instance, "status": status, "msg": msg,
                             "sites": sites or [], "config": tag,
                             "key": key or ("%s:%s" % (rule, instance))})

    def ok(self, rule, instance, msg, sites=None):
        self._add(PASS, rule, instance, msg, sites)

    def bad(self, rule, instance, msg, sites=None, key=None):
        self._add(VIOLATION, rule, instance, msg, sites, key)

    def unk(self, rule, instance, msg):
        self._add(INCONCLUSIVE, rule, instance, msg)

    def check(self, cond, rule, instance, okmsg, badmsg, sites=None):
        if cond:
            self.ok(rule, instance, okmsg, sites)
        else:
            self.bad(rule, instance, badmsg, sites)
        return cond

    # ---- templates ---------------------------------------------------------
    def must_pass(self, rule, instance, f, starts, targets, via, edge_ok=None, to_exit=False,
                  what="", include_start=False):
        """T1/T3/T4: every path from a start to a target (or a returning exit when to_exit)
        contains an instruction satisfying via()."""
        self.touch(f)
        self.paths += 1
        if not starts:
            raise Broken("%s/%s: no start effect found in %s" % (rule, instance, f.name))
        if targets is not None and not targets and not to_exit:
            raise Broken("%s/%s: no target effect found in %s" % (rule, instance, f.name))
        hit, parent = f.reach(starts, targets, avoid=via, edge_ok=edge_ok, stop_at_exit=to_exit,
                              include_start=include_start)
        if hit is None:
            self.ok(rule, instance, "%s: all paths in %s pass the required effect (%d start(s), %s target(s))" % (
                what, f.name, len(starts), "exit" if targets is None else len(targets)),
                [s.where() for s in starts[:3]])
            return True
        path = f.path_to(hit, parent)
        self.bad(rule, instance, "%s: path without the required effect in %s" % (what, f.name),
                 path_sites(path))
        return False

    def must_take_edge(self, rule, instance, f, starts, targets, edges, what="", to_exit=False, include_start=True, avoid=None):
        """every path from a start to a target (or exit) takes one of the CFG edges in `edges`
        ((from_block_id, to_block_id) pairs)."""
        self.touch(f)
        self.paths += 1
        bl = set(edges)
        eok = lambda term, succ: (term.blk.id, succ) not in bl
        hit, parent = f.reach(starts, targets, edge_ok=eok, stop_at_exit=to_exit, include_start=include_start, avoid=avoid)
        if hit is None:
            self.ok(rule, instance, "%s: every path takes one of %d guarded edge(s)" % (what, len(bl)), [s.where() for s in starts[:2]])
            return True
        self.bad(rule, instance, "%s: path that avoids the guarded edge(s) in %s" % (what, f.name), path_sites(f.path_to(hit, parent)))
        return False

    def seq_dom(self, rule, instance, f, a, b, what=""):
        """a dominates b"""
        self.touch(f)
        if f.dominates(a, b):
            self.ok(rule, instance, "%s: %s dominates %s" % (what, a.short(), b.short()), [a.where(), b.where()])
            return True
        self.bad(rule, instance, "%s: %s does not dominate %s" % (what, a.where(), b.where()), [a.where(), b.where()])
        return False


def path_sites(path, limit=40):
    from .dump import inst_line
    out = []
    last = None
    for i in path:
        s = inst_line(i)
        if s is None:
            continue
        if i.op == "br" and len(i.d.get("succ", [])) < 2:
            continue
        w = "%s  [%s]" % (i.where(), s[:140])
        if w != last:
            out.append(w)
        last = w
    if len(out) > limit:
        out = out[:limit // 2] + ["... (%d steps elided)" % (len(out) - limit)] + out[-limit // 2:]
    return out


# ---------------------------------------------------------------------------
def load_known():
    p = os.path.join(VERIF, "known_findings.json")
    if not os.path.exists(p):
        return {"known": [], "fixed": []}
    return json.load(open(p))


def run_property(pid, rules_mod, repo="/repo", tier="quick", configs=None, seed=0, out=sys.stdout,
                 write_evidence=True):
    """rules_mod exposes RULES = [(rule_id, fn(ctx, rep))], META = {...}.
    Returns exit code."""
    t0 = time.time()
    meta = rules_mod.META
    configs = configs or getattr(rules_mod, "QUICK_CONFIGS", None) or [("default", ())]
    all_results = []
    fn_seen, inst_seen, paths = set(), 0, 0
    status_broken = None
    ctxs = []
    for tag, defs in configs:
        try:
            ctx = get_ctx(repo, tier, defs, tag)
            ctx.facts.ensure()
        except AnalysisBroken as e:
            if tag != "default" and getattr(rules_mod, "OPTIONAL_CONFIGS", None) and tag in rules_mod.OPTIONAL_CONFIGS:
                continue
            status_broken = "build/config %s: %s" % (tag, e)
            break
        ctxs.append(ctx)
        rep = Report(pid, ctx)
        for rid, fn in rules_mod.RULES:
            if tag != "default" and hasattr(rules_mod, "CONFIG_RULES") and rid not in rules_mod.CONFIG_RULES.get(tag, ()):
                continue
            n0 = len(rep.results)
            try:
                fn(ctx, rep)
            except Broken as e:
                rep.unk(rid, "-", str(e))
            except mm.Unknown as e:
                rep.unk(rid, "-", str(e))
            except AnalysisBroken as e:
                rep.unk(rid, "-", str(e))
            except Exception as e:  # a crash of the engine is 'analysis broken', never a pass
                rep.unk(rid, "-", "engine error: %r\n%s" % (e, traceback.format_exc()[-1500:]))
            if len(rep.results) == n0:
                rep.unk(rid, "-", "rule produced no instance (vacuous)")
        if tag == "default":
            from . import narrow
            try:
                narrow.check(ctx, rep, pid)
                narrow.check_noop(ctx, rep, pid)
                narrow.check_errno(ctx, rep, pid)
                narrow.check_lockpair(ctx, rep, pid)
                narrow.check_undef(ctx, rep, pid)
            except (Broken, AnalysisBroken, mm.Unknown) as e:
                rep.unk(pid + ".narrow", "-", str(e))
            except Exception as e:
                rep.unk(pid + ".narrow", "-", "engine error: %r\n%s" % (e, traceback.format_exc()[-1500:]))
        if tag == "default" and not getattr(rules_mod, "NO_NDEBUG_RULE", False):
            from . import ndebug
            try:
                ndebug.check(ctx, rep, pid, lambda defs, t: get_ctx(repo, tier, tuple(defs), t))
            except (Broken, AnalysisBroken, mm.Unknown) as e:
                rep.unk(pid + ".ndebug", "-", str(e))
            except Exception as e:
                rep.unk(pid + ".ndebug", "-", "engine error: %r\n%s" % (e, traceback.format_exc()[-1500:]))
        all_results += rep.results
        fn_seen |= rep.fn_seen
        inst_seen += rep.inst_seen
        paths += rep.paths
    known = load_known()
    known_keys = {k["key"]: k for k in known.get("known", []) if k.get("property") == pid}
    viol = [r for r in all_results if r["status"] == VIOLATION]
    unk = [r for r in all_results if r["status"] == INCONCLUSIVE]
    new_viol = [r for r in viol if r["key"] not in known_keys]
    old_viol = [r for r in viol if r["key"] in known_keys]
    # floors: per rule minimum number of instances confirmed by hand
    floors = getattr(rules_mod, "FLOORS", {})
    counts = {}
    for r in all_results:
        if r["config"] == "default":
            counts[r["rule"]] = counts.get(r["rule"], 0) + 1
    for rid, fl in floors.items():
        if counts.get(rid, 0) < fl and not any(r["rule"] == rid and r["status"] != PASS for r in all_results):
            unk.append({"rule": rid, "instance": "-", "status": INCONCLUSIVE, "config": "default", "sites": [],
                        "msg": "instance count %d below hand-confirmed floor %d" % (counts.get(rid, 0), fl), "key": rid})
    replay_dir = os.path.join(VERIF, "evidence", "replay", pid)
    for r in old_viol:
        out.write("KNOWN-FINDING: property=%s %s\n" % (pid, known_keys[r["key"]].get("what", r["msg"])))
    code = 0
    if status_broken:
        out.write("ANALYSIS-BROKEN property=%s %s\n" % (pid, status_broken))
        code = 2
    if new_viol:
        if write_evidence:
            os.makedirs(replay_dir, exist_ok=True)
        for r in new_viol:
            rp = os.path.join(replay_dir, "%s.json" % r["rule"].replace("/", "_"))
            if write_evidence:      # scratch-copy runs of the self-test do not leave replay files behind
                json.dump([x for x in new_viol if x["rule"] == r["rule"]], open(rp, "w"), indent=1)
            out.write("VIOLATION property=%s replay=%s\n" % (pid, rp))
            out.write("  rule %s instance %s [%s]: %s\n" % (r["rule"], r["instance"], r["config"], r["msg"]))
            for s in r["sites"]:
                out.write("      at %s\n" % s)
        code = 1
    if unk or status_broken:
        for r in unk:
            out.write("INCONCLUSIVE property=%s rule=%s instance=%s [%s]: %s\n" % (pid, r["rule"], r["instance"], r.get("config"), r["msg"]))
        if code == 0:
            code = 2
    npass = sum(1 for r in all_results if r["status"] == PASS)
    out.write("%s: %d rule instance(s): %d pass, %d violation(s) (%d known), %d inconclusive; %d functions / %d instructions analysed; %.1fs\n" % (
        pid, len(all_results), npass, len(viol), len(old_viol), len(unk), len(fn_seen), inst_seen, time.time() - t0))
    if write_evidence:
        samples = []
        seen_rules = set()
        for r in all_results:
            if r["rule"] in seen_rules and len(samples) >= 12:
                continue
            seen_rules.add(r["rule"])
            samples.append({"rule": r["rule"], "instance": r["instance"], "status": r["status"],
                            "config": r["config"], "what": r["msg"][:300], "sites": r["sites"][:4]})
            if len(samples) >= 40:
                break
        binfo = {}
        try:
            if ctxs:
                binfo = ctxs[0].facts.build_info()
        except Exception:
            pass
        distinct = len(set((r["rule"], r["instance"], r["config"]) for r in all_results))
        ev = {
            "property_id": pid,
            "tier": tier,
            "seed": seed,
            "level": "other",
            "coverage": {
                "explanation": (meta["explanation"] + " On every function these rules inspected, six generic lints with positive witnesses (witness/selfcheck.c) also run: narrowing stores, "
                                "no-op atomic updates, errno consulted on the success side, locks held at return / released without being taken, use of undefined values, and NDEBUG "
                                "invariance of external calls and writes (a second build of the tree with -DNDEBUG).")[:2400],
                "obligations": len(all_results),
                "discharged": npass,
                "evaluations": max(1, len(all_results)),
                "distinct_nontrivial": distinct,
                "rule": "one obligation = one rule instance (rule template applied to one root function / site / configuration); "
                        "non-trivial = the rule matched at least one anchor effect in the IR (rules without a match are reported inconclusive, not counted)",
                "samples": samples,
                "rules": sorted(set(r["rule"] for r in all_results)),
                "per_rule_counts": counts,
                "floors": floors,
                "configs": [c[0] for c in configs],
                "units_analysed": [u[0] + " " + " ".join(x for x in u[1] if x.startswith("-DRCU")) for u in binfo.get("units", [])],
                "witness_units": binfo.get("witness", []),
                "functions_analysed": len(fn_seen),
                "instructions_analysed": inst_seen,
                "path_queries": paths,
                "checker_cmd": "./check %s --tier %s" % (pid, tier),
                "trusted_base": meta.get("trusted_base", []) + [
                    "clang 14 front end and the LLVM passes always-inline, sroa, early-cse, sccp, instsimplify, simplifycfg, adce",
                    "memory-model table of DESIGN.md section 2.2 (x86-64 TSO)"],
                "not_decided": meta.get("not_decided", ""),
                "exhaustive": False,
            },
            "assumptions": meta.get("assumptions", []) + [
                "x86-64, configuration found in include/urcu/config.h; clang's view of the preprocessed source",
                "rules are necessary conditions of the behavioural property, not sufficient ones"],
            "wall_s": round(time.time() - t0, 2),
            "violations": len(new_viol),
        }
        os.makedirs(os.path.join(VERIF, "evidence"), exist_ok=True)
        json.dump(ev, open(os.path.join(VERIF, "evidence", pid + ".json"), "w"), indent=1)
    return code, all_results
