"""T11: shape of blocking futex waits (decided per function, per-function view).
For a wait W = futex_async/futex_noasync(A, FUTEX_WAIT, V, ...):
  every path from W to {return of the function, any write to A by this thread} re-loads A,
  unless it leaves through an edge guarded by errno == EAGAIN or ends in a noreturn call."""
from . import ir, mm, pat

EAGAIN, EINTR = 11, 4
WAIT_FNS = ("futex_async", "futex_noasync", "futex", "compat_futex_async", "compat_futex_noasync")


def wait_sites(f):
    out = []
    for i in f.all_insts():
        if i.op == "call" and i.callee in WAIT_FNS and len(i.args) >= 3 and ir.const_of(f, i.args[1]) == mm.FUTEX_WAIT:
            out.append(i)
        if mm.is_futex(i, mm.FUTEX_WAIT):
            out.append(i)
    return out


def wake_sites(f):
    out = []
    for i in f.all_insts():
        if i.op == "call" and i.callee in WAIT_FNS and len(i.args) >= 3 and ir.const_of(f, i.args[1]) == mm.FUTEX_WAKE:
            out.append(i)
        if mm.is_futex(i, mm.FUTEX_WAKE):
            out.append(i)
    return out


def word_of(w):
    k = 1 if w.callee == "syscall" else 0
    return w.d["aps"][k]


def same_word(f, ap, e):
    if e is None or e.ap is None:
        return False
    return ir.ap_str(f, e.ap) == ir.ap_str(f, ap)


def eagain_edges(f):
    """(blk, succ) edges taken only when errno == EAGAIN"""
    out = set()
    for b in f.blocks:
        t = b.insts[-1]
        for s in b.succ:
            for a in ir.edge_atoms(f, b.id, s):
                if a[0] == "eq" and a[2] == ("c", EAGAIN) and a[1][0] == "load" and "__errno_location" in a[1][1]:
                    out.add((b.id, s))
    return out


def check(rep, rule, instance, f, w, extra_leave=None):
    """apply T11 to wait site w in f"""
    rep.touch(f)
    ap = word_of(w)
    if ap is None:
        rep.unk(rule, instance, "wait word is not an addressable path at %s" % w.where())
        return False
    reload_ = lambda i: i.op == "load" and same_word(f, ap, mm.effect_of(i))
    writes = [i for i in f.all_insts() if i.op in ("store", "rmw", "cmpxchg", "asm") and (lambda e: e is not None and e.writes() and same_word(f, ap, e))(mm.effect_of(i))]
    if extra_leave:
        writes = writes + [i for i in f.all_insts() if extra_leave(i)]
    eok = pat.block_edge_filter(eagain_edges(f))
    if not [i for i in f.all_insts() if reload_(i)]:
        rep.bad(rule, instance, "wait word is never re-read in %s: a spurious wake-up or EINTR cannot be told from a real one" % f.name, [w.where()])
        return False
    # the value FUTEX_WAIT compares the word with is the value the guard just read: sleeping on any other value either never
    # sleeps (EAGAIN busy loop) or sleeps although the wake-up condition already holds
    k = 3 if w.callee == "syscall" else 2
    exp = ir.const_of(f, w.args[k]) if len(w.args) > k else None
    if exp is not None:
        lv = pat.dom_leaf_atoms(f, w)
        g = [a for a in lv if a[0] in ("eq", "ne") and a[1][0] == "load" and a[2][0] == "c" and same_word(f, ap, mm.effect_of(f.insts[a[1][3]]))]
        if g:
            okg = any(a[0] == "eq" and a[2][1] == exp for a in g)
            rep.check(okg, rule, instance + ".guard=expected", "FUTEX_WAIT sleeps while the word still has the value (%d) the guard just read" % exp,
                      "FUTEX_WAIT expects %d but the wait is entered on %s: the thread sleeps although the wake-up condition already holds (lost wake-up) or never sleeps" %
                      (exp, [ir.atom_str(a) for a in g][:2]), [w.where()])
    return rep.must_pass(rule, instance, f, [w], writes, reload_, edge_ok=eok, to_exit=True,
                         what="after the futex wait returns (0, spurious, EINTR) the wait word is re-read before the function returns or writes the word (EAGAIN edge excepted)")


def check_wakers(rep, rule, tag, mod, word_pred, floor=1):
    """T2 over every waker of the futex words selected by word_pred(last field / global name): in each function (per-function
    view) that issues FUTEX_WAKE on such a word, the word is reset to 0 before the wake-up and the wake-up is guarded by the word
    being -1.  A waiter woken before the reset re-reads -1, takes the wake-up for a spurious one and sleeps again, after which the
    word is 0 and nobody ever wakes it."""
    from . import ir as _ir
    n = 0
    for g in mod.defined():
        for w in wake_sites(g):
            ap = word_of(w)
            if ap is None:
                continue
            name = pat.last_field(ap) or pat.base_global(ap) or "?"
            if not word_pred(name, ap):
                continue
            n += 1
            rep.touch(g)
            z = [s for s in g.all_insts() if s.op == "store" and same_word(g, ap, mm.effect_of(s)) and _ir.const_of(g, s.args[0]) == 0]
            inst = "%s.%s.%s" % (tag, g.name, name.split(".")[-1])
            if not z:
                rep.bad(rule, inst + ".reset≺wake", "%s wakes waiters of %s without resetting the word to 0" % (g.name, name), [w.where()])
            else:
                rep.must_pass(rule, inst + ".reset≺wake", g, [g.entry()], [w], lambda i: i in z, include_start=True,
                              what="the futex word is reset to 0 before FUTEX_WAKE (a waiter woken first re-reads -1, treats the wake-up as spurious and sleeps again for good)")
            lv = pat.dom_leaf_atoms(g, w)
            guard = any(a[0] == "eq" and a[2] == ("c", -1) and a[1][0] == "load" for a in lv)
            rep.check(guard, rule, inst + ".guard", "wake-up only when the word is -1", "wake-up not guarded by word == -1", [w.where()])
    pat.require(n >= floor, "%s: only %d FUTEX_WAKE sites matched (expected >= %d)" % (tag, n, floor))
