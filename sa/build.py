"""Build capture and IR/facts construction from /repo's *current* working tree.

Nothing from the repository is executed: `make -n` is a dry run that prints the
libtool compile/link lines; each unit is compiled by clang to LLVM bitcode with
the build's own -D/-I/-include flags, linked per shipped library and normalised
by tools/irfacts.  Exit code 2 (AnalysisBroken) if anything of this fails.
"""
import hashlib
import json
import os
import re
import shlex
import shutil
import subprocess
import sys
import tempfile
from concurrent.futures import ThreadPoolExecutor

VERIF = os.path.dirname(os.path.dirname(os.path.abspath(__file__)))
IRFACTS = os.path.join(VERIF, "tools", "irfacts", "irfacts")
WITNESS_DIR = os.path.join(VERIF, "witness")
CACHE_DIR = os.path.join(VERIF, ".cache")


class AnalysisBroken(Exception):
    pass


def run(cmd, cwd=None, check=True):
    p = subprocess.run(cmd, cwd=cwd, stdout=subprocess.PIPE, stderr=subprocess.PIPE, text=True)
    if check and p.returncode != 0:
        raise AnalysisBroken("command failed (%d): %s\n%s" % (p.returncode, " ".join(cmd), p.stderr[-4000:]))
    return p


KEEP_PREFIX = ("-D", "-U", "-I", "-std", "-pthread", "-m", "-f")


def capture(repo):
    """Return (units, libs): units = {obj: (src, [flags])}, libs = {lib: [objs/.la]}."""
    src = os.path.join(repo, "src")
    if not os.path.exists(os.path.join(src, "Makefile")):
        raise AnalysisBroken("no src/Makefile in %s (repository not configured)" % repo)
    for h in ("include/config.h", "include/urcu/config.h"):
        if not os.path.exists(os.path.join(repo, h)):
            raise AnalysisBroken("generated header %s missing" % h)
    cfiles = sorted(f for f in os.listdir(src) if f.endswith(".c"))
    cmd = ["make", "-n"]
    for f in cfiles:
        cmd += ["-W", f]
    cmd.append("all")
    p = run(cmd, cwd=src)
    units, libs = {}, {}
    for line in p.stdout.splitlines():
        if "--mode=compile" in line:
            part = line.split("--mode=compile", 1)[1]
            part = re.sub(r"`test -f '([^']+)' \|\| echo '\./'`", "", part)
            toks = shlex.split(part)
            flags, obj, srcf = [], None, None
            i = 1  # toks[0] is the compiler
            while i < len(toks):
                t = toks[i]
                if t == "-include":
                    flags += [t, toks[i + 1]]
                    i += 2
                    continue
                if t in ("-MT", "-MF"):
                    i += 2
                    continue
                if t == "-o":
                    obj = toks[i + 1]
                    i += 2
                    continue
                if t.endswith(".c") and not t.startswith("-"):
                    srcf = t
                elif t.startswith(KEEP_PREFIX) and not t.startswith("-fdiagnostics"):
                    flags.append(t)
                i += 1
            if obj and srcf:
                units[obj] = (srcf, flags)
        elif "--mode=link" in line:
            part = line.split("--mode=link", 1)[1]
            toks = shlex.split(part)
            out, objs = None, []
            i = 0
            while i < len(toks):
                if toks[i] == "-o":
                    out = toks[i + 1]
                    i += 2
                    continue
                if toks[i] in ("-rpath", "-version-info"):
                    i += 2
                    continue
                if toks[i].endswith(".lo") or (toks[i].endswith(".la") and out):
                    objs.append(toks[i])
                i += 1
            if out:
                libs[out] = objs
    if not units or not libs:
        raise AnalysisBroken("make -n produced no compile/link lines")
    # cross-check against Makefile.am: every src/*.c named in a *_SOURCES must be a unit
    am = open(os.path.join(src, "Makefile.am")).read()
    named = set(re.findall(r"\b([\w-]+\.c)\b", am))
    built = set(u[0] for u in units.values())
    missing = sorted(n for n in named if n not in built and os.path.exists(os.path.join(src, n)))
    if missing:
        raise AnalysisBroken("units named in Makefile.am but not captured from the build: %s" % missing)
    unbuilt = sorted(f for f in cfiles if f not in built)
    if unbuilt:
        raise AnalysisBroken("src/*.c files not part of any build line: %s" % unbuilt)
    return units, libs


# analysed libraries: shipped library -> analysis name.  liburcu.la is the legacy
# alias of liburcu-memb.la (same sources, same defines); this is verified below.
LIBMAP = {
    "liburcu-memb.la": "memb",
    "liburcu-mb.la": "mb",
    "liburcu-qsbr.la": "qsbr",
    "liburcu-bp.la": "bp",
    "liburcu-cds.la": "cds",
}


def tree_hash(repo, extra=()):
    h = hashlib.sha256()
    paths = []
    for root in ("src", "include"):
        for d, _, fs in os.walk(os.path.join(repo, root)):
            for f in fs:
                if f.endswith((".c", ".h", ".am")) or f == "Makefile":
                    paths.append(os.path.join(d, f))
    for d, _, fs in os.walk(WITNESS_DIR):
        for f in fs:
            paths.append(os.path.join(d, f))
    paths.append(IRFACTS)
    paths.append(os.path.abspath(__file__))
    for p in sorted(paths):
        h.update(p.encode())
        with open(p, "rb") as fh:
            h.update(fh.read())
    for e in extra:
        h.update(str(e).encode())
    return h.hexdigest()[:24]


def _prune_cache(keep=24):
    import time
    try:
        ents = []
        for e in os.listdir(CACHE_DIR):
            p = os.path.join(CACHE_DIR, e)
            if e.startswith("build-"):
                # unfinished build of a crashed run: remove once clearly stale
                if time.time() - os.path.getmtime(p) > 3600:
                    shutil.rmtree(p, ignore_errors=True)
                continue
            ents.append((os.path.getmtime(p), e))
        ents.sort()
    except OSError:
        return
    now = time.time()
    for mt, e in ents[:-keep]:
        if now - mt < 1800:
            continue        # possibly in use by a concurrent run (scratch-copy campaigns): never pull a fresh entry away
        shutil.rmtree(os.path.join(CACHE_DIR, e), ignore_errors=True)


def clang_cmd(flags, src, out, extra=()):
    return ["clang", "-O0", "-Xclang", "-disable-O0-optnone", "-g", "-w", "-emit-llvm", "-c",
            "-UNDEBUG"] + list(flags) + list(extra) + ["-o", out, src]


class Facts:
    """Paths of the facts JSON per (library, mode), built on demand from repo."""

    def __init__(self, repo="/repo", extra_defs=(), config_tag="default", use_cache=True):
        self.repo = os.path.abspath(repo)
        self.extra_defs = tuple(extra_defs)
        self.config_tag = config_tag
        if not os.path.exists(IRFACTS):
            raise AnalysisBroken("tools/irfacts/irfacts not built (run MANIFEST.setup_cmd)")
        self.units, self.libs = capture(self.repo)
        self.key = tree_hash(self.repo, self.extra_defs)
        self.dir = os.path.join(CACHE_DIR, self.key)
        self.use_cache = use_cache
        self.built = os.path.exists(os.path.join(self.dir, "DONE"))
        self.stats = {}

    # ---------------------------------------------------------------
    def lib_objects(self, la):
        objs, seen_src = [], set()
        for o in self.libs[la]:
            if o.endswith(".lo"):
                objs.append(o)
                seen_src.add(self.units[o][0])
        for o in self.libs[la]:
            if o.endswith(".la"):
                for oo in self.libs.get(o, []):
                    if oo.endswith(".lo") and self.units[oo][0] not in seen_src:
                        objs.append(oo)
                        seen_src.add(self.units[oo][0])
        return objs

    def ensure(self):
        if self.built:
            os.utime(self.dir, None)
            return
        os.makedirs(CACHE_DIR, exist_ok=True)
        tmp = tempfile.mkdtemp(prefix="build-", dir=CACHE_DIR)
        try:
            self._build(tmp)
            open(os.path.join(tmp, "DONE"), "w").write("ok\n")
            if os.path.exists(self.dir):
                shutil.rmtree(self.dir, ignore_errors=True)
            os.rename(tmp, self.dir)
        except BaseException:
            shutil.rmtree(tmp, ignore_errors=True)
            raise
        self.built = True
        _prune_cache()

    def _build(self, out):
        src = os.path.join(self.repo, "src")
        # legacy alias check
        if "liburcu.la" in self.libs and "liburcu-memb.la" in self.libs:
            a = sorted(self.units[o] for o in self.libs["liburcu.la"] if o.endswith(".lo"))
            b = sorted(self.units[o] for o in self.libs["liburcu-memb.la"] if o.endswith(".lo"))
            if a != b:
                raise AnalysisBroken("liburcu.la is no longer built like liburcu-memb.la: %r vs %r" % (a, b))
        for la in LIBMAP:
            if la not in self.libs:
                raise AnalysisBroken("library %s vanished from the build" % la)
        jobs = {}
        for la in LIBMAP:
            for o in self.lib_objects(la):
                s, fl = self.units[o]
                key = (s, tuple(fl))
                if key not in jobs:
                    jobs[key] = os.path.join(out, "u%03d_%s.bc" % (len(jobs), os.path.basename(s)[:-2]))
        # witness units
        wit = []
        if os.path.isdir(WITNESS_DIR):
            for f in sorted(os.listdir(WITNESS_DIR)):
                if f.endswith(".c"):
                    wit.append(f)
        base_flags = None
        for o, (s, fl) in sorted(self.units.items()):
            if s == "wfcqueue.c":
                base_flags = fl
        if base_flags is None:
            raise AnalysisBroken("wfcqueue.c unit vanished")
        witjobs = {}
        for f in wit:
            witjobs[f] = os.path.join(out, "w_%s.bc" % f[:-2])

        def comp(item):
            (s, fl), bc = item
            run(clang_cmd(fl, s, bc, self.extra_defs), cwd=src)

        def compw(item):
            f, bc = item
            run(clang_cmd(base_flags, os.path.join(WITNESS_DIR, f), bc, self.extra_defs), cwd=src)

        with ThreadPoolExecutor(max_workers=16) as ex:
            list(ex.map(comp, jobs.items()))
            list(ex.map(compw, witjobs.items()))
        self.stats["units"] = len(jobs)
        linked = {}
        for la, name in LIBMAP.items():
            bcs = [jobs[(self.units[o][0], tuple(self.units[o][1]))] for o in self.lib_objects(la)]
            lk = os.path.join(out, name + ".bc")
            run(["llvm-link-14", "-o", lk] + bcs)
            linked[name] = lk
        for f, bc in witjobs.items():
            linked["w_" + f[:-2]] = bc

        def facts(item):
            name, mode = item
            args = [IRFACTS, linked[name], os.path.join(out, "%s.%s.json" % (name, mode)),
                    "--ll=" + os.path.join(out, "%s.%s.ll" % (name, mode))]
            if mode == "flat":
                args.append("--flat")
                args.append("--inline-ext=compat_futex_async,compat_futex_noasync")
            run(args)

        items = [(n, m) for n in linked for m in ("perfn", "flat")]
        with ThreadPoolExecutor(max_workers=16) as ex:
            list(ex.map(facts, items))
        for f in os.listdir(out):
            if f.endswith(".bc"):
                os.unlink(os.path.join(out, f))
        json.dump({"units": [[k[0], list(k[1])] for k in jobs], "witness": wit,
                   "libs": {LIBMAP[la]: [self.units[o][0] for o in self.lib_objects(la)] for la in LIBMAP}},
                  open(os.path.join(out, "build.json"), "w"), indent=1)

    def path(self, lib, mode="perfn"):
        self.ensure()
        p = os.path.join(self.dir, "%s.%s.json" % (lib, mode))
        if not os.path.exists(p):
            raise AnalysisBroken("no facts for %s/%s" % (lib, mode))
        return p

    def build_info(self):
        self.ensure()
        return json.load(open(os.path.join(self.dir, "build.json")))


if __name__ == "__main__":
    f = Facts(sys.argv[1] if len(sys.argv) > 1 else "/repo")
    f.ensure()
    print(f.dir)
