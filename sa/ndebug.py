"""NDEBUG invariance: compiling assertions out must not change what a function *does*.  For every function a property's
rules inspected, the multiset of its effects - calls to functions defined outside the library and writes / atomic
updates, keyed by callee or access path - is compared between the build as configured (assertions on) and a second build
of the same tree with -DNDEBUG.  urcu_posix_assert() turns into an unevaluated sizeof under NDEBUG, so a lock, an
unlock, a store or a system call written inside an asserted expression silently disappears from applications (and
distribution builds) compiled with NDEBUG while every rule evaluated on the assertion-enabled build still passes."""
import collections
import os
import re

from . import ir, mm

# side-effect-free externals: asserting on their result is legitimate, their disappearance under NDEBUG changes nothing
PURE = ("pthread_equal", "pthread_self", "strcmp", "strncmp", "strlen", "memcmp", "sysconf", "getpid", "gettid", "sched_getcpu")
ASSERT_SIDE = ("__assert_fail", "assert", "abort", "fprintf", "strerror", "__errno_location", "perror", "exit", "_exit")


def signature(f):
    sig = collections.Counter()
    for i in f.all_insts():
        if i.op == "call" and i.callee:
            c = i.callee
            if c.startswith("llvm.") and not c.startswith(("llvm.memset", "llvm.memcpy", "llvm.memmove")):
                continue
            if c in ASSERT_SIDE or c in PURE:
                continue
            g = f.mod.fn(c)
            if g is not None and g.blocks:
                sig[("call-internal", c)] += 0        # compared through its own body
                continue
            sig[("call", c)] += 1
        elif i.op in ("store", "rmw", "cmpxchg", "asm"):
            e = mm.effect_of(i)
            if e is None or e.ap is None or not e.writes():
                continue
            base = (e.ap.get("base") or ["?"])[0]
            if base == "alloca":
                continue
            sig[("write", e.kind, re.sub(r"#\d+", "#", ir.ap_str(f, e.ap)))] += 1      # SSA numbers differ between the two builds
    return +sig


def check(ctx, rep, pid, make_ctx):
    """make_ctx(extra_defs, tag) -> Ctx of the same tree"""
    if not rep.fn_seen:
        return
    nd = make_ctx(("-DNDEBUG",), "ndebug")
    nd.facts.ensure()
    n = 0
    bad = []
    for path, name in sorted(rep.fn_seen):
        base = os.path.basename(path)
        parts = base.split(".")
        if len(parts) < 3:
            continue
        lib, mode = ".".join(parts[:-2]), parts[-2]
        try:
            f0 = ctx.mod(lib, mode).fn(name)
            f1 = nd.mod(lib, mode).fn(name)
        except Exception:
            continue
        if f0 is None or f1 is None or not f0.blocks or not f1.blocks:
            continue
        n += 1
        s0, s1 = signature(f0), signature(f1)
        if s0 != s1:
            lost = s0 - s1
            gained = s1 - s0
            bad.append((name, lib, lost, gained, f0))
    for name, lib, lost, gained, f0 in bad[:6]:
        what = "; ".join(["%d x %s" % (c, " ".join(map(str, k))) for k, c in list(lost.items())[:4]])
        whatg = "; ".join(["%d x %s" % (c, " ".join(map(str, k))) for k, c in list(gained.items())[:2]])
        rep.bad("%s.ndebug" % pid, "%s.%s" % (lib, name), "compiled with -DNDEBUG the function no longer performs: %s%s - an effect written inside an asserted expression "
                "(urcu_posix_assert is an unevaluated sizeof under NDEBUG) vanishes for every user built with NDEBUG" % (what or "-", (" (and gains: %s)" % whatg) if whatg else ""),
                [f0.rets()[0].where()] if f0.rets() else [name])
    if not bad:
        rep.ok("%s.ndebug" % pid, "effects-invariant", "%d inspected functions have the same external calls and writes with and without -DNDEBUG" % n, [])
