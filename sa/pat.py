"""Pattern helpers shared by the rule tables."""
from . import ir, mm
from .core import Broken


def eff(i):
    return mm.effect_of(i)


def field_of(i):
    e = mm.effect_of(i)
    if e is None or e.ap is None:
        return None
    return ir.ap_last_field(e.ap)


def base_global(ap):
    """name of the global the access path is rooted at (directly), else None"""
    if not ap:
        return None
    b = ap["base"]
    if b[0] == "g":
        return b[1]
    if b[0] == "ce":
        return base_global(b[1])
    return None


def full_ap_fields(ap):
    """all field steps including those of a constant-expression base"""
    if not ap:
        return []
    b = ap["base"]
    pre = full_ap_fields(b[1]) if b[0] == "ce" else []
    return pre + ir.ap_fields(ap)


def last_field(ap):
    f = full_ap_fields(ap)
    return f[-1] if f else None


def accesses(f, field=None, kinds=("load", "store", "rmw", "cmpxchg", "xchg"), glob=None, pred=None):
    """effects in f touching a type-level field ('struct.field') or a bare global"""
    out = []
    for i in f.all_insts():
        if i.op not in ("load", "store", "rmw", "cmpxchg", "asm"):
            continue
        e = mm.effect_of(i)
        if e is None or e.ap is None or e.kind not in kinds:
            continue
        if field is not None and last_field(e.ap) != field:
            continue
        if glob is not None:
            if base_global(e.ap) != glob:
                continue
            if field is None and full_ap_fields(e.ap):
                continue
        if pred is not None and not pred(e):
            continue
        out.append(e)
    return out


def loads(f, field=None, glob=None, pred=None):
    return [e.inst for e in accesses(f, field, ("load",), glob, pred)]


def stores(f, field=None, glob=None, pred=None):
    return [e.inst for e in accesses(f, field, ("store",), glob, pred)]


def writes(f, field=None, glob=None, pred=None):
    return [e.inst for e in accesses(f, field, ("store", "rmw", "cmpxchg", "xchg"), glob, pred)]


def rmws(f, field=None, glob=None, pred=None):
    return [e.inst for e in accesses(f, field, ("rmw", "cmpxchg", "xchg"), glob, pred)]


LIBC_LIKE = ("pthread_", "llvm.", "__", "sig", "mmap", "munmap", "mremap", "malloc", "calloc", "free", "poll", "abort", "syscall", "sched_", "memset", "memcpy")


def scope_names(mod):
    """every function name known to the module: defined/declared functions and the source functions
    whose bodies were inlined somewhere (from the inlinedAt chains)"""
    sn = mod.__dict__.get("_scope_names")
    if sn is None:
        sn = set(mod.functions.keys())
        for g in mod.defined():
            sn.add(g.srcname)
            for i in g.all_insts():
                if i.loc:
                    for l in i.loc:
                        sn.add(l[0])
        mod.__dict__["_scope_names"] = sn
    return sn


def _anchor_exists(mod, name):
    if name.startswith(LIBC_LIKE):
        return True
    return name in scope_names(mod)


def calls(f, name):
    out = [i for i in f.all_insts() if i.op == "call" and i.callee == name]
    if not out and not _anchor_exists(f.mod, name):
        raise Broken("anchor function %s does not exist in %s any more (renamed or removed): rule cannot be decided" % (name, f.mod.name.split("/")[-1]))
    return out


def calls_opt(f, name):
    """calls whose absence is itself the finding (no anchor-existence requirement)"""
    return [i for i in f.all_insts() if i.op == "call" and i.callee == name]


def mutex_calls(f, which, lock):
    """pthread_mutex_lock/unlock calls whose argument is the global `lock` (or field suffix)"""
    out = []
    for i in calls(f, which):
        ap = i.d["aps"][0]
        if ap is None:
            continue
        if base_global(ap) == lock and not full_ap_fields(ap):
            out.append(i)
        elif last_field(ap) == lock:
            out.append(i)
    return out


def inline_ctx(i, fname):
    """call-site chain (tuple of (caller fn, call line)) under which the copy of `fname`'s body
    containing i was inlined; None if i does not come from fname"""
    if not i.loc:
        return None
    for k, l in enumerate(i.loc):
        if l[0] == fname:
            return tuple((x[0], x[2]) for x in i.loc[k + 1:])
    return None


def from_fn(i, fname):
    if fname in i.scope_chain:
        return True
    if not _anchor_exists(i.fn.mod, fname):
        raise Broken("anchor function %s does not exist in %s any more (renamed or removed): rule cannot be decided" % (fname, i.fn.mod.name.split("/")[-1]))
    return False


def from_fn_opt(i, fname):
    """like from_fn, for helpers that legitimately do not exist in some flavors"""
    return fname in i.scope_chain


def in_root_text(i):
    """instruction written in the root function's own source text"""
    return len(i.scope_chain) == 1


def scc_of(f, pred, edge_ok=None):
    """SCCs (sets of block ids) that contain at least one instruction satisfying pred"""
    out = []
    for comp in f.sccs(edge_ok):
        for b in comp:
            if any(pred(i) for i in f.blocks[b].insts):
                out.append(comp)
                break
    return out


def scc_entries(f, comp):
    return [b for b in comp if any(p not in comp for p in f.blocks[b].pred)]


def scc_exit_targets(f, comp):
    """first instructions of blocks outside comp that are successors of comp blocks"""
    out = []
    for b in comp:
        for s in f.blocks[b].succ:
            if s not in comp:
                i = f.blocks[s].insts[0]
                if i not in out:
                    out.append(i)
    return out


def in_blocks(comp):
    return lambda i: i.blk.id in comp


def value_is(fn, v, pred, depth=8):
    return pred(ir.expr(fn, v, depth))


def is_load_expr(e, field_suffix=None, glob=None):
    if e[0] != "load":
        return False
    s = e[1]
    if field_suffix is not None and not s.endswith("." + field_suffix):
        return False
    if glob is not None and not s.startswith("@" + glob):
        return False
    return True


def branch_edges_on(f, atom_pred):
    """[(branch inst, succ block id, atom)] for every conditional edge whose atom satisfies atom_pred"""
    out = []
    for b in f.blocks:
        t = b.insts[-1]
        if t.op in ("br", "switch") and len(b.succ) >= 2:
            for s in b.succ:
                for a in ir.edge_atoms(f, b.id, s):
                    if atom_pred(a):
                        out.append((t, s, a))
    return out


def atom_mentions(a, pred):
    """does any expression in the atom satisfy pred (recursively)"""
    for x in a[1:]:
        if isinstance(x, tuple) and x and isinstance(x[0], str):
            if x[0] in ("and", "or", "nand", "nor", "eq", "ne", "ult", "uge", "ugt", "ule", "slt", "sge", "sgt", "sle", "in", "notin", "const", "?"):
                if atom_mentions(x, pred):
                    return True
            if ir.expr_contains(x, pred):
                return True
    return False


def block_edge_filter(blocked):
    """edge_ok callable that forbids (from_block_id, to_block_id) pairs in `blocked`"""
    bl = set(blocked)
    return lambda term, succ: (term.blk.id, succ) not in bl


def contra_edges(f, inst):
    """CFG edges whose condition contradicts a condition that dominates `inst` (same SSA operands, negated predicate): no feasible path that
    starts at `inst` takes them - `if (c) acquire(); ...; if (c) release();`"""
    guard = set((NEGP[a[0]], a[1], a[2]) for a in dom_leaf_atoms(f, inst) if a[0] in NEGP)
    if not guard:
        return []
    return [(t.blk.id, s_) for t, s_, a in branch_edges_on(f, lambda a: (a[0], a[1], a[2]) in guard)]


def require(cond, msg):
    if not cond:
        raise Broken(msg)


NEGP = {"eq": "ne", "ne": "eq", "ult": "uge", "uge": "ult", "ugt": "ule", "ule": "ugt", "slt": "sge", "sge": "slt", "sgt": "sle", "sle": "sgt"}


def _boolish(e):
    if e[0] == "icmp":
        return True
    if e[0] == "select":
        return all(x[0] == "c" or _boolish(x) for x in (e[2], e[3]))
    if e[0] == "bin" and e[1] in ("or", "and", "xor"):
        return _boolish(e[2]) and (_boolish(e[3]) or e[3][0] == "c")
    return False


def leaf_atoms(e, polarity, out):
    """leaf comparisons (pred, a, b) implied by boolean expression e having truth value `polarity`"""
    if e[0] == "icmp":
        pred, a, b = e[1], e[2], e[3]
        if pred in ("ne", "eq") and b == ("c", 0) and _boolish(a):
            return leaf_atoms(a, polarity if pred == "ne" else not polarity, out)
        out.append((pred if polarity else NEGP[pred], a, b))
        return
    if e[0] == "bin" and e[1] == "xor" and e[3] in (("c", 1), ("c", -1)):
        return leaf_atoms(e[2], not polarity, out)
    if e[0] == "bin" and e[1] == "or" and not polarity:
        leaf_atoms(e[2], False, out)
        leaf_atoms(e[3], False, out)
        return
    if e[0] == "bin" and e[1] == "and" and polarity and _boolish(e):
        leaf_atoms(e[2], True, out)
        leaf_atoms(e[3], True, out)
        return
    if e[0] == "select" and _boolish(e):
        # select c, K!=0, x  == c || x ; select c, x, 0 == c && x
        if not polarity and e[2][0] == "c" and e[2][1] != 0:
            leaf_atoms(e[1], False, out)
            leaf_atoms(e[3], False, out)
        elif polarity and e[3] == ("c", 0):
            leaf_atoms(e[1], True, out)
            leaf_atoms(e[2], True, out)
        elif polarity and e[2] == ("c", 0):
            # select c, 0, x == !c && x
            leaf_atoms(e[1], False, out)
            leaf_atoms(e[3], True, out)
        elif not polarity and e[3][0] == "c" and e[3][1] != 0:
            # select c, x, K!=0 == !c || x
            leaf_atoms(e[1], True, out)
            leaf_atoms(e[2], False, out)
        return


def dom_leaf_atoms(f, inst):
    """leaf comparisons implied at `inst` by all dominating conditional edges"""
    from . import ir as _ir
    out = []
    for b in f.blocks:
        t = b.insts[-1]
        if t.op != "br" or len(t.d["succ"]) != 2 or t.d["succ"][0] == t.d["succ"][1]:
            for s in b.succ if t.op == "switch" else []:
                if len(f.blocks[s].pred) == 1 and f.bdom(s, inst.blk.id):
                    out += [a for a in _ir.edge_atoms(f, b.id, s) if a[0] in NEGP]
            continue
        for k, s in enumerate(t.d["succ"]):
            if len(f.blocks[s].pred) == 1 and f.bdom(s, inst.blk.id):
                e = _ir.expr(f, t.args[0], 8)
                leaf_atoms(e if e[0] in ("icmp", "bin", "select") else ("icmp", "ne", e, ("c", 0)), k == 0, out)
    return out


def shared(fn, new_rid, keep=None):
    """run another property's rule under this property's rule id (same analysis, necessary for both properties);
    keep(result) filters the instances that matter here"""
    def run(ctx, rep):
        n0 = len(rep.results)
        try:
            fn(ctx, rep)
        finally:
            out = []
            for r in rep.results[n0:]:
                if keep is not None and not keep(r):
                    continue
                r = dict(r)
                r["key"] = r["key"].replace(r["rule"], new_rid)
                r["rule"] = new_rid
                out.append(r)
            del rep.results[n0:]
            rep.results += out
        require(out, "shared rule %s produced no instance" % new_rid)
    return run


def ap_offset(mod, ap):
    """byte offset of an access path relative to its base, from the struct layouts of the module; None when a step has an
    unknown index or the layout is not recorded"""
    import re as _re
    off = 0
    for st in ap.get("steps", []):
        mo = _re.match(r"i8\[(-?\d+)\]$", st)
        if mo:
            off += int(mo.group(1))
            continue
        mo = _re.match(r"%?(?:struct\.)?([\w.]+?)\.([\w<>]*)$", st)
        if not mo:
            return None
        sname, fld = mo.group(1), mo.group(2)
        lay = mod.structs.get(sname)
        if lay is None:
            return None
        want = "" if fld == "<anon>" else fld
        hit = [f for f in lay["fields"] if f[0] == want]
        if len(hit) != 1:
            return None
        off += hit[0][1]
    return off


def is_decrement(f, e):
    """atomic RMW that subtracts one: dec, add -1, sub 1 (whatever macro it was written with)"""
    if e.rop == "dec":
        return True
    c = ir.const_of(f, e.val) if e.val is not None else None
    if c is None:
        return False
    bits = e.bits or 64
    return (e.rop in ("add", "xadd") and (c & ((1 << bits) - 1)) == (1 << bits) - 1) or (e.rop == "sub" and c == 1)


def is_increment(f, e):
    if e.rop == "inc":
        return True
    c = ir.const_of(f, e.val) if e.val is not None else None
    return c is not None and ((e.rop in ("add", "xadd") and c == 1) or (e.rop == "sub" and c == -1))


def natural_loop(f, ph):
    """block ids of the natural loop(s) whose header holds the phi `ph`: the header plus every block that reaches one of its latches
    (incoming blocks the header dominates) without passing through the header"""
    hdr = ph.blk.id
    out = {hdr}
    work = [blk for v, blk in ph.d["inc"] if f.bdom(hdr, blk)]
    while work:
        b = work.pop()
        if b in out:
            continue
        out.add(b)
        work.extend(f.blocks[b].pred)
    return out


def counted_loops(f):
    """[(phi, inits, steps, stays)] for every loop-header phi of integer type compared in a conditional edge that stays in its natural loop:
    inits = constant (or None) per entry from outside, steps = expression per back edge, stays = [(atom, branch inst)]"""
    out = []
    for ph in f.all_insts():
        if ph.op != "phi" or not str(ph.d.get("ty", "")).startswith("i"):
            continue
        hdr = ph.blk.id
        if not any(f.bdom(hdr, blk) for v, blk in ph.d["inc"]):
            continue
        nl = natural_loop(f, ph)
        stays = []
        for b in nl:
            for s_ in f.blocks[b].succ:
                if s_ not in nl or len(f.blocks[b].succ) < 2:
                    continue
                for a in ir.edge_atoms(f, b, s_):
                    if len(a) == 3 and (a[1] == ("phi", ph.id) or a[2] == ("phi", ph.id)):
                        stays.append((a, f.blocks[b].insts[-1]))
        if not stays:
            continue
        inits = [ir.const_of(f, v) for v, blk in ph.d["inc"] if not f.bdom(hdr, blk)]
        steps = [ir.expr(f, v, 3) for v, blk in ph.d["inc"] if f.bdom(hdr, blk)]
        out.append((ph, inits, steps, stays))
    return out
