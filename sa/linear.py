"""Linear normal form of integer expressions: {term: coefficient} with the constant under key 1.  Terms are the non-arithmetic
sub-expressions (loads keyed by their access path, arguments, calls).  Two expressions with the same normal form are equal for
every value of their terms (modulo 2^64, which add/sub/mul/shl respect); nothing is executed."""
from . import ir


def _term(e):
    if e[0] == "load":
        return ("ld", e[1])          # loads of one location inside one critical section: one value
    return ("t", ir.expr_str(e))


def norm(e):
    """-> dict or None when the expression is not linear"""
    k = e[0]
    if k == "c":
        return {1: e[1]} if e[1] else {}
    if k in ("zext", "sext", "trunc", "cast") and len(e) >= 2 and isinstance(e[-1], tuple):
        return norm(e[-1])
    if k == "bin":
        op, a, b = e[1], e[2], e[3]
        if op in ("add", "sub"):
            x, y = norm(a), norm(b)
            if x is None or y is None:
                return None
            out = dict(x)
            for t, c in y.items():
                out[t] = out.get(t, 0) + (c if op == "add" else -c)
            return {t: c for t, c in out.items() if c}
        if op in ("mul", "shl"):
            x, y = norm(a), norm(b)
            if x is None or y is None:
                return None
            if op == "shl":
                if set(y) - {1}:
                    if not (set(x) - {1}):       # k << n  =  k * (1 << n)
                        return {_term(("bin", "shl", ("c", 1), b)): x.get(1, 0)} if x.get(1, 0) else {}
                    return {_term(e): 1}
                f = 1 << y.get(1, 0)
                return {t: c * f for t, c in x.items() if c * f}
            if not (set(y) - {1}):
                f = y.get(1, 0)
                return {t: c * f for t, c in x.items() if c * f}
            if not (set(x) - {1}):
                f = x.get(1, 0)
                return {t: c * f for t, c in y.items() if c * f}
            return {_term(e): 1}
    return {_term(e): 1}


def sub(x, y):
    out = dict(x)
    for t, c in y.items():
        out[t] = out.get(t, 0) - c
    return {t: c for t, c in out.items() if c}


def show(x):
    if x is None:
        return "?"
    return " + ".join("%s*%s" % (c, t[1] if isinstance(t, tuple) else "1") for t, c in sorted(x.items(), key=str)) or "0"
