"""Acyclic path enumeration with per-path phi resolution (ATOMS rules)."""
from . import ir
from .core import Broken


def enum_paths(f, start_blk=0, stop=None, limit=512):
    """All acyclic block paths from start_blk to a block ending in `ret` (or satisfying stop(blk)).
    Paths ending in unreachable / noreturn are dropped."""
    out = []
    stack = [(start_blk, [start_blk])]
    while stack:
        b, path = stack.pop()
        blk = f.blocks[b]
        t = blk.insts[-1]
        if stop is not None and stop(blk) and len(path) > 0 and (len(path) > 1 or stop(blk)):
            out.append(path)
            if len(out) > limit:
                raise Broken("more than %d paths in %s" % (limit, f.name))
            continue
        if t.op == "ret":
            out.append(path)
            if len(out) > limit:
                raise Broken("more than %d paths in %s" % (limit, f.name))
            continue
        for s in blk.succ:
            if s in path:
                continue
            stack.append((s, path + [s]))
    return out


def path_atoms(f, path):
    atoms = []
    for a, b in zip(path, path[1:]):
        atoms += [resolve_atom(f, x, path) for x in ir.edge_atoms(f, a, b, depth=0)]
    # depth=0 atoms are useless; recompute with path-aware exprs
    atoms = []
    for a, b in zip(path, path[1:]):
        atoms += edge_atoms_on_path(f, a, b, path)
    return atoms


def expr_on_path(f, v, path, depth=8):
    """like ir.expr but phis are resolved along `path` (list of block ids)"""
    v = ir.strip_casts(f, v)
    if v[0] != "i":
        return ir.expr(f, v, depth)
    i = f.insts[v[1]]
    if depth <= 0:
        return ("deep", i.id)
    if i.op == "phi":
        if i.blk.id in path:
            k = path.index(i.blk.id)
            if k > 0:
                pred = path[k - 1]
                for val, blk in i.d["inc"]:
                    if blk == pred:
                        return expr_on_path(f, val, path[:k], depth - 1)
        return ("phi", i.id)
    if i.op == "bin":
        return ("bin", i.d["bop"], expr_on_path(f, i.args[0], path, depth - 1), expr_on_path(f, i.args[1], path, depth - 1))
    if i.op == "icmp":
        return ("icmp", i.d["pred"], expr_on_path(f, i.args[0], path, depth - 1), expr_on_path(f, i.args[1], path, depth - 1))
    if i.op == "select":
        return ("select", expr_on_path(f, i.args[0], path, depth - 1), expr_on_path(f, i.args[1], path, depth - 1), expr_on_path(f, i.args[2], path, depth - 1))
    return ir.expr(f, v, depth)


def _atom_from_expr(e, polarity):
    """turn an i1 expression tree into an atom"""
    if e[0] == "icmp":
        pred, a, b = e[1], e[2], e[3]
        # (icmp ne (icmp ...), 0)
        if b == ("c", 0) and pred in ("ne", "eq") and a[0] in ("icmp",):
            return _atom_from_expr(a, polarity if pred == "ne" else not polarity)
        if b == ("c", 0) and pred in ("ne", "eq") and a[0] == "bin" and a[1] == "xor" and a[3] in (("c", 1), ("c", -1)) and a[2][0] == "icmp":
            return _atom_from_expr(a[2], (not polarity) if pred == "ne" else polarity)
        if not polarity:
            pred = ir.NEG[pred]
        return (pred, a, b)
    if e[0] == "bin" and e[1] == "xor" and e[3] in (("c", 1), ("c", -1)):
        return _atom_from_expr(e[2], not polarity)
    if e[0] == "c":
        return ("const", bool(e[1]) == polarity)
    return ("ne" if polarity else "eq", e, ("c", 0))


def edge_atoms_on_path(f, a, b, path):
    t = f.blocks[a].insts[-1]
    k = path.index(a)
    sub = path[:k + 1]
    if t.op == "br" and len(t.d["succ"]) == 2:
        s = t.d["succ"]
        if s[0] == s[1]:
            return []
        e = expr_on_path(f, t.args[0], sub)
        return [_atom_from_expr(e, b == s[0])]
    if t.op == "switch":
        e = expr_on_path(f, t.args[0], sub)
        vals = [c[0] for c in t.d["cases"] if c[1] == b]
        if b == t.d["default"]:
            return [("notin", e, tuple(c[0] for c in t.d["cases"] if c[1] != b))]
        if len(vals) == 1:
            return [("eq", e, ("c", vals[0]))]
        return [("in", e, tuple(vals))]
    return []


def resolve_atom(f, a, path):
    return a


def expand_selects(atoms, val, limit=16):
    """[(atoms, value)] with top-level selects in value split into guarded alternatives"""
    work = [(list(atoms), val)]
    out = []
    while work:
        at, v = work.pop()
        if v[0] == "select" and len(out) + len(work) < limit:
            work.append((at + [_atom_from_expr(v[1], True)], v[2]))
            work.append((at + [_atom_from_expr(v[1], False)], v[3]))
        else:
            out.append((at, v))
    return out


def consistent(atoms):
    """False when the list contains an atom and its negation over the same SSA operands
    (the same loaded value tested twice): such a path is infeasible."""
    seen = set()
    for a in atoms:
        if a[0] in ir.NEG and len(a) == 3:
            if (ir.NEG[a[0]], a[1], a[2]) in seen:
                return False
            seen.add((a[0], a[1], a[2]))
    return True


def ret_cases(f, limit=256):
    """[(path, atoms, retval_expr)] over all acyclic returning paths, selects expanded;
    paths testing the same SSA value both ways are dropped as infeasible"""
    out = []
    for p in enum_paths(f, limit=limit):
        at = path_atoms(f, p)
        if not consistent(at):
            continue
        r = f.blocks[p[-1]].insts[-1]
        if r.op != "ret":
            continue
        if r.args:
            v = expr_on_path(f, r.args[0], p)
            for a2, v2 in expand_selects(at, v):
                out.append((p, a2, v2))
        else:
            out.append((p, at, None))
    return out


def simplify_atoms(atoms):
    """drop constant-true atoms; return None if a constant-false atom makes the path infeasible"""
    out = []
    for a in atoms:
        if a[0] == "const":
            if not a[1]:
                return None
            continue
        out.append(a)
    return out
