"""Per-flavor anchors (names filled from the repository, see DESIGN §3 notation)."""


class Flavor:
    def __init__(self, **kw):
        self.__dict__.update(kw)


FL = {
    "memb": Flavor(name="memb", lib="memb", pfx="urcu_memb", rfield="urcu_reader.ctr", rstruct="urcu_reader",
                   gp="urcu_memb_gp", gpctr="urcu_gp.ctr", futex="urcu_gp.futex", reader="urcu_memb_reader",
                   classify="urcu_common_reader_state", has_memb="urcu_memb_has_sys_membarrier",
                   slave="urcu_memb_smp_mb_slave", parity=True, src="src/urcu.c"),
    "mb": Flavor(name="mb", lib="mb", pfx="urcu_mb", rfield="urcu_reader.ctr", rstruct="urcu_reader",
                 gp="urcu_mb_gp", gpctr="urcu_gp.ctr", futex="urcu_gp.futex", reader="urcu_mb_reader",
                 classify="urcu_common_reader_state", has_memb=None, slave=None, parity=True, src="src/urcu.c"),
    "bp": Flavor(name="bp", lib="bp", pfx="urcu_bp", rfield="urcu_bp_reader.ctr", rstruct="urcu_bp_reader",
                 gp="urcu_bp_gp", gpctr="urcu_bp_gp.ctr", futex=None, reader="urcu_bp_reader",
                 classify="urcu_bp_reader_state", has_memb="urcu_bp_has_sys_membarrier",
                 slave="urcu_bp_smp_mb_slave", parity=True, src="src/urcu-bp.c"),
    "qsbr": Flavor(name="qsbr", lib="qsbr", pfx="urcu_qsbr", rfield="urcu_qsbr_reader.ctr", rstruct="urcu_qsbr_reader",
                   gp="urcu_qsbr_gp", gpctr="urcu_gp.ctr", futex="urcu_gp.futex", reader="urcu_qsbr_reader",
                   classify="urcu_qsbr_reader_state", has_memb=None, slave=None, parity=False, src="src/urcu-qsbr.c"),
}
PARITY = ("memb", "mb", "bp")
ALL = ("memb", "mb", "qsbr", "bp")
