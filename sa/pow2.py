"""T9 abstract value analysis: Pow2 / Pow2OrZero / Any over SSA values, with refinement from
dominating branch guards, select conditions and field assume/guarantee (DESIGN §3 C09.pow2)."""
from . import ir, mm, pat

P, PZ, ANY, BOT = "Pow2", "Pow2OrZero", "Any", "Bottom"
ORDER = {BOT: 0, P: 1, PZ: 2, ANY: 3}


def join(a, b):
    return a if ORDER[a] >= ORDER[b] else b


def same_val(f, a, b):
    return ir.strip_casts(f, a) == ir.strip_casts(f, b)


def _is_x_minus_1(f, v, x):
    v = ir.strip_casts(f, v)
    if v[0] != "i":
        return False
    i = f.insts[v[1]]
    if i.op == "bin" and i.d["bop"] == "add" and ir.const_of(f, i.args[1]) == -1 and same_val(f, i.args[0], x):
        return True
    if i.op == "bin" and i.d["bop"] == "sub" and ir.const_of(f, i.args[1]) == 1 and same_val(f, i.args[0], x):
        return True
    return False


def cond_facts(f, cond, polarity, x):
    """facts about SSA value x implied by i1 value `cond` being `polarity`: set of {'pow2z','nonzero'}"""
    facts = set()
    c = ir.strip_casts(f, cond)
    if c[0] != "i":
        return facts
    i = f.insts[c[1]]
    if i.op == "bin" and i.d["bop"] == "xor" and ir.const_of(f, i.args[1]) in (1, -1):
        return cond_facts(f, i.args[0], not polarity, x)
    if i.op == "bin" and i.d.get("ty") == "i1" and ((i.d["bop"] == "and" and polarity) or (i.d["bop"] == "or" and not polarity)):
        return cond_facts(f, i.args[0], polarity, x) | cond_facts(f, i.args[1], polarity, x)
    if i.op == "select" and i.d.get("ty") == "i1":
        # select c, t, false  == c && t ;  select c, true, e == c || e
        if polarity and ir.const_of(f, i.args[2]) == 0:
            return cond_facts(f, i.args[0], True, x) | cond_facts(f, i.args[1], True, x)
        if not polarity and ir.const_of(f, i.args[1]) in (1, -1):
            return cond_facts(f, i.args[0], False, x) | cond_facts(f, i.args[2], False, x)
        # select c, t, true == !c || t : false means c && !t ;  select c, false, e == !c && e : true means !c && e
        if not polarity and ir.const_of(f, i.args[2]) in (1, -1):
            return cond_facts(f, i.args[0], True, x) | cond_facts(f, i.args[1], False, x)
        if polarity and ir.const_of(f, i.args[1]) == 0:
            return cond_facts(f, i.args[0], False, x) | cond_facts(f, i.args[2], True, x)
        return facts
    if i.op != "icmp":
        return facts
    pred = i.d["pred"] if polarity else ir.NEG[i.d["pred"]]
    a, b = i.args
    ca, cb = ir.const_of(f, a), ir.const_of(f, b)
    # nested (icmp ne (icmp..), 0)
    sa_ = ir.strip_casts(f, a)
    if cb == 0 and pred in ("ne", "eq") and sa_[0] == "i" and f.insts[sa_[1]].op == "icmp":
        return cond_facts(f, sa_, pred == "ne", x)
    # x & (x-1) == 0
    if cb == 0 and pred == "eq" and sa_[0] == "i":
        ai = f.insts[sa_[1]]
        if ai.op == "bin" and ai.d["bop"] == "and":
            l, r = ai.args
            if (same_val(f, l, x) and _is_x_minus_1(f, r, x)) or (same_val(f, r, x) and _is_x_minus_1(f, l, x)):
                facts.add("pow2z")
    # nonzero
    if same_val(f, a, x):
        if pred == "ne" and cb == 0:
            facts.add("nonzero")
        if pred == "ugt":
            facts.add("nonzero")
        if pred == "uge" and cb is not None and cb >= 1:
            facts.add("nonzero")
        if pred == "eq" and cb is not None and cb != 0:
            facts.add("nonzero")
    if same_val(f, b, x):
        if pred == "ne" and ca == 0:
            facts.add("nonzero")
        if pred == "ult":
            facts.add("nonzero")
        if pred == "ule" and ca is not None and ca >= 1:
            facts.add("nonzero")
    return facts


def dominating_facts(f, x, at):
    """facts about x from conditional edges that dominate instruction `at`"""
    facts = set()
    for b in f.blocks:
        t = b.insts[-1]
        if t.op != "br" or len(t.d["succ"]) != 2 or t.d["succ"][0] == t.d["succ"][1]:
            continue
        for k, s in enumerate(t.d["succ"]):
            if len(f.blocks[s].pred) != 1:
                continue
            if not f.bdom(s, at.blk.id):
                continue
            facts |= cond_facts(f, t.args[0], k == 0, x)
    return facts


def refine(val, facts):
    if val == ANY and "pow2z" in facts:
        val = PZ
    if val == PZ and "nonzero" in facts:
        val = P
    return val


class Analysis:
    def __init__(self, mod, ag_fields, arg_policy="any"):
        """ag_fields: type-level fields whose loads take the join of all stores (assume/guarantee)."""
        self.mod = mod
        self.ag_fields = set(ag_fields)
        self.memo = {}
        self.field_memo = {}
        self.notes = []

    def field_value(self, field):
        if field in self.field_memo:
            return self.field_memo[field]
        self.field_memo[field] = BOT  # coinductive assumption while computing
        val = BOT
        for f in self.mod.defined():
            if not is_root(self.mod, f):
                continue
            for e in pat.accesses(f, field, ("store", "rmw", "cmpxchg", "xchg")):
                v = e.val if e.kind in ("store", "xchg") else (e.new if e.kind == "cmpxchg" else None)
                if v is None:
                    val = ANY
                    continue
                val = join(val, self.value(f, v, e.inst))
        if val == BOT:
            val = ANY
        self.field_memo[field] = val
        return val

    def callsites(self, f):
        """[(caller, call inst)] if every use of f is a direct call or a function-pointer table slot
        whose indirect call sites are all known; None if f is externally visible or escapes."""
        key = ("cs", f.name)
        if key in self.memo:
            return self.memo[key]
        res = None
        if f.linkage == "internal":
            sites = [(c.fn, c) for c in self.mod.callers(f.name) if is_root(self.mod, c.fn)]
            fields, escapes = slots_of(self.mod, f.name)
            if not escapes:
                for g in self.mod.defined():
                    if not is_root(self.mod, g):
                        continue
                    for i in g.all_insts():
                        if i.op == "icall":
                            fp = g.inst_of(ir.strip_casts(g, i.d["fp"]))
                            if fp is not None and fp.op == "load" and pat.last_field(fp.d["ap"]) in fields:
                                sites.append((g, i))
                res = sites
        self.memo[key] = res
        return res

    def value(self, f, v, at, depth=24, seen=frozenset()):
        """abstract value of SSA value v as observed at instruction `at`"""
        v0 = v
        v = ir.strip_casts(f, v)
        if v[0] in ("cast",):
            return ANY
        res = self._value(f, v, at, depth, seen)
        if res in (ANY, PZ) and v[0] in ("i", "a"):
            res = refine(res, dominating_facts(f, v, at))
        return res

    def _value(self, f, v, at, depth, seen):
        k = v[0]
        if k == "c":
            c = v[1]
            if c < 0:
                c += 1 << 64
            if c == 0:
                return PZ
            if c > 0 and c & (c - 1) == 0:
                return P
            return ANY
        if k == "a":
            sites = self.callsites(f)
            if sites is None:
                return ANY  # public entry point / escaping callback: caller-controlled
            if ("arg", f.name, v[1]) in seen:
                return BOT
            val = BOT
            for cf, ci in sites:
                if v[1] >= len(ci.args):
                    return ANY
                val = join(val, self.value(cf, ci.args[v[1]], ci, depth - 1, seen | {("arg", f.name, v[1])}))
            return ANY if val == BOT else val
        if k != "i":
            return ANY
        i = f.insts[v[1]]
        if depth <= 0 or i.id in seen:
            return BOT if i.id in seen else ANY
        seen = seen | {i.id}
        op = i.op
        if op == "load":
            fld = pat.last_field(i.d["ap"])
            if fld in self.ag_fields:
                return self.field_value(fld)
            return ANY
        if op == "bin":
            bop = i.d["bop"]
            if bop == "shl":
                if ir.const_of(f, i.args[0]) == 1:
                    return P  # 1 << order (order < word size: trusted, DESIGN C09 trusted summary)
                a = self.value(f, i.args[0], at, depth - 1, seen)
                if a in (P, PZ):
                    return PZ
                return ANY
            if bop == "lshr":
                a = self.value(f, i.args[0], at, depth - 1, seen)
                if a in (P, PZ):
                    return PZ
                return ANY
            return ANY
        if op == "select":
            c, a, b = i.args
            va = self.value(f, a, at, depth - 1, seen)
            vb = self.value(f, b, at, depth - 1, seen)
            va = refine(va, cond_facts(f, c, True, ir.strip_casts(f, a)))
            vb = refine(vb, cond_facts(f, c, False, ir.strip_casts(f, b)))
            return join(va, vb)
        if op == "phi":
            val = BOT
            for inc, blk in i.d["inc"]:
                term = f.blocks[blk].insts[-1]
                x = self.value(f, inc, term, depth - 1, seen)
                # edge-specific facts: the edge blk -> phi block
                sv = ir.strip_casts(f, inc)
                if x in (ANY, PZ) and term.op == "br" and len(term.d["succ"]) == 2 and term.d["succ"][0] != term.d["succ"][1]:
                    x = refine(x, cond_facts(f, term.args[0], term.d["succ"][0] == i.blk.id, sv))
                val = join(val, x)
            return ANY if val == BOT else val
        if op in ("cmpxchg", "rmw", "asm", "extractvalue"):
            # value read back from memory: the field's guarantee applies when it is an AG field
            src = i
            if op == "extractvalue":
                s = ir.strip_casts(f, i.args[0])
                if s[0] == "i":
                    src = f.insts[s[1]]
            e = mm.effect_of(src) if src.op in ("cmpxchg", "rmw", "asm") else None
            if e is not None and e.ap is not None and e.kind in ("cmpxchg", "xchg") and pat.last_field(e.ap) in self.ag_fields:
                return self.field_value(pat.last_field(e.ap))
            return ANY
        return ANY


def is_root(mod, f):
    """function whose body is really executed as written: external linkage, or address-taken,
    or still called somewhere (not a dead post-inlining copy)."""
    if f.linkage != "internal":
        return True
    if mod.callers(f.name):
        return True
    return f.name in address_taken(mod)


def address_taken(mod):
    at = mod.__dict__.get("_addr_taken")
    if at is not None:
        return at
    at = set()

    def scan(v):
        if isinstance(v, list):
            if len(v) == 2 and v[0] == "f" and isinstance(v[1], str):
                at.add(v[1])
            for x in v:
                scan(x)
        elif isinstance(v, dict):
            for x in v.values():
                scan(x)
    for g in mod.globals.values():
        scan(g.get("init"))
    for f in mod.defined():
        for i in f.all_insts():
            for a in i.args:
                scan(a)
            if i.op == "phi":
                scan(i.d["inc"])
    mod.__dict__["_addr_taken"] = at
    return at


def slots_of(mod, fname):
    """(set of 'struct.field' slots holding &fname in global initialisers, escapes?)"""
    fields = set()
    escapes = False

    def scan(c):
        if isinstance(c, list) and c and c[0] == "struct":
            for fld, sub in c[2]:
                if sub == ["f", fname] or (isinstance(sub, list) and len(sub) == 2 and sub[0] == "ce" and sub[1].get("base") == ["f", fname]):
                    fields.add(fld)
                else:
                    scan(sub)
        elif isinstance(c, list) and c and c[0] == "array":
            for sub in c[1]:
                scan(sub)
    for g in mod.globals.values():
        scan(g.get("init"))
    ref = ["f", fname]
    for f in mod.defined():
        for i in f.all_insts():
            for a in i.args:
                if a == ref or (isinstance(a, list) and a and a[0] == "ce" and a[1].get("base") == ref):
                    escapes = True
            if i.op == "phi":
                for x in i.d["inc"]:
                    if x[0] == ref:
                        escapes = True
    return fields, escapes
