"""Agreement of the compatibility-name tables (include/urcu/map/*.h): callers written against the flavor-less / legacy names (`rcu_read_lock`,
`rcu_bp_after_fork_child`, `call_rcu_before_fork_bp`, ...) are redirected by object-like macros to the prefixed functions.  The tables are
read from the preprocessor (`clang -E -dM` on each map header of /repo's current tree), not from the text: every alias and its target name the
same operation - same name tokens once the flavor tokens are removed.  An alias that points at a sibling (`..._after_fork_child` ->
`..._after_fork_parent`) compiles, links and passes every test that uses the canonical names."""
import glob
import os
import re
import subprocess

from .core import Broken

FLAVOR_TOKENS = {"rcu", "urcu", "bp", "memb", "mb", "qsbr", "signal", "sym"}


def table(repo, header):
    inc = os.path.join(repo, "include")
    p = subprocess.run(["clang", "-E", "-dM", "-I", inc, header], stdout=subprocess.PIPE, stderr=subprocess.PIPE, universal_newlines=True)
    if p.returncode != 0:
        raise Broken("clang -E -dM failed on %s: %s" % (header, p.stderr.strip()[-200:]))
    base = subprocess.run(["clang", "-E", "-dM", "-x", "c", "/dev/null"], stdout=subprocess.PIPE, universal_newlines=True).stdout
    predefined = set(l.split()[1] for l in base.split("\n") if l.startswith("#define "))
    out = []
    for l in p.stdout.split("\n"):
        m = re.match(r"#define\s+([A-Za-z_]\w*)\s+([A-Za-z_]\w*)\s*$", l)
        if m and m.group(1) not in predefined and not m.group(1).startswith("_URCU") and not m.group(1).isupper():
            out.append(m.groups())
    return out


def rule_aliasmap(ctx, rep, rid, keep=None):
    hs = sorted(glob.glob(os.path.join(ctx.repo, "include", "urcu", "map", "urcu-*.h")))      # one table per flavor (urcu.h only selects one of them, clear.h undefines)
    if len(hs) < 4:
        raise Broken("only %d map headers" % len(hs))
    tot = 0
    for h in hs:
        tb = table(ctx.repo, h)
        if keep is not None:
            tb = [(a, t) for a, t in tb if keep(a) or keep(t)]
        tot += len(tb)
        bad = []
        for a, t in tb:
            ta = sorted(x for x in a.split("_") if x and x not in FLAVOR_TOKENS)
            tt = sorted(x for x in t.split("_") if x and x not in FLAVOR_TOKENS)
            if ta != tt:
                bad.append((a, t))
        name = os.path.basename(h)
        if not tb:
            continue
        rep.check(not bad, rid, "map." + name, "%d compatibility names of %s each point at the function of the same name" % (len(tb), name),
                  "compatibility name %s expands to %s, a different operation: callers using the legacy spelling silently run the sibling function" % (bad[0] if bad else ("", "")),
                  ["include/urcu/map/%s (%s -> %s)" % (name, a, t) for a, t in bad[:3]])
    if tot < (300 if keep is None else 6):
        raise Broken("%s: only %d compatibility names read from the map headers" % (rid, tot))
