"""T10 typestate for register/unregister pairs: every `field == const` asserted by the register
function must be re-established on every returning path of the matching unregister function
whenever some function in the library stores another value to that field."""
from . import ir, mm, pat, pow2
from .core import Broken


def _dead_end_assert(f, blk):
    seen, st = set(), [blk]
    found = False
    while st:
        b = st.pop()
        if b.id in seen:
            continue
        seen.add(b.id)
        if len(seen) > 8:
            return False
        t = b.insts[-1]
        if t.op == "ret":
            return False
        for i in b.insts:
            if i.op == "call" and i.callee in ("__assert_fail", "abort") and i.d.get("noreturn"):
                found = True
        for s in b.succ:
            st.append(f.blocks[s])
    return found


def asserted(f):
    """[(atom, branch inst)] for conditions whose failure leads only to __assert_fail"""
    out = []
    for b in f.blocks:
        t = b.insts[-1]
        if t.op != "br" or len(t.d["succ"]) != 2 or t.d["succ"][0] == t.d["succ"][1]:
            continue
        s0, s1 = t.d["succ"]
        for bad, good in ((s0, s1), (s1, s0)):
            if _dead_end_assert(f, f.blocks[bad]) and not _dead_end_assert(f, f.blocks[good]):
                # only genuine assert(): the failing block calls __assert_fail (urcu_die paths are error handling)
                if any(i.op == "call" and i.callee == "__assert_fail" for i in f.blocks[bad].insts):
                    for a in ir.edge_atoms(f, b.id, good):
                        out.append((a, t))
    return out


def check_regpair(ctx, rep, rule, instance, lib, regname, unregname):
    m = ctx.mod(lib, "flat")
    reg, unreg = m.fn(regname), m.fn(unregname)
    if reg is None or unreg is None:
        raise Broken("%s: %s/%s vanished" % (instance, regname, unregname))
    rep.touch(reg)
    rep.touch(unreg)
    n = 0
    for a, t in asserted(reg):
        if not (a[0] == "eq" and a[1][0] == "load" and a[2][0] == "c"):
            continue
        apstr, C = a[1][1], a[2][1]
        ld = reg.insts[a[1][3]]
        fld = pat.last_field(ld.d["ap"])
        if fld is None:
            continue
        n += 1
        dirty = []
        for g in m.defined():
            if not pow2.is_root(m, g):
                continue
            for e in pat.accesses(g, fld, ("store", "rmw", "cmpxchg", "xchg")):
                v = ir.const_of(g, e.val) if e.val is not None else None
                if v != C:
                    dirty.append(e.inst)
        inst = "%s.%s==%d" % (instance, fld, C)
        if not dirty:
            rep.ok(rule, inst, "asserted at registration; no function stores another value", [t.where()])
            continue
        resets = [e.inst for e in pat.accesses(unreg, fld, ("store",)) if ir.const_of(unreg, e.val) == C and ir.ap_str(unreg, e.ap) == apstr]
        hit, parent = unreg.reach([unreg.entry()], None, avoid=lambda i: i in resets, stop_at_exit=True, include_start=True)
        if hit is None and resets:
            rep.ok(rule, inst, "asserted at registration and re-established on every path of %s" % unregname, [t.where(), resets[0].where()])
        else:
            w = dirty[0]
            rep.bad(rule, inst, "%s asserts %s == %d, but %s stores another value (%s) and %s does not reset it on every path: "
                    "registering again after that aborts" % (regname, apstr, C, w.origin_fn, ir.expr_str(ir.expr(w.fn, mm.effect_of(w).val, 4)) if mm.effect_of(w).val else "rmw", unregname),
                    [t.where(), w.where()], key="%s:%s.%s" % (rule, regname.split("_", 2)[-1], fld))
    if n == 0:
        raise Broken("%s: no `field == const` assertion found in %s" % (instance, regname))
