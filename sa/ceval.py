"""Evaluation of branch atoms / value expressions over *representative values* of a few opaque terms (results of a
system call, a loaded flag).  Used by decision-table rules whose classes are bit patterns rather than (in)equalities:
every opaque term ranges over a finite set of representatives chosen by the rule, the atoms of a path are evaluated
under each assignment.  Nothing of the program is executed - only the predicates found on CFG edges are evaluated.
Unknown sub-expressions make the result None (the rule then reports inconclusive)."""

M64 = (1 << 64) - 1


def _s(x, bits=64):
    x &= (1 << bits) - 1
    return x - (1 << bits) if x >> (bits - 1) else x


def val(e, env):
    """env: {key(e): int}; key = ('call', name, id) / ('load', ap) / ('arg', k)"""
    k = e[0]
    if k == "c":
        return int(e[1])
    if k == "call":
        return env.get(("call", e[1], e[2]))
    if k == "load":
        return env.get(("load", e[1]))
    if k == "arg":
        return env.get(e)
    if k == "addr":
        if e in env:
            return env[e]
        import zlib
        return 0x7f0000000000 + (zlib.crc32(e[1].encode()) << 4)      # distinct, non-zero, aligned: only (in)equality is meaningful
    if k == "phi":
        return env.get(e)
    if k in ("zext", "sext", "trunc", "cast") and isinstance(e[-1], tuple):
        return val(e[-1], env)
    if k == "icmp":
        t = cmp(e[1], val(e[2], env), val(e[3], env))
        return None if t is None else int(t)
    if k == "select":
        c = truth_expr(e[1], env)
        if c is None:
            return None
        return val(e[2] if c else e[3], env)
    if k == "bin":
        a, b = val(e[2], env), val(e[3], env)
        if a is None or b is None:
            return None
        op = e[1]
        if op == "and":
            return a & b
        if op == "or":
            return a | b
        if op == "xor":
            return a ^ b
        if op == "add":
            return a + b
        if op == "sub":
            return a - b
        if op == "mul":
            return a * b
        if op == "shl":
            return a << b if 0 <= b < 64 else None
        if op == "lshr":
            return (a & M64) >> b if 0 <= b < 64 else None
        if op == "ashr":
            return a >> b if 0 <= b < 64 else None
        return None
    return None


def cmp(pred, a, b):
    if a is None or b is None:
        return None
    if pred == "eq":
        return a == b
    if pred == "ne":
        return a != b
    if pred[0] == "s":
        a, b = _s(a), _s(b)
    else:
        a, b = a & M64, b & M64
    return {"lt": a < b, "le": a <= b, "gt": a > b, "ge": a >= b}[pred[1:]]


def truth_expr(e, env):
    v = val(e, env)
    return None if v is None else v != 0


def truth(a, env):
    """atom -> True / False / None"""
    k = a[0]
    if k == "const":
        return bool(a[1])
    if k in ("and", "or", "nand", "nor"):
        x, y = truth(a[1], env), truth(a[2], env)
        if x is None or y is None:
            return None
        r = (x and y) if k in ("and", "nand") else (x or y)
        return (not r) if k in ("nand", "nor") else r
    if k in ("in", "notin"):
        v = val(a[1], env)
        if v is None:
            return None
        return (v in a[2]) == (k == "in")
    if k == "?":
        return None
    return cmp(k, val(a[1], env), val(a[2], env))
