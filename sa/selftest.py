"""Checker self-test: apply single-site source edits to scratch copies of the repository and
require that mutants make the named rule report a violation and that benign edits stay silent."""
import importlib
import io
import os
import shutil
import subprocess
import sys
import tempfile
from concurrent.futures import ProcessPoolExecutor

from . import core

VERIF = os.path.dirname(os.path.dirname(os.path.abspath(__file__)))


def make_copy(repo="/repo"):
    d = tempfile.mkdtemp(prefix="urcu-selftest-")
    subprocess.run(["rsync", "-a", "--exclude", ".git", "--exclude", "tests", "--exclude", "doc", "--exclude", "*.o",
                    "--exclude", "*.lo", "--exclude", ".libs", "--exclude", "*.la", "--exclude", "autom4te.cache",
                    repo + "/", d + "/"], check=True)
    return d


def apply_edit(d, seed):
    """seed['edits'] = [(relpath, old, new)], each old must occur exactly once (or seed count);
    or seed['patch'] = path of a unified diff applied with patch -p1."""
    if "patch" in seed:
        r = subprocess.run(["patch", "-p1", "-s", "-i", seed["patch"]], cwd=d, capture_output=True, text=True)
        return None if r.returncode == 0 else "patch does not apply: " + (r.stdout + r.stderr)[-160:]
    for rel, old, new in seed["edits"]:
        p = os.path.join(d, rel)
        s = open(p).read()
        n = s.count(old)
        if n != seed.get("count", 1):
            return "anchor text occurs %d times in %s (expected %d)" % (n, rel, seed.get("count", 1))
        s = s.replace(old, new)
        open(p, "w").write(s)
    return None


def run_seed(seed):
    d = make_copy()
    core.clear_ctx_cache()      # scratch copies are one-shot: never reuse a context across them
    try:
        err = apply_edit(d, seed)
        if err:
            return seed["id"], "skipped", err
        out = io.StringIO()
        mod = importlib.import_module("sa.rules." + seed["prop"].lower())
        code, results = core.run_property(seed["prop"], mod, repo=d, tier="quick", out=out, write_evidence=False)
        fired = sorted(set(r["rule"] for r in results if r["status"] == core.VIOLATION))
        unk = sorted(set(r["rule"] + ":" + r["msg"][:80] for r in results if r["status"] == core.INCONCLUSIVE))
        if seed["kind"] == "mutant":
            want = seed["rule"]
            if any(x == want or x.startswith(want) for x in fired):
                return seed["id"], "ok", "fired %s" % fired
            return seed["id"], "MISSED", "expected %s; fired %s; inconclusive %s; exit %d" % (want, fired, unk, code)
        else:
            if code == 0:
                return seed["id"], "ok", "silent"
            return seed["id"], "FALSE-ALARM", "fired %s inconclusive %s" % (fired, unk)
    finally:
        shutil.rmtree(d, ignore_errors=True)


def run_all(props=None, jobs=8):
    sys.path.insert(0, VERIF)
    from seeds.seeds import SEEDS
    todo = [s for s in SEEDS if props is None or s["prop"] in props]
    res = []
    with ProcessPoolExecutor(max_workers=jobs) as ex:
        for r in ex.map(run_seed, todo):
            res.append(r)
    return res


if __name__ == "__main__":
    props = sys.argv[1:] or None
    bad = 0
    for sid, st, msg in run_all(props):
        print("%-34s %-12s %s" % (sid, st, msg))
        if st not in ("ok", "skipped"):
            bad += 1
    sys.exit(1 if bad else 0)
