"""Rules for the for_each iteration macros of wfcqueue / wfstack / lfstack, instantiated in witness/wfiter.c.
Shape decided per macro: the cursor starts at first(), the body runs iff cursor != NULL, the next cursor is
next(cursor); in the _safe variants the successor is fetched *before* the body (which may free the node) and the
cursor is not used again after the body; a NULL successor is produced only for a NULL cursor."""
from . import ir, pat
from .core import Broken


def _hdr_phi(f, v):
    v = ir.strip_casts(f, v)
    if v[0] == "i" and f.insts[v[1]].op == "phi":
        return f.insts[v[1]]
    return None


def check(rep, rid, f, first, nxt, nargs, safe, lfs_field=None):
    """first/nxt: callee names (None for lfstack, which reads ->next directly); nargs: number of leading container arguments"""
    rep.touch(f)
    tag = f.name.replace("w_iter_", "")
    vis = f.calls("w_visit")
    if len(vis) != 1:
        raise Broken("%s: expected one w_visit call" % f.name)
    vis = vis[0]
    cur = _hdr_phi(f, vis.args[0])
    comps = f.sccs()
    if cur is None or len(comps) != 1 or cur.blk.id not in comps[0]:
        raise Broken("%s: cursor phi / loop not recognised" % f.name)
    comp = comps[0]
    cont = ("ne", ("phi", cur.id), ("c", 0))
    rep.check(cont in pat.dom_leaf_atoms(f, vis), rid, tag + ".body-iff-nonnull", "the body runs only for a non-NULL cursor and the loop ends at NULL",
              "body not guarded by cursor != NULL", [vis.where()])

    def is_first(e):
        if first is None:
            return e == ("addr", "arg0.%s" % lfs_field[0])
        if e[0] != "call" or e[1] != first:
            return False
        c = f.insts[e[2]]
        return [ir.expr(f, a, 2) for a in c.args[:nargs]] == [("arg", k) for k in range(nargs)]

    def is_next_of(e, node):
        """e is next(node) for cursor expression `node`"""
        if nxt is None:
            if e[0] != "load" or not e[1].endswith("." + lfs_field[1]):
                return False
            pre = e[1][:-len(lfs_field[1]) - 1]
            return pre == (node[1] if node[0] == "addr" else "phi#%d" % node[1] if node[0] == "phi" else None)
        if e[0] != "call" or e[1] != nxt:
            return False
        c = f.insts[e[2]]
        want = [("arg", k) for k in range(nargs if nxt.startswith("__cds_wfcq") else 0)] + [node]
        return [ir.expr(f, a, 2) for a in c.args] == want

    inc_out = [(ir.expr(f, v, 3), b) for v, b in cur.d["inc"] if b not in comp]
    inc_back = [(v, b) for v, b in cur.d["inc"] if b in comp]
    rep.check(len(inc_out) == 1 and is_first(inc_out[0][0]), rid, tag + ".starts-at-first", "the cursor starts at first(container)",
              "cursor starts at %s" % [ir.expr_str(e) for e, _ in inc_out], [cur.where()])
    if not safe:
        ok = len(inc_back) == 1 and is_next_of(ir.expr(f, inc_back[0][0], 3), ("phi", cur.id))
        rep.check(ok, rid, tag + ".step=next(cursor)", "each step replaces the cursor by next(cursor)",
                  "step is %s" % [ir.expr_str(ir.expr(f, v, 3)) for v, _ in inc_back], [cur.where()])
        return
    # safe variant
    nphi = _hdr_phi(f, inc_back[0][0]) if len(inc_back) == 1 else None
    if nphi is None or nphi.blk.id != cur.blk.id:
        rep.bad(rid, tag + ".step=saved-successor", "the next cursor is not the successor saved before the body: %s" % [ir.expr_str(ir.expr(f, v, 3)) for v, _ in inc_back], [cur.where()])
        return
    rep.ok(rid, tag + ".step=saved-successor", "each step replaces the cursor by the successor saved before the body ran", [cur.where()])
    # the saved successor: next(new cursor) if the new cursor is non-NULL, else NULL - computed after the body for the *next* node,
    # i.e. the node the body just saw is never touched again
    users = [u for u in f.users(cur) if u.id != vis.id and u.op not in ("icmp", "phi", "cast")]
    rep.check(not users, rid, tag + ".cursor-dead-after-body", "the cursor is not used after the body (the body may free the node)",
              "cursor used by %s besides the body: a node freed by the body is touched again" % [u.op + "@" + u.short() for u in users][:3], [u.where() for u in users[:2]])
    for v, b in nphi.d["inc"]:
        e = ir.expr(f, v, 4, through_phi=True)
        node = ir.expr(f, [x for x, bb in cur.d["inc"] if bb == b][0], 3) if b not in comp else ("phi", nphi.id)
        alts = list(e[2]) if e[0] == "phi" and len(e) > 2 and isinstance(e[2], tuple) else [e]
        good = all(a == ("c", 0) or is_next_of(a, node) for a in alts) and any(a != ("c", 0) for a in alts)
        rep.check(good, rid, tag + ".successor=next(new-cursor)@B%d" % b, "the saved successor is next(cursor) for the cursor of the coming iteration (NULL only for a NULL cursor)",
                  "saved successor is %s for cursor %s" % (ir.expr_str(e), ir.expr_str(node)), [nphi.where()])
        # the NULL alternative is taken only when that cursor is NULL
        ph = f.inst_of(ir.strip_casts(f, v))
        if ph is not None and ph.op == "phi":
            for vv, bb in ph.d["inc"]:
                if ir.const_of(f, vv) == 0:
                    t = f.blocks[bb].insts[-1]
                    atoms = []
                    if t.op == "br" and len(f.blocks[bb].succ) == 2:
                        atoms = ir.edge_atoms(f, bb, ph.blk.id)
                    okn = any(a[0] == "eq" and a[2] == ("c", 0) and a[1] == node for a in atoms)
                    rep.check(okn, rid, tag + ".null-successor-only-at-end@B%d" % bb, "a NULL successor is recorded only when the cursor itself is NULL",
                              "successor forced to NULL on %s: the walk stops early" % [ir.atom_str(a) for a in atoms], [t.where()])
