"""T5: forward must-lockset over a (flattened) function.  A lock is identified by the access
path of the mutex argument.  Calls to functions defined in the module are lock-neutral unless
listed in `summaries` ({callee: (acquired set, released set)})."""
from . import ir, pat

SIGBLOCKED = "<signals-blocked>"
LOCK_FNS = {"pthread_mutex_lock": "+", "pthread_mutex_unlock": "-"}


def lock_name(i):
    ap = i.d["aps"][0]
    if ap is None:
        return "?"
    return ir.ap_str(i.fn, ap, 3)


def transfer(i, cur, summaries):
    if i.op != "call":
        return cur
    c = i.callee
    if c == "pthread_sigmask":
        how = ir.const_of(i.fn, i.args[0])
        if how == 0 and ir.const_of(i.fn, i.args[1]) != 0:      # SIG_BLOCK with a set
            return cur | {SIGBLOCKED}
        if how == 2:                                            # SIG_SETMASK: restores the saved mask
            return cur - {SIGBLOCKED}
        return cur
    if c in LOCK_FNS:
        n = lock_name(i)
        if LOCK_FNS[c] == "+":
            return cur | {n}
        return cur - {n}
    if summaries and c in summaries:
        acq, rel = summaries[c]
        return (cur | set(acq)) - set(rel)
    return cur


def compute(f, entry=frozenset(), summaries=None):
    """returns {inst id: frozenset(locks held *before* the instruction)}"""
    TOP = None
    inb = {b.id: TOP for b in f.blocks}
    inb[0] = frozenset(entry)
    work = [0]
    outb = {}
    while work:
        b = work.pop()
        cur = set(inb[b])
        for i in f.blocks[b].insts:
            cur = set(transfer(i, cur, summaries))
        cur = frozenset(cur)
        if outb.get(b) == cur:
            continue
        outb[b] = cur
        for s in f.blocks[b].succ:
            new = cur if inb[s] is TOP else (inb[s] & cur)
            if inb[s] is TOP or new != inb[s]:
                inb[s] = new
                work.append(s)
            elif s not in outb:
                work.append(s)
    res = {}
    for b in f.blocks:
        if inb[b.id] is TOP:
            continue
        cur = set(inb[b.id])
        for i in b.insts:
            res[i.id] = frozenset(cur)
            cur = set(transfer(i, cur, summaries))
    return res


def may_compute(f, entry=frozenset(), summaries=None):
    """may-hold variant (union at joins): used for 'lock NOT held while blocking' rules"""
    inb = {b.id: None for b in f.blocks}
    inb[0] = frozenset(entry)
    work = [0]
    outb = {}
    while work:
        b = work.pop()
        cur = set(inb[b])
        for i in f.blocks[b].insts:
            cur = set(transfer(i, cur, summaries))
        cur = frozenset(cur)
        if outb.get(b) == cur:
            continue
        outb[b] = cur
        for s in f.blocks[b].succ:
            new = cur if inb[s] is None else (inb[s] | cur)
            if inb[s] is None or new != inb[s]:
                inb[s] = new
                work.append(s)
    res = {}
    for b in f.blocks:
        if inb[b.id] is None:
            continue
        cur = set(inb[b.id])
        for i in b.insts:
            res[i.id] = frozenset(cur)
            cur = set(transfer(i, cur, summaries))
    return res
