"""Memory-model table (x86-64/TSO as configured in the sandbox) and decoding of
inline asm / LLVM atomics / syscalls into uniform effects.  See DESIGN §2.2."""
import re
from . import ir


class Unknown(Exception):
    pass


class Eff:
    __slots__ = ("kind", "ap", "bits", "rop", "val", "exp", "new", "full", "compiler", "order", "inst", "locked", "memread")

    def __init__(self, inst, kind, ap=None, bits=None, rop=None, val=None, exp=None, new=None,
                 full=False, compiler=False, order=None, locked=False):
        self.inst, self.kind, self.ap, self.bits = inst, kind, ap, bits
        self.rop, self.val, self.exp, self.new = rop, val, exp, new
        self.full, self.compiler, self.order, self.locked = full, compiler, order, locked
        self.memread = None     # asm only: is the memory operand declared read-write ("+m": indirect output plus an indirect input on the same address)?

    @property
    def field(self):
        return ir.ap_last_field(self.ap)

    def writes(self):
        return self.kind in ("store", "rmw", "cmpxchg", "xchg")

    def reads(self):
        return self.kind in ("load", "rmw", "cmpxchg", "xchg")

    def is_rmw(self):
        return self.kind in ("rmw", "cmpxchg", "xchg")


SUFFIX_BITS = {"b": 8, "w": 16, "l": 32, "q": 64}

_ASM_RMW = re.compile(r"^(lock; )?(add|sub|and|or|xor|inc|dec|xadd|cmpxchg|xchg)([bwlq]) ")


def parse_constraints(cons):
    """-> (outputs, inputs, clobbers); outputs: list of (text, indirect)"""
    outs, ins, clob = [], [], []
    for c in cons.split(","):
        if c.startswith("~"):
            clob.append(c)
        elif c.startswith("=") or c.startswith("+"):
            outs.append((c, "*" in c))
        else:
            ins.append(c)
    return outs, ins, clob


def asm_operands(inst):
    """Map asm template operand numbers to call args / result.
    Returns dict: opno -> ('arg', k) | ('ret', j)"""
    outs, ins, _ = parse_constraints(inst.d["cons"])
    m = {}
    argk = 0
    retj = 0
    # LLVM orders call args: indirect outputs first (in order), then inputs
    for n, (c, ind) in enumerate(outs):
        if ind:
            m[n] = ("arg", argk)
            argk += 1
        else:
            m[n] = ("ret", retj)
            retj += 1
    tied = {}
    for n, c in enumerate(ins):
        opno = len(outs) + n
        m[opno] = ("arg", argk)
        if c.isdigit():
            tied[int(c)] = argk
        argk += 1
    return m, tied, outs, ins


def _mr(e, memread):
    e.memread = memread
    return e


def effect_of(inst):
    """Uniform effect for memory-relevant instructions; None for others."""
    op = inst.op
    d = inst.d
    if op == "load":
        o = d["order"]
        return Eff(inst, "load", d["ap"], d["bits"], order=o)
    if op == "store":
        o = d["order"]
        return Eff(inst, "store", d["ap"], d["bits"], val=inst.args[0], order=o,
                   full=(o == "seq_cst"), compiler=(o in ("release", "seq_cst", "acq_rel")))
    if op == "rmw":
        return Eff(inst, "rmw" if d["rmwop"] != "xchg" else "xchg", d["ap"], d["bits"], rop=d["rmwop"], val=inst.args[1],
                   full=True, compiler=True, order=d["order"], locked=True)
    if op == "cmpxchg":
        return Eff(inst, "cmpxchg", d["ap"], d["bits"], exp=inst.args[1], new=inst.args[2],
                   full=True, compiler=True, order=d["order"], locked=True)
    if op == "fence":
        if d["scope"] == "singlethread":
            return Eff(inst, "fence", compiler=True, order=d["order"])
        return Eff(inst, "fence", full=(d["order"] == "seq_cst"), compiler=True, order=d["order"])
    if op == "asm":
        t = d["asm"]
        cons = d["cons"]
        memclob = "~{memory}" in cons
        if t == "":
            return Eff(inst, "fence", compiler=memclob) if memclob else None
        if t == "mfence":
            return Eff(inst, "fence", full=memclob, compiler=memclob, order="mfence")
        if t in ("sfence", "lfence"):
            return Eff(inst, "fence", compiler=memclob, order=t)
        if t == "rep; nop":
            return Eff(inst, "pause", compiler=memclob)
        if t.startswith("bsr") or t.startswith("rdtsc"):
            return Eff(inst, "pure")
        m = _ASM_RMW.match(t)
        if not m:
            raise Unknown("unknown asm template %r at %s" % (t, inst.where()))
        lock, mn, suf = bool(m.group(1)), m.group(2), m.group(3)
        opmap, tied, outs, ins = asm_operands(inst)
        # memory operand = the '$n' that maps to an indirect output
        memop = None
        for n, (c, ind) in enumerate(outs):
            if ind and "m" in c:
                memop = n
        if memop is None:
            raise Unknown("asm %r without memory output at %s" % (t, inst.where()))
        addr_arg = opmap[memop][1]
        ap = d["aps"][addr_arg]
        bits = SUFFIX_BITS[suf]
        atomic = lock or mn == "xchg"
        full = atomic and memclob
        memread = outs[memop][0].startswith("+") or any(
            "*" in c and "m" in c and inst.args[opmap[len(outs) + n][1]] == inst.args[addr_arg] for n, c in enumerate(ins))
        if mn == "cmpxchg":
            # "={ax},=*m,r,0,*m": new = input 'r', expected = tied to out0
            new = inst.args[opmap[len(outs)][1]]
            exp = inst.args[tied[0]] if 0 in tied else None
            return _mr(Eff(inst, "cmpxchg", ap, bits, exp=exp, new=new, full=full, compiler=memclob, locked=atomic), memread)
        if mn == "xchg":
            val = inst.args[tied[0]] if 0 in tied else None
            return _mr(Eff(inst, "xchg", ap, bits, rop="xchg", val=val, full=full, compiler=memclob, locked=atomic), memread)
        if mn == "xadd":
            k = [t_ for t_ in tied.values()]
            val = inst.args[k[0]] if k else None
            return _mr(Eff(inst, "rmw", ap, bits, rop="xadd", val=val, full=full, compiler=memclob, locked=atomic), memread)
        if mn in ("inc", "dec"):
            return _mr(Eff(inst, "rmw", ap, bits, rop=mn, val=("c", 1, 32), full=full, compiler=memclob, locked=atomic), memread)
        # add/sub/and/or/xor: value = first non-memory input
        val = None
        for n, c in enumerate(ins):
            if "m" not in c or "r" in c:
                val = inst.args[opmap[len(outs) + n][1]]
                break
        return _mr(Eff(inst, "rmw", ap, bits, rop=mn, val=val, full=full, compiler=memclob, locked=atomic), memread)
    return None


# syscalls ------------------------------------------------------------
SYS_FUTEX = 202
SYS_MEMBARRIER = 324
FUTEX_WAIT, FUTEX_WAKE = 0, 1


def syscall_no(inst):
    if inst.op == "call" and inst.callee == "syscall":
        return ir.const_of(inst.fn, inst.args[0])
    return None


def is_futex(inst, op=None):
    if syscall_no(inst) != SYS_FUTEX:
        return False
    if op is None:
        return True
    return ir.const_of(inst.fn, inst.args[2]) == op


def is_membarrier(inst):
    return syscall_no(inst) == SYS_MEMBARRIER


SLAVE_FNS = ("urcu_memb_smp_mb_slave", "urcu_bp_smp_mb_slave")

# externals that are known *not* to be compiler barriers (pure / const)
PURE_EXTERNALS = {"__errno_location", "pthread_self", "llvm.dbg.value", "llvm.dbg.declare"}


def is_full(inst):
    """FULL: orders everything incl. store->load (DESIGN §2.2).  A call to a function defined
    in the module is FULL when every returning path of the callee contains a FULL effect."""
    if inst.op == "call":
        if is_membarrier(inst):
            return True
        mod = inst.fn.mod
        if mod.fn(inst.callee) is not None:
            return mod.must_pass_summary(inst.callee, is_full)
        return False
    e = effect_of(inst)
    return bool(e and e.full)


def is_slave(inst):
    """compiler barrier emitted by the flavor's smp_mb_slave (paired with MASTER, rule C01.pair)"""
    if inst.op == "asm" and inst.d["asm"] == "" and "~{memory}" in inst.d["cons"]:
        return any(s in SLAVE_FNS for s in inst.scope_chain)
    return False


def is_compiler(inst, mod=None):
    """>= COMPILER barrier"""
    if inst.op == "call":
        c = inst.callee
        if c.startswith("llvm.") or c in PURE_EXTERNALS:
            return False
        f = mod.functions.get(c) if mod else None
        if f is None or f.is_decl:
            return True  # unknown external: clobbers memory
        return False
    if inst.op == "icall":
        return True
    e = effect_of(inst)
    return bool(e and (e.compiler or e.full))


BLOCKING_CALLS = {"poll", "pthread_mutex_lock", "pthread_cond_wait", "pthread_cond_timedwait",
                  "pthread_join", "sleep", "usleep", "nanosleep", "select", "sched_yield",
                  "pthread_rwlock_rdlock", "pthread_rwlock_wrlock", "sem_wait"}


def is_blocking(inst):
    if inst.op == "call":
        if inst.callee in BLOCKING_CALLS:
            return True
        if is_futex(inst, FUTEX_WAIT):
            return True
        if syscall_no(inst) == SYS_FUTEX and ir.const_of(inst.fn, inst.args[2]) is None:
            return True
    return False
