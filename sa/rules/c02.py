"""C02 — grace periods always complete once readers leave: no lost wake-up, no deadlock (partial)."""
from .. import ir, mm, pat, paths, lockset, waitloop
from ..core import Broken
from ..flavors import FL, PARITY, ALL
from . import c01

META = {
    "explanation": "Store-buffering pairing on both sides of every sleep/wake handshake of the grace-period machinery (updater: announce sleep on gp.futex, "
                   "MASTER/FULL, re-scan readers; reader: publish reader word, SLAVE/FULL, test gp.futex), wake order (futex word reset before FUTEX_WAKE under the "
                   "== -1 guard), wait-loop shape of every futex wait (re-check after 0 / spurious / EINTR return, EAGAIN exit), wait-node teardown "
                   "(WAKEUP store, wake, TEARDOWN last; no access after hand-off; successor fetched before waking), lock pairing and order, no sleep "
                   "while holding the registry lock, qsbr updater takes itself offline, futex flavour agreement, ENOSYS fallback forwarding.",
    "not_decided": "termination of synchronize_rcu() itself (a liveness property over all schedules)",
}

META["explanation"] += " " + 'Also: whole-library lock-order graph per flavor joined with liburcu-cds through resolved function pointers (acyclic, documented edges present), no thread joined while holding a lock its body takes, no futex sleeper holding a lock its waker needs, and announce ≺ re-scan ≺ sleep on every updater sleep path.'
META["technique"] = 'static analysis: store-buffering pairing rules, wait-loop shape rules, may/must locksets with interprocedural lock-order graph (cycle detection, join-under-lock, sleeper/waker lock conflicts) over normalised LLVM IR'


def dom_atoms(f, inst):
    """atoms of all conditional edges that dominate inst"""
    out = []
    for b in f.blocks:
        if len(b.succ) < 2:
            continue
        for s in b.succ:
            if len(f.blocks[s].pred) == 1 and f.bdom(s, inst.blk.id):
                out += ir.edge_atoms(f, b.id, s)
    return out


def _scan_header(f, rd):
    """header block of the innermost natural loop that contains the reader-word loads"""
    best = None
    for b in f.blocks:
        for s_ in b.succ:
            if f.bdom(s_, b.id):
                body = {s_, b.id}
                st = [b.id]
                while st:
                    x = st.pop()
                    if x == s_:
                        continue
                    for p_ in f.blocks[x].pred:
                        if p_ not in body:
                            body.add(p_)
                            st.append(p_)
                if any(i.blk.id in body for i in rd) and (best is None or len(body) < len(best[1])):
                    best = (s_, body)
    if best is None:
        raise Broken("%s: scan loop not found" % f.name)
    return best[0]


def _sync(ctx, fl):
    F = FL[fl]
    return F, ctx.fn(F.lib, F.pfx + "_synchronize_rcu")


def rule_sb_upd(ctx, rep):
    for fl in ("memb", "mb"):
        F, f = _sync(ctx, fl)
        rep.touch(f)
        isrd = c01.is_rd_ctr_load(F)
        scans = pat.scc_of(f, isrd)
        pat.require(scans, "%s: no scan loop" % fl)
        master = c01.is_master(F)
        for k, comp in enumerate(scans):
            inb = pat.in_blocks(comp)
            dec = [i for i in pat.rmws(f, F.futex, glob=F.gp) if inb(i)]
            rd = [i for i in f.all_insts() if inb(i) and isrd(i)]
            waits = [i for i in f.all_insts() if inb(i) and mm.is_futex(i, mm.FUTEX_WAIT)]
            if not waits:
                rep.bad("C02.sb-upd", "%s.scan%d.sleeps" % (fl, k + 1), "scan loop never sleeps on gp.futex (anchor)", [f.name])
                continue
            if not dec:
                rep.bad("C02.sb-upd", "%s.scan%d.announce" % (fl, k + 1), "updater sleeps on gp.futex without announcing it (no decrement of gp.futex in the scan loop): readers never wake it",
                        [waits[0].where()])
                continue
            rep.must_pass("C02.sb-upd", "%s.scan%d.dec≺MASTER≺scan" % (fl, k + 1), f, dec, rd, master,
                          what="after announcing sleep (futex dec) a MASTER barrier precedes the re-scan of reader words (store→load)")
            hdr = _scan_header(f, rd)
            rep.must_pass("C02.sb-upd", "%s.scan%d.announce≺rescan≺sleep" % (fl, k + 1), f, dec, waits, lambda i, hdr=hdr: i.blk.id == hdr,
                          what="reader words are re-scanned between announcing the sleep (futex decrement) and sleeping")
            # the announcement and the sleep are taken under the same per-iteration predicate (T10)
            gd = set(a for d_ in dec for a in dom_atoms(f, d_))
            for w_ in waits:
                common = [a for a in dom_atoms(f, w_) if a in gd and a[0] in ("uge", "ugt", "ult", "ule", "sge", "sgt", "slt", "sle")]
                rep.check(bool(common), "C02.sb-upd", "%s.scan%d.announce⇔sleep" % (fl, k + 1), "sleep and announcement are guarded by the same predicate: %s" % (ir.atom_str(common[0]) if common else ""),
                          "the futex wait can be reached in an iteration that did not announce it (no common guard with the futex decrement)", [w_.where()])
            # leaving after having announced: reset to 0 with >=compiler ordering after the last reader-word loads
            resets = [s for s in pat.stores(f, F.futex, glob=F.gp) if ir.const_of(f, s.args[0]) == 0 and pat.from_fn(s, "wait_for_readers")]
            pat.require(resets, "%s: no reset of gp.futex after the scan" % fl)
            rep.must_pass("C02.sb-upd", "%s.scan%d.scan≺barrier≺reset" % (fl, k + 1), f, rd, [r for r in resets], lambda i: mm.is_compiler(i, f.mod),
                          what=">=compiler barrier between the last reader-word loads and resetting gp.futex to 0")
    F, f = _sync(ctx, "qsbr")
    rep.touch(f)
    isrd = c01.is_rd_ctr_load(F)
    scans = pat.scc_of(f, isrd)
    pat.require(len(scans) == 1, "qsbr: scan loop")
    inb = pat.in_blocks(scans[0])
    ann = [s for s in pat.stores(f, F.futex, glob=F.gp) if ir.const_of(f, s.args[0]) == -1]
    wt = pat.stores(f, "urcu_qsbr_reader.waiting")
    rd = [i for i in f.all_insts() if inb(i) and isrd(i)]
    waits = [i for i in f.all_insts() if inb(i) and mm.is_futex(i, mm.FUTEX_WAIT)]
    if not ann or not wt:
        rep.bad("C02.sb-upd", "qsbr.announce", "updater sleeps without announcing (gp.futex = -1 and reader->waiting = 1)", [f.name])
    else:
        rep.must_pass("C02.sb-upd", "qsbr.futex≺waiting", f, ann, wt, lambda i: mm.is_compiler(i, f.mod), what=">=compiler barrier (wmb) between gp.futex=-1 and the waiting flags")
        rep.must_pass("C02.sb-upd", "qsbr.waiting≺FULL≺scan", f, wt, rd, mm.is_full, what="FULL between setting reader->waiting and reading reader words (store→load)")
        # value agreement with the reader side, which wakes the grace period exactly when it reads waiting != 0
        zero = [s_ for s_ in wt if ir.const_of(f, s_.args[0]) == 0]
        rep.check(not zero, "C02.sb-upd", "qsbr.waiting-value", "the announcement stores a non-zero waiting flag", "the updater announces its sleep by storing waiting = 0: a reader going quiescent "
                  "reads `nobody waits`, does not wake gp.futex, and the grace period sleeps forever", [z.where() for z in zero[:1]])
        gd = set(a for d_ in ann for a in dom_atoms(f, d_))
        for w_ in waits:
            common = [a for a in dom_atoms(f, w_) if a in gd and a[0] in ("uge", "ugt", "ult", "ule", "sge", "sgt", "slt", "sle")]
            rep.check(bool(common), "C02.sb-upd", "qsbr.announce⇔sleep", "sleep and announcement are guarded by the same predicate",
                      "the futex wait can be reached in an iteration that did not announce it", [w_.where()])
        # the decision to sleep is taken by a scan made *after* the announcement: every way from setting a waiting flag to the
        # futex wait goes through the reader-scan loop again (a reader that went quiescent before it was flagged never wakes us)
        hdr = _scan_header(f, rd)
        rep.must_pass("C02.sb-upd", "qsbr.announce≺rescan≺sleep", f, wt, waits, lambda i: i.blk.id == hdr, what="reader words are re-scanned between announcing the sleep (waiting flags) and sleeping")


def rule_sb_rd(ctx, rep):
    for fl in ("memb", "mb"):
        F = FL[fl]
        f = ctx.fn(F.lib, F.pfx + "_read_unlock")
        rep.touch(f)
        own = c01.own_ctr(F)
        sts = [e.inst for e in pat.accesses(f, F.rfield, ("store", "rmw", "cmpxchg", "xchg"), pred=own)]
        fl_loads = pat.loads(f, F.futex, glob=F.gp)
        if not fl_loads:
            rep.bad("C02.sb-rd", fl + ".tests-futex", "read_unlock never tests gp.futex: a sleeping updater is not woken", [f.name])
            continue
        sof = c01.is_slave_or_full(F)
        # every outermost store (the one that can reach the futex test) is followed by SLAVE|FULL before the test
        reach = [s for s in sts if f.reach([s], fl_loads)[0] is not None]
        pat.require(reach, "%s: no reader-word store reaches the futex test" % fl)
        weak = [s for s in reach if not mm.is_full(s)]
        if weak:
            rep.must_pass("C02.sb-rd", fl + ".store≺barrier≺futex", f, weak, fl_loads, sof, what="SLAVE|FULL between the reader-word store and the gp.futex test (store→load)")
        else:
            rep.ok("C02.sb-rd", fl + ".store≺barrier≺futex", "reader-word store is seq_cst", [s.where() for s in reach])
        # the outermost unlock reaches the wake-up test on every path
        outer = [s for s in sts if c01.guarded_by(f, s, lambda a: a[0] == "eq" and a[2][0] == "c" and a[2][1] != 0 and a[1][0] == "bin" and a[1][1] == "and")]
        if not outer:
            # the store that reaches the wake-up test is selected by comparing the *whole* reader word (phase bit included) with
            # COUNT: a reader that entered under the other phase never takes the waking branch on its outermost unlock
            whole = [s for s in reach if c01.guarded_by(f, s, lambda a: a[0] == "eq" and a[2][0] == "c" and a[2][1] != 0 and a[1][0] == "load")]
            if whole:
                rep.bad("C02.sb-rd", fl + ".outermost-test-masks-nesting", "the `outermost unlock` test compares the whole reader word with the count increment instead of its nesting field "
                        "(word & NEST_MASK): with the phase bit set the outermost unlock is taken for a nested one and the sleeping grace period is not woken", [whole[0].where()])
                continue
        pat.require(outer, "%s: outermost store" % fl)
        rep.must_pass("C02.sb-rd", fl + ".outermost-tests-futex", f, outer, None, lambda i: i in fl_loads, to_exit=True, what="the outermost read_unlock always tests gp.futex")
    F = FL["qsbr"]
    own = c01.own_ctr(F)
    for nm in ("thread_offline", "quiescent_state"):
        f = ctx.fn("qsbr", "urcu_qsbr_" + nm)
        rep.touch(f)
        sts = [e.inst for e in pat.accesses(f, F.rfield, ("store",), pred=own)]
        wl = pat.loads(f, "urcu_qsbr_reader.waiting")
        fut = pat.loads(f, F.futex, glob=F.gp)
        ws = pat.stores(f, "urcu_qsbr_reader.waiting")
        if not (wl and fut and ws):
            rep.bad("C02.sb-rd", "qsbr.%s.wake" % nm, "%s does not perform the waiting/futex wake-up handshake" % nm, [f.name])
            continue
        weak = [s for s in sts if not mm.is_full(s)]
        if weak:
            rep.must_pass("C02.sb-rd", "qsbr.%s.ctr≺FULL≺waiting" % nm, f, weak, wl, mm.is_full, what="FULL between the reader-word store and the waiting test")
        else:
            rep.ok("C02.sb-rd", "qsbr.%s.ctr≺FULL≺waiting" % nm, "reader-word store is seq_cst", [s.where() for s in sts])
        rep.must_pass("C02.sb-rd", "qsbr.%s.ctr≺waiting-test" % nm, f, sts, None, lambda i: i in wl, to_exit=True, what="every state change reaches the waiting test")
        rep.must_pass("C02.sb-rd", "qsbr.%s.waiting=0≺FULL≺futex" % nm, f, ws, fut, mm.is_full, what="FULL between clearing waiting and testing gp.futex")
        # polarity: the futex test (wake-up) is entered along `waiting != 0`
        we = pat.branch_edges_on(f, lambda a: a[0] in ("eq", "ne") and a[2] == ("c", 0) and pat.is_load_expr(a[1], "urcu_qsbr_reader.waiting"))
        if we:
            rep.must_take_edge("C02.sb-rd", "qsbr.%s.waiting⇒wake" % nm, f, sts, fut, [(t.blk.id, s_) for t, s_, a in we if a[0] == "ne"], include_start=False,
                               what="the grace period's futex is tested (and woken) when the waiting flag is set")
            hit, _ = f.reach(sts, None, avoid=lambda i: i in fut, edge_ok=pat.block_edge_filter([(t.blk.id, s_) for t, s_, a in we if a[0] == "eq"]), stop_at_exit=True)
            rep.check(hit is None, "C02.sb-rd", "qsbr.%s.waiting⇒wake.every-path" % nm, "with waiting set every path from the state change reaches the futex test",
                      "%s can return without testing gp.futex although waiting was set" % nm, [sts[0].where()])
        else:
            rep.unk("C02.sb-rd", "qsbr.%s.waiting⇒wake" % nm, "the waiting flag does not steer a branch this rule recognises")


def rule_wake(ctx, rep):
    """reader-side wake: under guard futex == -1: store futex = 0 precedes FUTEX_WAKE(1) on the same word"""
    n = 0
    for fl in ("memb", "mb", "qsbr"):
        F = FL[fl]
        m = ctx.mod(F.lib, "perfn")
        for gname in ("urcu_common_wake_up_gp", "urcu_qsbr_wake_up_gp"):
            g = m.fn(gname)
            if g is None:
                continue
            # skip if not the flavor's own
            if (gname == "urcu_qsbr_wake_up_gp") != (fl == "qsbr"):
                continue
            rep.touch(g)
            n += 1
            wk = waitloop.wake_sites(g)
            if not wk:
                rep.bad("C02.wake", fl + ".wakes", "%s never issues FUTEX_WAKE" % gname, [g.name])
                continue
            for w in wk:
                ap = waitloop.word_of(w)
                z = [s for s in g.all_insts() if s.op == "store" and waitloop.same_word(g, ap, mm.effect_of(s)) and ir.const_of(g, s.args[0]) == 0]
                rep.must_pass("C02.wake", "%s.%s.reset≺wake" % (fl, gname), g, [g.entry()], [w], lambda i: i in z, include_start=True,
                              what="the futex word is reset to 0 before FUTEX_WAKE (a waiter woken first would re-sleep on -1)")
                guard = c01.guarded_by(g, w, lambda a: a[0] == "eq" and a[2] == ("c", -1) and a[1][0] == "load")
                rep.check(guard, "C02.wake", "%s.%s.guard" % (fl, gname), "wake-up only when the word is -1", "wake-up not guarded by word == -1", [w.where()])
                cnt = ir.const_of(g, w.args[2])
                rep.check(cnt is not None and cnt >= 1, "C02.wake", "%s.%s.count" % (fl, gname), "wakes %s waiter(s)" % cnt, "FUTEX_WAKE count is %s" % cnt, [w.where()])
    pat.require(n >= 3, "wake-up helpers vanished")


def rule_waitloop(ctx, rep):
    n = 0
    for fl in ("memb", "mb", "qsbr"):
        F = FL[fl]
        m = ctx.mod(F.lib, "perfn")
        # every function of the flavor library that sleeps on a grace-period word (gp.futex, wait-node state), whatever its name
        sleepers = []
        for g_ in m.defined():
            for w_ in waitloop.wait_sites(g_):
                ap_ = waitloop.word_of(w_)
                if ap_ is not None and pat.last_field(ap_) in ("urcu_gp.futex", "urcu_wait_node.state"):
                    if g_ not in sleepers:
                        sleepers.append(g_)
        words = set(pat.last_field(waitloop.word_of(w_)) for g_ in sleepers for w_ in waitloop.wait_sites(g_) if waitloop.word_of(w_) is not None)
        if words != {"urcu_gp.futex", "urcu_wait_node.state"}:
            raise Broken("%s: sleepers on gp.futex / wait-node state not found (found %s)" % (fl, sorted(words)))
        for g in sleepers:
            gname = "urcu_adaptative_busy_wait" if g.name == "urcu_adaptative_busy_wait" else ("wait_gp" if any(pat.last_field(waitloop.word_of(w_)) == "urcu_gp.futex" for w_ in waitloop.wait_sites(g)) else g.name)
            ws = [w_ for w_ in waitloop.wait_sites(g) if waitloop.word_of(w_) is not None and pat.last_field(waitloop.word_of(w_)) in ("urcu_gp.futex", "urcu_wait_node.state")]
            for k, w in enumerate(ws):
                n += 1
                waitloop.check(rep, "C02.waitloop", "%s.%s.site%d" % (fl, gname, k), g, w)
                exp = ir.const_of(g, w.args[2])
                ap = waitloop.word_of(w)
                # the wait is entered only when the word holds the value passed as `expected`
                guard = c01.guarded_by(g, w, lambda a: a[0] == "eq" and a[2] == ("c", exp) and a[1][0] == "load" and a[1][1] == ir.ap_str(g, ap))
                rep.check(guard, "C02.waitloop", "%s.%s.site%d.expected" % (fl, gname, k), "FUTEX_WAIT expected value %s equals the value tested before sleeping" % exp,
                          "FUTEX_WAIT expected value %s differs from the loop test" % exp, [w.where()])
    pat.require(n >= 6, "only %d wait sites" % n)
    # compat fallback: poll loop re-tests the word each iteration
    for lib in ("memb", "cds"):
        m = ctx.mod(lib, "perfn")
        g = m.fn("compat_futex_async")
        if g is None:
            raise Broken("compat_futex_async vanished")
        rep.touch(g)
        polls = pat.calls(g, "poll")
        pat.require(polls, "compat_futex_async: no poll")
        lds = [i for i in g.all_insts() if i.op == "load" and i.d["ap"]["base"] == ["a", 0]]
        for p in polls:
            lv_ = pat.dom_leaf_atoms(g, p)
            okw = any(a[0] == "eq" and ((a[1][0] == "load" and a[2] == ("arg", 2)) or (a[2][0] == "load" and a[1] == ("arg", 2))) for a in lv_)
            rep.check(okw, "C02.enosys", lib + ".compat.polls-while-equal", "the fallback keeps polling exactly while *uaddr == val", "the poll loop runs while %s: a waiter returns at once although nothing changed / sleeps although the word changed" %
                      [ir.atom_str(a) for a in lv_ if len(a) == 3 and (a[1][0] == "load" or a[2][0] == "load")][:2], [p.where()])
            hit, par = g.reach([p], polls, avoid=lambda i: i in lds)
            rep.check(hit is None, "C02.enosys", lib + ".compat.poll-loop-retests", "every poll iteration re-reads the futex word",
                      "poll loop does not re-read the futex word", [p.where()])
        break


def rule_leader(ctx, rep):
    """Batching of concurrent synchronize_rcu() callers: the caller whose push found gp_waiters empty runs the grace period,
    every other caller sleeps on its wait node until that leader (or a later one) wakes it.  Exactly this split: a caller that
    found the queue empty and slept would wait for a leader that does not exist; the leader marks its own node RUNNING so that
    its wake-all pass does not wait for itself."""
    for fl in ("memb", "mb", "qsbr"):
        F, f = _sync(ctx, fl)
        rep.touch(f)
        push = [i for i in pat.rmws(f, glob="gp_waiters") if pat.from_fn(i, "urcu_wait_add")]
        pat.require(len(push) == 1, "%s: push on gp_waiters" % fl)
        pid_ = push[0].id
        on_push = lambda a: len(a) == 3 and a[1][0] == "asm" and a[1][-1] == pid_ and a[2][0] == "c"
        ed = pat.branch_edges_on(f, on_push)
        if not ed:
            raise Broken("%s: the result of the push on gp_waiters does not steer a branch" % fl)
        END = ed[0][2][2][1]
        first = [(t.blk.id, s_) for t, s_, a in ed if a[0] == "eq" and a[2][1] == END]       # the stack held only END: we are first
        later = [(t.blk.id, s_) for t, s_, a in ed if a[0] == "ne" and a[2][1] == END]
        own_waits = [w for w in waitloop.wait_sites(f) if waitloop.word_of(w) is not None and ir.ap_str(f, waitloop.word_of(w)).startswith("local:")
                     and pat.last_field(waitloop.word_of(w)) == "urcu_wait_node.state"]
        gplock = pat.mutex_calls(f, "pthread_mutex_lock", "rcu_gp_lock")
        pat.require(own_waits and gplock and first and later, "%s: leader / follower anatomy" % fl)
        rep.must_take_edge("C02.leader", fl + ".sleeps-only-if-not-first", f, push, own_waits, later, include_start=False,
                           what="a caller sleeps on its wait node only when the queue was non-empty before its push")
        rep.must_take_edge("C02.leader", fl + ".first-runs-the-grace-period", f, push, gplock, first, include_start=False,
                           what="only the caller that found the queue empty goes on to take rcu_gp_lock and run the grace period")
        for b_, s_ in first:
            hit, _ = f.reach([f.blocks[s_].insts[0]], own_waits, include_start=True)
            rep.check(hit is None, "C02.leader", fl + ".first-never-sleeps", "the first caller never sleeps on its own wait node", "the caller that found the queue empty can sleep on its wait node: nobody is left to wake it", [push[0].where()])
            hit2, _ = f.reach([f.blocks[s_].insts[0]], gplock, include_start=True)
            rep.check(hit2 is not None, "C02.leader", fl + ".first-reaches-gp", "the first caller reaches the grace period", "the caller that found the queue empty never runs a grace period", [push[0].where()])
        # the node a caller queues starts out WAITING: busy_wait returns as soon as the state differs from WAITING, so a node queued with an
        # uninitialised (or any other) state lets its owner return from synchronize_rcu() without any grace period having elapsed
        WAITING = ctx.mod(F.lib, "perfn").enum("urcu_wait_state", "URCU_WAIT_WAITING")
        pat.require(WAITING is not None, "enum URCU_WAIT_WAITING")
        lst = [s_ for s_ in f.all_insts() if s_.op == "store" and s_.d["ap"] and ir.ap_str(f, s_.d["ap"]).startswith("local:") and pat.last_field(s_.d["ap"]) == "urcu_wait_node.state"]
        init = [s_ for s_ in lst if ir.const_of(f, s_.args[0]) == WAITING]
        nodes = set(tuple(s_.d["ap"]["base"]) for s_ in lst)
        if WAITING == 0:    # DEFINE_URCU_WAIT_NODE(wait, URCU_WAIT_WAITING): the initialiser is a memset(0) of the whole node
            init += [i for i in f.all_insts() if i.op == "call" and i.callee.startswith("llvm.memset") and i.d["aps"][0] and tuple(i.d["aps"][0]["base"]) in nodes and not i.d["aps"][0]["steps"]
                     and ir.const_of(f, i.args[1]) == 0 and (ir.const_of(f, i.args[2]) or 0) >= max([(pat.ap_offset(f.mod, s_.d["ap"]) or 0) + s_.d.get("bits", 32) // 8 for s_ in lst] or [1 << 30])]
        if not init:
            rep.bad("C02.leader", fl + ".node-starts-WAITING", "the wait node is queued without its state being set to WAITING: busy_wait takes whatever the stack held for a wake-up and "
                    "synchronize_rcu() returns before the grace period it was merged into", [push[0].where()])
        else:
            rep.must_pass("C02.leader", fl + ".node-starts-WAITING", f, [f.entry()], push, lambda i: i in init, include_start=True, what="the wait node's state is WAITING when it is queued")
            other = [s_ for s_ in lst if s_ not in init and f.reach([s_], push)[0] is not None and f.reach([f.entry()], push, avoid=lambda i: i is s_, include_start=True)[0] is None]
            rep.check(not other, "C02.leader", fl + ".node-starts-WAITING.only", "no other state is stored before the push", "the node's state is overwritten before it is queued", [o.where() for o in other[:1]])
        RUN = ctx.mod(F.lib, "perfn").enum("urcu_wait_state", "URCU_WAIT_RUNNING")
        run = [s_ for s_ in f.all_insts() if s_.op == "store" and s_.d["ap"] and ir.ap_str(f, s_.d["ap"]).startswith("local:") and pat.last_field(s_.d["ap"]) == "urcu_wait_node.state" and ir.const_of(f, s_.args[0]) == RUN]
        wakes = waitloop.wake_sites(f)
        wk = [w for w in wakes if waitloop.word_of(w) is not None and pat.last_field(waitloop.word_of(w)) == "urcu_wait_node.state"]
        if not run:
            rep.bad("C02.leader", fl + ".leader-marks-RUNNING", "the leader never marks its own wait node RUNNING: its wake-all pass treats the node as a sleeping waiter and spins for it to acknowledge", [push[0].where()])
        elif wk:
            rep.must_pass("C02.leader", fl + ".leader-marks-RUNNING", f, push, wk, lambda i: i in run, what="the leader's own node is RUNNING before the wake-all pass")


def rule_qs(ctx, rep):
    """qsbr: reporting a quiescent state.  When the thread's word differs from the global counter the new value is published
    and a waiting grace period is woken; only when they are already equal may the function return without doing so (a prior
    report of this thread covers it).  thread_offline always publishes 0 and wakes."""
    F = FL["qsbr"]
    m = ctx.mod("qsbr", "flat")
    f = m.fn("urcu_qsbr_quiescent_state")
    if f is None:
        raise Broken("urcu_qsbr_quiescent_state vanished")
    rep.touch(f)
    own = c01.own_ctr(F)
    pub = [e.inst for e in pat.accesses(f, F.rfield, ("store",), pred=own)]
    same = set((t.blk.id, s_) for t, s_, a in pat.branch_edges_on(f, lambda a: a[0] == "eq" and a[1][0] == "load" and a[2][0] == "load" and
                                                                   {a[1][1].split(".")[-1], a[2][1].split(".")[-1]} == {"ctr"} and a[1][1] != a[2][1]))
    if not pub:
        rep.bad("C02.qs", "quiescent_state.publishes", "urcu_qsbr_quiescent_state never stores the global counter into the thread's word: grace periods wait for this thread for ever", [f.name])
    else:
        pat.require(same, "quiescent_state: fast-path test")
        rep.must_pass("C02.qs", "quiescent_state.publishes", f, [f.entry()], None, lambda i: i in pub, to_exit=True, include_start=True, edge_ok=pat.block_edge_filter(same),
                      what="unless the word already equals the global counter, every return passes the store of the new value")
        v = ir.expr(f, pub[0].args[0], 3)
        rep.check(v[0] == "load" and v[1].endswith("urcu_gp.ctr"), "C02.qs", "quiescent_state.value", "publishes the global counter value it read", "publishes %s" % ir.expr_str(v), [pub[0].where()])
        wk = [l for l in pat.loads(f, "urcu_qsbr_reader.waiting")]
        if not wk:
            rep.bad("C02.qs", "quiescent_state.wakes", "a reported quiescent state does not wake a waiting grace period", [pub[0].where()])
        else:
            rep.must_pass("C02.qs", "quiescent_state.wakes", f, pub, None, lambda i: i in wk, to_exit=True, what="after publishing, the grace period's waiting flag is tested (wake-up)")
    # wake-up of a wait node: FUTEX_WAKE exactly when the waiter is not (yet) RUNNING, i.e. may be asleep
    for fl in ("memb", "mb", "qsbr"):
        wk = ctx.mod(FL[fl].lib, "perfn").fn("urcu_adaptative_wake_up")
        if wk is None:
            raise Broken("%s: urcu_adaptative_wake_up vanished" % fl)
        rep.touch(wk)
        RUN = ctx.mod(FL[fl].lib, "perfn").enum("urcu_wait_state", "URCU_WAIT_RUNNING")
        for w in waitloop.wake_sites(wk):
            lv = pat.dom_leaf_atoms(wk, w)
            asleep = any(a[0] == "eq" and a[2] == ("c", 0) and a[1][0] == "bin" and a[1][1] == "and" and a[1][3] == ("c", RUN) for a in lv)
            awake = any(a[0] == "ne" and a[2] == ("c", 0) and a[1][0] == "bin" and a[1][1] == "and" and a[1][3] == ("c", RUN) for a in lv)
            rep.check(asleep and not awake, "C02.qs", fl + ".wake_up.wakes-sleepers", "FUTEX_WAKE is issued when the waiter has not marked itself RUNNING",
                      "FUTEX_WAKE is issued only when the waiter already runs: a waiter asleep in FUTEX_WAIT is never woken", [w.where()])


def rule_compat(ctx, rep):
    """The ENOSYS fallback compat_futex_noasync (mutex + condition variable): FUTEX_WAIT waits while *uaddr == val, re-testing the
    word after every pthread_cond_wait, all under the global mutex; FUTEX_WAKE broadcasts under the same mutex (a wake-up issued
    between a waiter's test and its cond_wait would otherwise be lost); a failed lock returns -1 without touching the condition."""
    m = ctx.mod("memb", "perfn")
    g = m.fn("compat_futex_noasync")
    if g is None:
        raise Broken("compat_futex_noasync vanished")
    rep.touch(g)
    ls = lockset.compute(g)
    cw = pat.calls(g, "pthread_cond_wait")
    cb = pat.calls(g, "pthread_cond_broadcast") + pat.calls(g, "pthread_cond_signal")
    lds = [i for i in g.all_insts() if i.op == "load" and i.d["ap"] and i.d["ap"]["base"] == ["a", 0]]
    if not cw or not cb or not lds:
        rep.bad("C02.enosys", "compat.noasync.anatomy", "compat_futex_noasync lacks cond_wait / broadcast / the test of *uaddr", [g.name])
        return
    LK = "@__urcu_compat_futex_lock"
    for i in cw + cb + lds:
        rep.check(LK in ls.get(i.id, ()), "C02.enosys", "compat.noasync.locked@%d" % i.line, "%s under the fallback's mutex" % (i.callee or "test of *uaddr"),
                  "%s outside __urcu_compat_futex_lock: a wake-up issued between a waiter's test of *uaddr and its pthread_cond_wait is lost (the waiter sleeps for good)" % (i.callee or "*uaddr tested"), [i.where()])
    for w in cw:
        rep.check(ir.expr(g, w.args[1]) == ("addr", LK), "C02.enosys", "compat.noasync.cond_wait-mutex", "cond_wait releases the fallback's mutex", "cond_wait is given another mutex", [w.where()])
        hit, _ = g.reach([w], cw + list(g.rets()), avoid=lambda i: i in lds)
        rep.check(hit is None, "C02.enosys", "compat.noasync.retest", "the word is re-tested after every cond_wait (spurious wake-ups, broadcasts for other words)", "returns / waits again after cond_wait without re-reading *uaddr", [w.where()])
        lv = pat.dom_leaf_atoms(g, w)
        okv = any(a[0] == "eq" and a[1][0] == "load" and a[2] == ("arg", 2) for a in lv) or any(a[0] == "eq" and a[2][0] == "load" and a[1] == ("arg", 2) for a in lv)
        rep.check(okv, "C02.enosys", "compat.noasync.waits-while-equal", "waits while *uaddr == val", "wait condition is not `*uaddr == val`: %s" % [ir.atom_str(a) for a in lv][:3], [w.where()])
        sel = [(t.blk.id, s_) for t, s_, a in pat.branch_edges_on(g, lambda a: a[0] == "eq" and a[1] == ("arg", 1) and a[2] == ("c", mm.FUTEX_WAIT))]
        rep.must_take_edge("C02.enosys", "compat.noasync.wait-op", g, [g.entry()], [w], sel, include_start=True, what="cond_wait serves op == FUTEX_WAIT only")
    for b in cb:
        lv = pat.dom_leaf_atoms(g, b)
        sel = [(t.blk.id, s_) for t, s_, a in pat.branch_edges_on(g, lambda a: a[0] == "eq" and a[1] == ("arg", 1) and a[2] == ("c", mm.FUTEX_WAKE))]
        rep.must_take_edge("C02.enosys", "compat.noasync.wake-op", g, [g.entry()], [b], sel, include_start=True, what="broadcast serves op == FUTEX_WAKE only")
    held = [(r, ls[r.id]) for r in g.rets() if r.id in ls and ls[r.id]]
    rep.check(not held, "C02.enosys", "compat.noasync.released", "the mutex is released on every return", "returns holding %s" % (sorted(held[0][1]) if held else ""), [h[0].where() for h in held[:1]])
    # lock failure: reported, nothing waited on
    lk = pat.mutex_calls(g, "pthread_mutex_lock", "__urcu_compat_futex_lock")
    pat.require(lk, "compat_futex_noasync: mutex lock")
    fail = [(t.blk.id, s_) for t, s_, a in pat.branch_edges_on(g, lambda a: a[0] == "ne" and a[2] == ("c", 0) and a[1][0] == "call" and a[1][1] == "pthread_mutex_lock")]
    for b_, s_ in fail:
        hit, _ = g.reach([g.blocks[s_].insts[0]], cw + cb, include_start=True)
        rep.check(hit is None, "C02.enosys", "compat.noasync.lock-failure", "a failed lock returns without waiting / broadcasting", "cond_wait / broadcast reachable after a failed lock", [g.blocks[b_].insts[-1].where()])


def rule_node(ctx, rep):
    for fl in ("memb", "mb", "qsbr"):
        F = FL[fl]
        m = ctx.mod(F.lib, "perfn")
        wk = m.fn("urcu_adaptative_wake_up")
        wa = m.fn("urcu_wake_all_waiters")
        bw = m.fn("urcu_adaptative_busy_wait")
        if not (wk and wa and bw):
            raise Broken("%s: wait-node helpers vanished" % fl)
        for g in (wk, wa, bw):
            rep.touch(g)
        TD = m.enum("urcu_wait_state", "URCU_WAIT_TEARDOWN")
        RUN = m.enum("urcu_wait_state", "URCU_WAIT_RUNNING")
        WAKEUP = m.enum("urcu_wait_state", "URCU_WAIT_WAKEUP")
        pat.require(None not in (TD, RUN, WAKEUP), "enum urcu_wait_state")
        st = [s for s in pat.stores(wk, "urcu_wait_node.state") if ir.const_of(wk, s.args[0]) == WAKEUP]
        td = [e.inst for e in pat.accesses(wk, "urcu_wait_node.state", ("rmw",)) if e.rop == "or" and ir.const_of(wk, e.val) == TD]
        wakes = waitloop.wake_sites(wk)
        if not st or not td or not wakes:
            rep.bad("C02.node", fl + ".wake_up.anatomy", "urcu_adaptative_wake_up lacks WAKEUP store / futex wake / TEARDOWN or", [wk.name])
            continue
        rep.check(all(s.d["order"] in ("release", "seq_cst") for s in st), "C02.node", fl + ".wake_up.release", "WAKEUP store is release",
                  "WAKEUP store is not a release store", [s.where() for s in st])
        rep.must_pass("C02.node", fl + ".wake_up.WAKEUP≺wake", wk, [wk.entry()], wakes, lambda i: i in st, include_start=True, what="state=WAKEUP is stored before the futex wake")
        rep.must_pass("C02.node", fl + ".wake_up.WAKEUP≺TEARDOWN", wk, [wk.entry()], td, lambda i: i in st, include_start=True, what="state=WAKEUP precedes TEARDOWN")
        # every return grants TEARDOWN (the waiter - awake or not - returns from busy_wait only once it sees that bit)
        rep.must_pass("C02.node", fl + ".wake_up.every-return-TEARDOWN", wk, [wk.entry()], None, lambda i: i in td, to_exit=True, include_start=True,
                      what="every returning path of urcu_adaptative_wake_up sets TEARDOWN (a waiter already RUNNING still waits for it)")
        # T14: nothing touches the node after TEARDOWN was set (the waiter may free its stack frame)
        after = wk.reachable_set(td)
        touch = [i for i in wk.all_insts() if i.id in after and i.op in ("load", "store", "rmw", "cmpxchg", "asm", "call") and _uses_arg0(wk, i)]
        rep.check(not touch, "C02.node", fl + ".wake_up.no-access-after-TEARDOWN", "no access to the wait node after TEARDOWN is set",
                  "wait node accessed after TEARDOWN was set (the waiter may already have returned and reused its stack)", [t.where() for t in touch[:2]])
        # futex wake (when issued) precedes TEARDOWN
        back, _ = wk.reach(td, wakes)
        rep.check(back is None, "C02.node", fl + ".wake_up.wake≺TEARDOWN", "futex wake is never issued after TEARDOWN", "futex wake issued after TEARDOWN", [w.where() for w in wakes])
        # wake_all: successor fetched before waking the current node
        calls = pat.calls(wa, "urcu_adaptative_wake_up")
        pat.require(calls, "%s: wake_all does not call wake_up" % fl)
        for c in calls:
            node = ir.strip_casts(wa, c.args[0], int_too=False)
            base = c.d["aps"][0]["base"] if c.d["aps"][0] else node
            hdr = wa.insts[base[1]].blk.id if base[0] == "i" and wa.insts[base[1]].op == "phi" else None
            after = wa.reachable_set([c], avoid=(lambda i: i.blk.id == hdr) if hdr is not None else None)
            bad = []
            for i in wa.all_insts():
                if i.id not in after:
                    continue
                if i.op in ("load", "store") and i.d["ap"]["base"] == base:
                    bad.append(i)
                if i.op == "call" and any((ap is not None and ap["base"] == base) for ap in i.d["aps"]):
                    bad.append(i)
            rep.check(not bad, "C02.node", fl + ".wake_all.next-before-wake", "no use of the node after it was handed to urcu_adaptative_wake_up (successor fetched first)",
                      "node is used after being woken (non-_safe iteration: the waiter's stack frame may be gone)", [b.where() for b in bad[:2]])
        # wake_all skips exactly the nodes whose owner is already RUNNING (the leader's own node): every WAITING node is woken
        for c in calls:
            ats = [a for a in pat.dom_leaf_atoms(wa, c) if pat.atom_mentions(a, lambda e: pat.is_load_expr(e, "urcu_wait_node.state"))]
            for a in ats:
                if a[0] in ("eq", "ne") and a[2] == ("c", 0) and a[1][0] == "bin" and a[1][1] == "and" and a[1][3][0] == "c" and pat.is_load_expr(a[1][2], "urcu_wait_node.state"):
                    ok = a[0] == "eq" and a[1][3][1] == RUN
                    rep.check(ok, "C02.node", fl + ".wake_all.skips-only-RUNNING", "a queued node is woken unless its RUNNING bit is set",
                              "urcu_wake_all_waiters wakes a node only when (state & 0x%x) %s 0: callers still WAITING on their node are skipped and sleep forever - "
                              "their synchronize_rcu() never returns" % (a[1][3][1], "!=" if a[0] == "ne" else "=="), [c.where()])
                else:
                    rep.unk("C02.node", fl + ".wake_all.skips-only-RUNNING", "wake-up of a queued node depends on its state in a way this rule does not recognise: %s" % (a,))
        # busy_wait: returns only after observing TEARDOWN, after or RUNNING
        orr = [e.inst for e in pat.accesses(bw, "urcu_wait_node.state", ("rmw",)) if e.rop == "or" and ir.const_of(bw, e.val) == RUN]
        if not orr:
            rep.bad("C02.node", fl + ".busy_wait.RUNNING", "busy_wait never sets RUNNING", [bw.name])
        else:
            rep.must_pass("C02.node", fl + ".busy_wait.RUNNING≺ret", bw, [bw.entry()], None, lambda i: i in orr, to_exit=True, include_start=True, what="RUNNING is set before returning")
        for r in bw.rets():
            g = c01.guarded_by(bw, r, lambda a: a[0] == "ne" and a[2] == ("c", 0) and a[1][0] == "bin" and a[1][1] == "and" and a[1][3] == ("c", TD))
            rep.check(g, "C02.node", fl + ".busy_wait.ret-after-TEARDOWN", "returns only along (state & TEARDOWN) != 0", "can return before TEARDOWN is observed (waker still uses the node)", [r.where()])


def _uses_arg0(f, i):
    if i.op in ("load", "store", "rmw", "cmpxchg"):
        return i.d["ap"]["base"] == ["a", 0]
    if i.op in ("asm", "call"):
        return any(ap is not None and ap["base"] == ["a", 0] for ap in i.d.get("aps", []))
    return False


def rule_wakeall(ctx, rep):
    """every caller that was merged into this grace period (taken off gp_waiters) is woken on every return path"""
    for fl in ("memb", "mb", "qsbr"):
        F, f = _sync(ctx, fl)
        rep.touch(f)
        popall = [e.inst for e in pat.accesses(f, None, ("xchg",), glob="gp_waiters") if ir.const_of(f, e.val) is not None]
        wake = [i for i in f.all_insts() if pat.from_fn(i, "urcu_wake_all_waiters")]
        pat.require(popall, "%s: pop_all of gp_waiters not found" % fl)
        if not wake:
            rep.bad("C02.wakeall", fl, "merged callers are never woken", [popall[0].where()])
            continue
        rep.must_pass("C02.wakeall", fl + ".every-return-wakes", f, popall, None, lambda i: i in wake, to_exit=True,
                      what="after taking the queued callers, every path to return (including the empty-registry shortcut) runs urcu_wake_all_waiters")


def rule_locks(ctx, rep):
    for fl in ALL:
        F, f = _sync(ctx, fl)
        rep.touch(f)
        must = lockset.compute(f)
        may = lockset.may_compute(f)
        held = [(r, must[r.id]) for r in f.rets() if r.id in must and must[r.id]]
        mayheld = [(r, may[r.id]) for r in f.rets() if r.id in may and may[r.id]]
        rep.check(not mayheld, "C02.locks", fl + ".released-at-return", "no lock (may be) held at any return of synchronize_rcu",
                  "returns while (possibly) holding %s" % (sorted(mayheld[0][1]) if mayheld else ""), [h[0].where() for h in mayheld[:2]])
        # blocking calls: registry lock not held
        blk = [i for i in f.all_insts() if mm.is_blocking(i) and i.callee != "pthread_mutex_lock"]
        bad = [i for i in blk if i.id in may and "@rcu_registry_lock" in may[i.id]]
        rep.check(not bad, "C02.locks", fl + ".no-sleep-with-registry-lock", "%d sleeping calls (futex wait / poll), none with rcu_registry_lock held" % len(blk),
                  "sleeps while holding rcu_registry_lock: registering/unregistering readers block for the whole wait", [b.where() for b in bad[:2]])
        # order
        for c in pat.mutex_calls(f, "pthread_mutex_lock", "rcu_gp_lock"):
            rep.check("@rcu_registry_lock" not in may.get(c.id, ()), "C02.locks", fl + ".order", "rcu_gp_lock never taken while holding rcu_registry_lock",
                      "rcu_gp_lock acquired while rcu_registry_lock may be held (inversion)", [c.where()])
        regl = pat.mutex_calls(f, "pthread_mutex_lock", "rcu_registry_lock")
        pat.require(regl, "%s: registry lock not taken" % fl)
        rep.check(all("@rcu_gp_lock" in must.get(c.id, ()) for c in regl), "C02.locks", fl + ".registry-inside-gp", "rcu_registry_lock is taken with rcu_gp_lock held",
                  "rcu_registry_lock taken without rcu_gp_lock", [c.where() for c in regl[:2]])
        # scans run with the registry lock held
        isrd = c01.is_rd_ctr_load(F)
        rd = [i for i in f.all_insts() if isrd(i)]
        bad = [i for i in rd if "@rcu_registry_lock" not in must.get(i.id, ())]
        rep.check(not bad, "C02.locks", fl + ".scan-under-registry-lock", "all %d reader-word loads under rcu_registry_lock" % len(rd),
                  "registry is scanned without rcu_registry_lock", [b.where() for b in bad[:2]])
        for nm in ("register_thread", "unregister_thread"):
            if fl == "bp":
                continue
            g = ctx.fn(F.lib, "%s_%s" % (F.pfx, nm))
            rep.touch(g)
            mayg = lockset.may_compute(g)
            mh = [(r, mayg[r.id]) for r in g.rets() if r.id in mayg and mayg[r.id]]
            rep.check(not mh, "C02.locks", "%s.%s.released" % (fl, nm), "no lock held at return", "returns holding %s" % (sorted(mh[0][1]) if mh else ""), [h[0].where() for h in mh[:1]])
    # qsbr: unregister goes offline before taking the registry lock (a grace period holding the lock waits for this thread)
    F = FL["qsbr"]
    g = ctx.fn("qsbr", "urcu_qsbr_unregister_thread")
    own = c01.own_ctr(F)
    off = [e.inst for e in pat.accesses(g, F.rfield, ("store",), pred=own) if ir.const_of(g, e.val) == 0]
    lk = pat.mutex_calls(g, "pthread_mutex_lock", "rcu_registry_lock")
    pat.require(lk, "qsbr unregister: registry lock")
    if not off:
        rep.bad("C02.locks", "qsbr.unregister.offline≺lock", "unregister_thread never goes offline", [g.name])
    else:
        rep.must_pass("C02.locks", "qsbr.unregister.offline≺lock", g, [g.entry()], lk, lambda i: i in off, include_start=True,
                      what="thread goes offline before blocking on rcu_registry_lock (else a running grace period waits for it forever)")


def rule_self(ctx, rep):
    """qsbr: an updater that is also an online reader takes itself offline for the duration"""
    F, f = _sync(ctx, "qsbr")
    rep.touch(f)
    off = pat.calls(f, "urcu_qsbr_thread_offline")
    on = pat.calls(f, "urcu_qsbr_thread_online")
    ro = pat.calls(f, "urcu_qsbr_read_ongoing")
    own = c01.own_ctr(F)
    off += [e.inst for e in pat.accesses(f, F.rfield, ("store",), pred=own) if ir.const_of(f, e.val) == 0]
    if not off or not ro:
        rep.bad("C02.self", "qsbr.offline", "synchronize_rcu never takes the caller offline: an online caller waits for its own quiescent state", [f.name])
        return
    push = [i for i in pat.rmws(f, glob="gp_waiters") if pat.from_fn(i, "urcu_wait_add")]
    pat.require(push, "qsbr: push")
    # on the was_online edge, offline precedes queueing / scanning
    online_edges = set()
    for t, s, a in pat.branch_edges_on(f, lambda a: a[0] == "eq" and a[2] == ("c", 0) and a[1][0] == "call" and a[1][1] == "urcu_qsbr_read_ongoing"):
        online_edges.add((t.blk.id, s))
    rep.must_pass("C02.self", "qsbr.online⇒offline≺queue", f, [f.entry()], push, lambda i: i in off, include_start=True, edge_ok=pat.block_edge_filter(online_edges),
                  what="a caller that was online goes offline before queueing itself / scanning")
    if not on:
        rep.bad("C02.self", "qsbr.back-online", "caller is never brought back online", [f.name])
    else:
        isrd = c01.is_rd_ctr_load(F)
        scans = pat.scc_of(f, isrd)
        back, _ = f.reach(on, [i for i in f.all_insts() if isrd(i)])
        rep.check(back is None, "C02.self", "qsbr.online-after-scan", "thread_online only after the scan", "caller goes online before the scan finished", [o.where() for o in on])
        rep.must_pass("C02.self", "qsbr.online⇒back-online", f, off, None, lambda i: i in on, to_exit=True, edge_ok=pat.block_edge_filter(online_edges),
                      what="a caller taken offline is brought back online before return (was_online edges)")


FUTEX_KIND = {  # word -> flavour used on both sides (DESIGN Appendix C)
    ("memb", "urcu_gp.futex"): "futex_async", ("mb", "urcu_gp.futex"): "futex_async", ("qsbr", "urcu_gp.futex"): "futex_noasync",
    ("*", "urcu_wait_node.state"): "futex_noasync",
}


def rule_kind(ctx, rep):
    n = 0
    for fl in ("memb", "mb", "qsbr"):
        F = FL[fl]
        m = ctx.mod(F.lib, "perfn")
        seen = {}
        for g in m.defined():
            for i in g.all_insts():
                if i.op == "call" and i.callee in ("futex_async", "futex_noasync") and i.d["aps"][0] is not None:
                    ap = i.d["aps"][0]
                    fld = pat.last_field(ap)
                    gl = pat.base_global(ap)
                    key = fld or gl
                    if key not in ("urcu_gp.futex", "urcu_wait_node.state"):
                        continue
                    op = ir.const_of(g, i.args[1])
                    seen.setdefault(key, []).append((i.callee, op, i))
        for key, uses in seen.items():
            want = FUTEX_KIND.get((fl, key)) or FUTEX_KIND.get(("*", key))
            kinds = set(u[0] for u in uses)
            ops = set(u[1] for u in uses)
            n += 1
            rep.check(kinds == {want}, "C02.kind", "%s.%s" % (fl, key), "%s used through %s on all %d sites (wait and wake)" % (key, want, len(uses)),
                      "%s used through %s, expected %s on both sides (reader-side wake must be async-signal-safe; both sides must agree)" % (key, sorted(kinds), want),
                      [u[2].where() for u in uses if u[0] != want][:3])
            rep.check({mm.FUTEX_WAIT, mm.FUTEX_WAKE} <= ops, "C02.kind", "%s.%s.both-sides" % (fl, key), "word has wait and wake sites", "word lacks a wait or a wake site: %s" % sorted(ops),
                      [uses[0][2].where()])
    pat.require(n >= 6, "futex words vanished (%d)" % n)
    # ENOSYS forwarding
    m = ctx.mod("memb", "perfn")
    for gname in ("futex_async", "futex_noasync"):
        g = m.fn(gname)
        if g is None:
            raise Broken("%s vanished" % gname)
        rep.touch(g)
        cc = [c for c in g.calls() if c.callee in ("compat_futex_async", "compat_futex_noasync")]
        if not cc:
            rep.bad("C02.enosys", gname + ".fallback", "%s has no ENOSYS fallback" % gname, [g.name])
            continue
        for c in cc:
            fwd = all(ir.expr(g, c.args[k]) == ("arg", k) for k in range(min(6, len(c.args))))
            rep.check(fwd and len(c.args) == 6, "C02.enosys", gname + ".forward-args", "fallback receives all six arguments unchanged", "fallback arguments altered", [c.where()])
            ge = c01.guarded_by(g, c, lambda a: a[0] == "eq" and a[2] == ("c", 38) and a[1][0] == "load" and "__errno_location" in a[1][1])
            gl = c01.guarded_by(g, c, lambda a: a[0] == "slt" and a[2] == ("c", 0))
            rep.check(ge and gl, "C02.enosys", gname + ".guard", "fallback taken exactly on ret<0 && errno==ENOSYS", "fallback not guarded by ret<0 && errno==ENOSYS", [c.where()])


# documented / hand-confirmed lock-order edges (holder -> acquired); a vanished edge is an anchor change (inconclusive)
LOCK_EDGES = [
    ("@rcu_gp_lock", "@rcu_registry_lock", "synchronize_rcu takes the registry lock inside the grace-period lock (src/urcu.c:98-112)"),
    ("@defer_thread_mutex", "@rcu_defer_mutex", "defer (un)registration"),
    ("@rcu_defer_mutex", "@rcu_gp_lock", "rcu_defer_barrier_thread runs synchronize_rcu under rcu_defer_mutex"),
    ("@call_rcu_mutex", "@cds_lfht_fork_mutex", "call_rcu_before_fork calls the hash table's before_fork hook"),
    ("urcu_poll_worker_state.lock", "@call_rcu_mutex", "start_poll queues its worker through call_rcu under the poll lock"),
    ("cds_lfht.resize_mutex", "@rcu_gp_lock", "resize waits for grace periods under resize_mutex"),
]


def rule_lockorder(ctx, rep):
    """T6: per flavor, the lock-order graph of (flavor library + liburcu-cds) - 'm acquired while h may be held', through
    direct calls, resolved function-pointer calls (rcu_flavor_struct, urcu_atfork, mm types, work-queue and call_rcu callbacks)
    and caller contexts - is acyclic; a thread is never joined while holding a lock its body may take; a futex sleeper never
    holds a lock that every path of one of its wakers must take first; in-library callbacks run with no library lock held."""
    from .. import lockorder
    for fl in ALL:
        F = FL[fl]
        g = lockorder.LibGraph({fl: ctx.mod(F.lib, "flat"), "cds": ctx.mod("cds", "flat")})
        for f in g.fns.values():
            rep.touch(f)
        E = g.edges()
        pat.require(len(E) >= 6, "%s: lock-order graph has only %d edges" % (fl, len(E)))
        cyc = g.cycles(E)
        selfe = [(a, b) for (a, b) in E if a == b]
        if not cyc and not selfe:
            rep.ok("C02.lockorder", fl + ".acyclic", "lock-order graph acyclic: %d locks, %d edges" % (len(set(x for e in E for x in e)), len(E)),
                   ["%s -> %s" % e for e in sorted(E)][:6])
        for c in cyc:
            sites = []
            for a, b in zip(c, c[1:]):
                sites.append("%s -> %s at %s" % (a, b, E[(a, b)][0]))
            rep.bad("C02.lockorder", fl + ".cycle." + "→".join(x.lstrip("@") for x in c), "lock-order cycle: two threads taking these locks in the two orders deadlock", sites)
        for a, b in selfe:
            rep.bad("C02.lockorder", fl + ".reacquire." + a.lstrip("@"), "non-recursive mutex %s may be acquired while already held" % a, E[(a, b)][:3])
        for a, b, why in LOCK_EDGES:
            if (a, b) not in E:
                raise Broken("%s: documented lock-order edge %s -> %s (%s) not found: anchors changed" % (fl, a, b, why))
        # join under lock
        js = g.joins()
        pat.require(len(js) >= 3, "%s: pthread_join sites" % fl)
        for i, held, key, thr in js:
            if not thr:
                thr = [(t, g.acq_trans().get(t, set())) for t in g.thread_roots]
            clash = sorted(set(l for t, acq in thr for l in acq if l in held))
            rep.check(not clash, "C02.lockorder", "%s.join@%s:%d" % (fl, i.origin_fn, i.line), "thread %s joined holding %s, none of which its body takes" % ([t for t, _ in thr], sorted(held) or "no lock"),
                      "pthread_join while holding %s, which the joined thread (%s) may need before it can exit: deadlock" % (clash, [t for t, _ in thr]), [i.where()])
        # futex sleepers vs. wakers
        waits, wakes = g.futex_sites()
        pat.require(waits and wakes, "%s: futex sites" % fl)
        ctxh = g.context()
        n = 0
        for wt in waits:
            f = wt.fn
            held = set(g.held(f).get(wt.id, ())) | ctxh[f.name]
            word = pat.last_field(wt.d["aps"][1]) if wt.d["aps"][1] else None
            for wk in wakes:
                if not wk.d["aps"][1] or pat.last_field(wk.d["aps"][1]) != word or word is None:
                    continue
                n += 1
                need = g.must_acquire_before(wk.fn, wk) | set(x for x in g.held(wk.fn).get(wk.id, ()))
                clash = sorted(held & need)
                rep.check(not clash, "C02.lockorder", "%s.sleep@%s:%d/wake@%s:%d" % (fl, f.name, wt.line, wk.fn.name, wk.line),
                          "sleeper on %s holds %s; its waker needs none of them" % (word, sorted(held) or "no lock"),
                          "the thread sleeping on %s holds %s, which the waking path in %s must acquire before it reaches FUTEX_WAKE: neither can proceed" % (word, clash, wk.fn.name),
                          [wt.where(), wk.where()])
        pat.require(n >= 3, "%s: only %d futex sleeper/waker pairs matched" % (fl, n))
        # thread lifecycle vs. the grace period's sleep: a lock the grace period keeps while it sleeps / spins waiting for readers
        # (it drops the registry lock exactly so that threads can come and go) is never needed by (un)registration or by
        # qsbr's offline/online - a reader being waited for may itself be waiting for such a thread (join, condition, pipe)
        sy = g.fns.get(F.pfx + "_synchronize_rcu")
        pat.require(sy is not None, "%s: synchronize_rcu" % fl)
        hs = g.held(sy)
        sleeps = [i for i in sy.all_insts() if mm.is_futex(i, mm.FUTEX_WAIT) or (i.op == "call" and i.callee in ("usleep", "poll", "nanosleep", "sched_yield"))]
        pat.require(sleeps, "%s: synchronize_rcu sleep sites" % fl)
        H = set()
        for i in sleeps:
            H |= set(hs.get(i.id, ()))
        pat.require(H, "%s: no lock held while the grace period sleeps (anchor changed)" % fl)
        acq = g.acq_trans()
        life = [x for x in (F.pfx + "_register_thread", F.pfx + "_unregister_thread", F.pfx + "_thread_offline", F.pfx + "_thread_online", F.pfx + "_register", F.pfx + "_unregister",
                            "urcu_bp_thread_exit_notifier") if x in g.fns]
        pat.require(len(life) >= 2, "%s: thread lifecycle entry points" % fl)
        for x in life:
            clash = sorted(acq.get(x, set()) & H)
            rep.check(not clash, "C02.lockorder", "%s.lifecycle-vs-gp-sleep.%s" % (fl, x), "%s needs none of the locks the grace period sleeps with (%s)" % (x, sorted(H)),
                      "%s acquires %s, which synchronize_rcu keeps while it sleeps waiting for readers: a reader that (inside its critical section) waits for this thread - "
                      "pthread_join of a worker that unregisters on exit - closes a cycle grace period -> reader -> thread -> grace period, synchronize_rcu never returns" % (x, clash),
                      [sleeps[0].where()])


META["explanation"] += " " + "Also (rounds 10-11): the queued wait node starts WAITING, wake_all skips only RUNNING nodes, qsbr's waiting flag is announced non-zero and tested with the matching polarity, the reader-side outermost test masks the nesting count."

META["explanation"] += " " + 'Also (round 12): a call_rcu helper never sleeps / polls while online (qsbr); nesting rules shared from C01.'

META["explanation"] += " " + 'Also (round 14): bp synchronize_rcu restores the signal mask only after both locks are released (shared from C19).'

RULES = [
    ("C02.sb-upd", rule_sb_upd),
    ("C02.sb-rd", rule_sb_rd),
    ("C02.wake", rule_wake),
    ("C02.waitloop", rule_waitloop),
    ("C02.node", rule_node),
    ("C02.wakeall", rule_wakeall),
    ("C02.locks", rule_locks),
    ("C02.self", rule_self),
    ("C02.kind", rule_kind),
    ("C02.sigmask", lambda c, r: pat.shared(__import__("sa.rules.c19", fromlist=["x"]).rule_bp, "C02.sigmask", lambda x: "restore-after-unlock" in x["instance"] or x["status"] != "pass")(c, r)),   # bp: a signal delivered while synchronize_rcu still owns rcu_registry_lock / rcu_gp_lock registers its thread from the handler and blocks on the lock its own frame holds - the grace period never completes
    ("C02.lockorder", rule_lockorder),
    ("C02.enosys", rule_compat),
    ("C02.leader", rule_leader),
    ("C02.qs", rule_qs),
    ("C02.nest", lambda c, r: pat.shared(__import__("sa.rules.c01", fromlist=["x"]).rule_rlock, "C02.nest", lambda x: "every-path" in x["instance"] or "nested-increment" in x["instance"] or x["status"] != "pass")(c, r)),   # a reader `leaves` only if its last unlock is recognised as outermost: every unlock takes one level off
    ("C02.nest", lambda c, r: pat.shared(__import__("sa.rules.c01", fromlist=["x"]).rule_runlock, "C02.nest", lambda x: "every-path" in x["instance"] or x["status"] != "pass")(c, r)),
    ("C02.helper-offline", lambda c, r: pat.shared(__import__("sa.rules.c03", fromlist=["x"]).rule_offline, "C02.helper-offline", lambda x: "qsbr.sleep" in x["instance"] or x["status"] != "pass")(c, r)),   # a call_rcu helper is a registered qsbr reader: while it sleeps / polls online no grace period completes
]
FLOORS = {}
