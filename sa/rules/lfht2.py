"""Hash table, second rule set: the sequential skeleton of the operations (written after the mechanical-mutant
measurement showed whole functions no rule looked at).  Every rule is a necessary condition of the properties it is
registered under; shapes that are not recognised are inconclusive (Broken), never a violation."""
import os
from .. import ir, mm, pat, paths
from ..core import Broken
from .lfht import fn, bits, NEXT, RH


def _shift_of(e, var):
    """k such that e == 1 << (var + k), however the exponent is written; None when e is not of that family"""
    from .. import linear
    if e[0] == "bin" and e[1] == "lshr" and e[3][0] == "c":
        k = _shift_of(e[2], var)
        return None if k is None else k - e[3][1]
    if e[0] == "bin" and e[1] == "shl" and e[2] != ("c", 1) and e[3][0] == "c":
        k = _shift_of(e[2], var)
        return None if k is None else k + e[3][1]
    if not (e[0] == "bin" and e[1] == "shl" and e[2] == ("c", 1)):
        return None
    n = linear.norm(e[3])
    if n is None:
        return None
    t = linear._term(var)
    rest = {k_: v for k_, v in n.items() if k_ != 1}
    if rest != {t: 1}:
        return None
    return n.get(1, 0)


def _check_shift(rep, rid, inst, e, var, want_k, okmsg, badmsg, sites):
    """expected shift => pass, another shift of the same family => violation, anything else => inconclusive"""
    k = _shift_of(e, var)
    if k is None:
        raise Broken("%s: %s is not of the form 1 << (level + k): not comparable" % (inst, ir.expr_str(e)))
    rep.check(k == want_k, rid, inst, okmsg, badmsg % ir.expr_str(e), sites)
    return k == want_k


def _sel_flag(e, B, base_pred):
    """e == select((X and BUCKET) != 0, (base or BUCKET), base) with base_pred(base)"""
    if e[0] != "select":
        return False
    c = e[1]
    okc = c[0] == "icmp" and c[1] == "ne" and c[3] == ("c", 0) and c[2][0] == "bin" and c[2][1] == "and" and c[2][3] == ("c", B.BUCKET)
    okt = e[2][0] == "bin" and e[2][1] == "or" and e[2][3] == ("c", B.BUCKET) and e[2][2] == e[3]
    return okc and okt and base_pred(e[3])


def rule_addskel(ctx, rep, rid):
    """_cds_lfht_add: where a node goes and what is written.  (1) the walk leaves for the insertion only at the end of the
    list, at the first node with a larger reverse hash, at an equal reverse hash when a bucket node is being linked, or after
    a duplicate search that found nothing; (2) the predecessor's new next is the node, carrying BUCKET iff the replaced word
    did; the node's own next is the successor with BUCKET iff the node is a bucket node; (3) helping unlink keeps the BUCKET
    flag of the word it replaces; (4) on success *unique_ret reports the node itself."""
    B = bits(ctx)
    f = fn(ctx, "_cds_lfht_add")
    rep.touch(f)
    cx = [e for e in pat.accesses(f, NEXT, ("cmpxchg",))]
    ins = [c for c in cx if ir.expr_contains(ir.expr(f, c.new, 8), lambda z: z == ("arg", 5))]
    gc = [c for c in cx if c not in ins]
    pat.require(len(ins) == 1 and len(gc) == 1, "_cds_lfht_add: insertion / helping cmpxchg")
    ins, gc = ins[0], gc[0]
    new = ir.expr(f, ins.new, 8)
    exp = ir.expr(f, ins.exp, 4)
    ok2 = _sel_flag(new, B, lambda b: b == ("arg", 5)) and new[1][2][2] == exp
    if not ok2 and new == ("arg", 5):
        rep.bad(rid, "add.link-keeps-BUCKET", "the insertion installs the bare node pointer: when the replaced word carried the BUCKET flag (the predecessor's successor is a bucket node marker) the flag is lost - "
                "lookups and resizes no longer recognise the chain structure", [ins.inst.where()])
    elif not ok2:
        raise Broken("_cds_lfht_add: new value of the insertion cmpxchg has an unrecognised shape: %s" % ir.expr_str(new))
    else:
        rep.ok(rid, "add.link-keeps-BUCKET", "predecessor->next := node | (BUCKET iff the replaced word had it)", [ins.inst.where()])
    gnew = ir.expr(f, gc.new, 8)
    gexp = ir.expr(f, gc.exp, 4)
    okg = _sel_flag(gnew, B, lambda b: b[0] == "bin" and b[1] == "and" and b[3] == ("c", -8) and b[2][0] == "load") and gnew[1][2][2] == gexp
    if not okg and gnew[0] == "bin" and gnew[1] == "and":
        rep.bad(rid, "add.help-keeps-BUCKET", "helping unlink installs the successor without the BUCKET flag of the word it replaces", [gc.inst.where()])
    elif not okg:
        raise Broken("_cds_lfht_add: new value of the helping cmpxchg has an unrecognised shape: %s" % ir.expr_str(gnew))
    else:
        rep.ok(rid, "add.help-keeps-BUCKET", "helping unlink: predecessor->next := clear(next) | (BUCKET iff the replaced word had it)", [gc.inst.where()])
    # helping unlinks only what is logically removed: the helping cmpxchg is reached only along `(next & REMOVED) != 0` of the word just loaded
    rem = [(t.blk.id, s_) for t, s_, a in pat.branch_edges_on(f, lambda a: a[0] == "ne" and a[2] == ("c", 0) and a[1][0] == "bin" and a[1][1] == "and" and a[1][3] == ("c", B.REMOVED) and a[1][2][0] == "load")]
    if not rem:
        rep.bad(rid, "add.help-only-removed", "_cds_lfht_add never tests REMOVED on the successor word yet unlinks nodes from the chain", [gc.inst.where()])
    else:
        rep.must_take_edge(rid, "add.help-only-removed", f, [f.entry()], [gc.inst], rem, include_start=True,
                           what="the helping unlink in _cds_lfht_add is attempted only on a node whose next word was seen with REMOVED (a live node is never unlinked by an insertion)")
    # the node's own next
    sts = [s for s in pat.stores(f, NEXT) if s.d["ap"]["base"] == ["a", 5]]
    pat.require(len(sts) == 2, "_cds_lfht_add: node->next stores")
    for s in sts:
        v = ir.expr(f, s.args[0], 6)
        flagged = v[0] == "bin" and v[1] == "or" and v[3] == ("c", B.BUCKET)
        lv = pat.dom_leaf_atoms(f, s)
        want = "ne" if flagged else "eq"
        okb = any(a[0] == want and a[1] == ("arg", 7) and a[2] == ("c", 0) for a in lv)
        rep.check(okb, rid, "add.node-next-flag@%d" % s.line, "node->next %s BUCKET exactly when bucket_flag is %s" % ("carries" if flagged else "lacks", "set" if flagged else "clear"),
                  "node->next is stored %s the BUCKET flag on a path where bucket_flag is %s" % ("with" if flagged else "without", "not known to be set" if flagged else "not known to be clear"), [s.where()])
    rep.must_pass(rid, "add.node-next≺link", f, [f.entry()], [ins.inst], lambda i: i in sts, include_start=True, what="node->next is written before the node is linked")
    # (1) insertion point
    rh_node = lambda e: e[0] == "load" and e[1] == "arg5.cds_lfht_node.reverse_hash"
    rh_iter = lambda e: e[0] == "load" and e[1].endswith("cds_lfht_node.reverse_hash") and not e[1].startswith("arg5.")
    allowed, wrong = set(), []
    for b in f.blocks:
        for s_ in b.succ:
            for a in ir.edge_atoms(f, b.id, s_):
                if len(a) != 3:
                    continue
                if a[0] == "ne" and a[2] == ("c", 0) and a[1][0] == "select":
                    # merged form of `bucket_flag && equal hash`
                    lv2 = []
                    pat.leaf_atoms(("icmp", "ne", a[1], ("c", 0)), True, lv2)
                    if any(x[0] == "ne" and x[1] == ("arg", 7) and x[2] == ("c", 0) for x in lv2) and any(x[0] == "eq" and ((rh_iter(x[1]) and rh_node(x[2])) or (rh_node(x[1]) and rh_iter(x[2]))) for x in lv2):
                        allowed.add((b.id, s_))
                    continue
                if a[0] == "eq" and a[2] == ("c", 0) and a[1][0] == "bin" and a[1][1] == "and" and a[1][3] == ("c", -8):
                    allowed.add((b.id, s_))           # is_end(iter)
                elif a[0] == "ugt" and rh_iter(a[1]) and rh_node(a[2]) or a[0] == "ult" and rh_node(a[1]) and rh_iter(a[2]):
                    allowed.add((b.id, s_))           # first larger reverse hash
                elif a[0] == "eq" and ((rh_iter(a[1]) and rh_node(a[2])) or (rh_node(a[1]) and rh_iter(a[2]))):
                    lv = pat.dom_leaf_atoms(f, f.blocks[b.id].insts[-1])
                    if any(x[0] == "ne" and x[1] == ("arg", 7) and x[2] == ("c", 0) for x in lv):
                        allowed.add((b.id, s_))       # bucket node: first of its identical-hash chain
                elif a[0] == "eq" and a[2] == ("c", 0) and a[1][0] == "load" and a[1][1].startswith("local:") and a[1][1].endswith("cds_lfht_iter.node"):
                    allowed.add((b.id, s_))           # duplicate search found nothing
    loop_entry = [l for l in pat.loads(f, NEXT) if not ir.ap_str(f, l.d["ap"]).startswith("(phi")]
    pat.require(allowed and loop_entry, "_cds_lfht_add: walk skeleton")
    rep.must_take_edge(rid, "add.insertion-point", f, loop_entry[:1], [ins.inst], sorted(allowed), include_start=False,
                       what="the walk reaches the insertion only through: end of list | first larger reverse hash | equal hash while linking a bucket node | duplicate search empty")
    # (1b) the other direction: while a *bucket* node is being linked the walk never steps past a node of equal reverse hash - the bucket
    # node must come first among equals, lookups for that hash start right behind it.  Every way from the top of an iteration to the
    # advance (predecessor := clear_flag(iter)) either knows bucket_flag == 0 or has seen reverse_hash(iter) != reverse_hash(node).
    pcx = ins.ap["base"]
    if pcx[0] == "i" and f.insts[pcx[1]].op == "phi":
        ph = f.insts[pcx[1]]
        advs = [blk for v, blk in ph.d["inc"] if (lambda x: x[0] == "bin" and x[1] == "and" and x[3] == ("c", -8))(ir.expr(f, v, 4))]
        E = set()
        merged = False
        for b in f.blocks:
            for s_ in b.succ:
                for a in ir.edge_atoms(f, b.id, s_):
                    if len(a) != 3:
                        continue
                    if a[0] == "eq" and a[1] == ("arg", 7) and a[2] == ("c", 0):
                        E.add((b.id, s_))
                    elif a[0] in ("ne", "ult", "ugt") and ((rh_iter(a[1]) and rh_node(a[2])) or (rh_node(a[1]) and rh_iter(a[2]))):
                        if a[0] == "ne" or (a[0] == "ult" and rh_iter(a[1])) or (a[0] == "ugt" and rh_node(a[1])):
                            E.add((b.id, s_))
                    elif a[0] == "eq" and a[2] == ("c", 0) and a[1][0] == "select":
                        # !(c1 && c2 && ...): an E edge when every conjunct is `bucket_flag != 0` or `equal reverse hash` (then the negation
                        # says: not a bucket insertion, or a different hash); a further conjunct (some other property of iter) leaves a
                        # way past an equal-hash node open
                        lv2 = []
                        pat.leaf_atoms(("icmp", "ne", a[1], ("c", 0)), True, lv2)
                        is_bf = lambda x: x[0] == "ne" and x[1] == ("arg", 7) and x[2] == ("c", 0)
                        is_eq = lambda x: x[0] == "eq" and len(x) == 3 and ((rh_iter(x[1]) and rh_node(x[2])) or (rh_node(x[1]) and rh_iter(x[2])))
                        if lv2 and any(is_eq(x) for x in lv2) and all(is_bf(x) or is_eq(x) for x in lv2):
                            E.add((b.id, s_))
        if advs and not merged:
            hdr = f.blocks[ph.blk.id].insts[0]
            tg = [f.blocks[b_].insts[-1] for b_ in advs]
            hit, par = f.reach([hdr], tg, edge_ok=pat.block_edge_filter(E), include_start=True)
            rep.check(hit is None, rid, "add.bucket-first-among-equals", "linking a bucket node, the walk advances past a node only after seeing a different reverse hash",
                      "with bucket_flag set the walk can step past a node whose reverse hash equals the new bucket node's: the bucket node is linked *behind* a resident node of that hash, "
                      "and every lookup / add_unique / replace for it - which start at the bucket node - no longer finds the node", [hit.where()] if hit is not None else [])
        elif advs:
            rep.unk(rid, "add.bucket-first-among-equals", "the equal-hash test is merged into a select this rule does not decompose")
    # (4) unique_ret
    ur = [s for s in f.all_insts() if s.op == "store" and s.d["ap"] and s.d["ap"]["base"] == ["a", 6] and pat.last_field(s.d["ap"]) == "cds_lfht_iter.node"]
    own = [s for s in ur if ir.expr(f, s.args[0], 3) == ("arg", 5)]
    nul = set((t.blk.id, s_) for t, s_, a in pat.branch_edges_on(f, lambda a: a[0] == "eq" and a[1] == ("arg", 6) and a[2] == ("c", 0)))
    if not own:
        rep.bad(rid, "add.unique_ret=node", "after a successful insertion *unique_ret does not report the inserted node: add_unique / add_replace return a stale iterator (callers take their own node for a duplicate, or the reverse)", [ins.inst.where()])
    else:
        rep.must_pass(rid, "add.unique_ret=node", f, [ins.inst], None, lambda i: i in own, to_exit=True, edge_ok=pat.block_edge_filter(nul | _retry_edges(f, ins)),
                      what="on success unique_ret->node = node before returning (when unique_ret is given)")


def _retry_edges(f, c):
    """edges taken when the cmpxchg failed (result != expected)"""
    out = set()
    for t, s_, a in pat.branch_edges_on(f, lambda a: a[0] == "ne" and any(isinstance(x, tuple) and x[0] == "asm" and x[-1] == c.inst.id for x in (a[1], a[2]))):
        out.add((t.blk.id, s_))
    return out


def rule_allocdiscipline(ctx, rep, rid):
    """Who may call the C allocator in the hash table: every byte the table and its resize machinery use comes from the `struct cds_lfht_alloc`
    the table was created with (default: the cds_lfht_malloc / calloc / realloc / aligned_alloc / free hooks, which are the only functions of
    rculfhash*.c that call libc's allocator directly).  Memory obtained through ht->alloc and released with free() - or the reverse - is an
    invalid free for any caller-supplied allocator (cds_lfht_new_with_flavor_alloc)."""
    m = ctx.mod("cds", "perfn")
    hooks = set()
    g0 = m.globals.get("cds_lfht_default_alloc") or {}
    n = 0
    for g in m.defined():
        for c in g.calls():
            if c.callee not in ("free", "malloc", "calloc", "realloc", "posix_memalign", "aligned_alloc", "valloc", "memalign"):
                continue
            loc = c.d.get("loc") or []
            files = set(os.path.basename(x[1]) for x in loc if len(x) >= 2)
            if not any(x.startswith("rculfhash") for x in files):
                continue
            n += 1
            ok = g.srcname.startswith("cds_lfht_") and g.srcname[len("cds_lfht_"):] in ("malloc", "calloc", "realloc", "aligned_alloc", "free")
            rep.check(ok, rid, "%s.%s@%d" % (g.srcname, c.callee, c.line), "libc %s is called from the default allocator hook %s" % (c.callee, g.srcname),
                      "%s calls libc %s directly: tables created with a caller-supplied allocator get memory from / return memory to the wrong allocator (invalid free, heap corruption)" % (g.srcname, c.callee), [c.where()])
    pat.require(n >= 4, "default allocator hooks of rculfhash.c not found (%d libc allocation calls)" % n)


def rule_rhinit(ctx, rep, rid):
    """every entry point that links a caller's node first records node->reverse_hash = bit_reverse_ulong(hash) of the hash it was given:
    the chain order, every later lookup's stop test and the bucket the node belongs to are all derived from that field"""
    m = ctx.mod("cds", "perfn")
    TAB = {"cds_lfht_add": (1, 2), "cds_lfht_add_unique": (1, 4), "cds_lfht_add_replace": (1, 4), "cds_lfht_replace": (2, 5)}
    for name, (harg, narg) in TAB.items():
        g = m.fn(name)
        if g is None:
            raise Broken("%s vanished" % name)
        rep.touch(g)
        links = [c for c in g.calls() if m.fn(c.callee) is not None and m.fn(c.callee).srcname in ("_cds_lfht_add", "_cds_lfht_replace")]
        pat.require(links, name + ": linking call")
        sts = [s_ for s_ in g.all_insts() if s_.op == "store" and s_.d.get("ap") and s_.d["ap"]["base"] == ["a", narg] and pat.last_field(s_.d["ap"]) == "cds_lfht_node.reverse_hash"]
        if not sts:
            rep.bad(rid, name + ".reverse_hash", "%s links the caller's node without setting node->reverse_hash: the node sits in the chain with whatever the field held - lookups stop early or walk past it" % name, [links[0].where()])
            continue
        good = []
        for s_ in sts:
            v = ir.expr(g, s_.args[0], 4)
            if v[0] == "call" and v[1].startswith("bit_reverse_ulong") and ir.expr(g, g.insts[v[2]].args[0], 3) == ("arg", harg):
                good.append(s_)
            else:
                rep.bad(rid, name + ".reverse_hash-value", "node->reverse_hash is set to %s, not bit_reverse_ulong(hash)" % ir.expr_str(v), [s_.where()])
        if good:
            rep.must_pass(rid, name + ".reverse_hash", g, [g.entry()], links, lambda i, good=good: i in good, include_start=True, what="node->reverse_hash = bit_reverse_ulong(hash) before the node is linked")


def rule_walkstart(ctx, rep, rid):
    """every walk over the whole table starts at the first bucket node, bucket_at(ht, 0) - the head of the single ordered list
    (traversal, emptiness test, node count, the bucket-only check of destroy); bucket 1 is somewhere in the middle of the list"""
    m = ctx.mod("cds", "perfn")
    n = 0
    for name in ("cds_lfht_first", "cds_lfht_is_empty", "cds_lfht_count_nodes", "cds_lfht_delete_bucket"):
        g = m.fn(name)
        if g is None:
            cand = [x for x in m.defined() if x.srcname == name]
            g = cand[0] if cand else None
        if g is None:
            raise Broken("%s vanished" % name)
        rep.touch(g)
        cs = [c for c in g.calls() if m.fn(c.callee) is not None and m.fn(c.callee).srcname == "bucket_at" and ir.const_of(g, c.args[1]) is not None]
        ic = [i for i in g.all_insts() if i.op == "icall" and (lambda e: e[0] == "load" and e[1].endswith("bucket_at"))(ir.expr(g, i.d["fp"])) and ir.const_of(g, i.args[1]) is not None]
        if not cs and not ic:
            raise Broken("%s: no bucket_at(ht, <constant>) call" % name)
        for c in cs + ic:
            n += 1
            k = ir.const_of(g, c.args[1])
            rep.check(k == 0, rid, name + ".starts-at-bucket-0", "the walk starts at bucket_at(ht, 0)", "%s starts its walk at bucket %d: every node ordered before that bucket is skipped%s" % (
                name, k, " (a traversal misses stored nodes)" if name == "cds_lfht_first" else ""), [c.where()])
    pat.require(n >= 4, "only %d whole-table walks found" % n)


def rule_addreplace(ctx, rep, rid):
    """cds_lfht_add_replace: NULL exactly when its own node went in (iter.node == node after _cds_lfht_add); an old node is returned only
    along `_cds_lfht_replace() == 0` - the caller owns what is returned, and the loser of a race for the old node must retry, not report
    a node somebody else obtained; the replace is applied to the node / next snapshot the duplicate search produced."""
    f = ctx.mod("cds", "perfn").fn("cds_lfht_add_replace")
    if f is None:
        raise Broken("cds_lfht_add_replace vanished")
    rep.touch(f)
    rp = [c for c in f.calls() if f.mod.fn(c.callee) is not None and f.mod.fn(c.callee).srcname == "_cds_lfht_replace"]
    ad = [c for c in f.calls() if f.mod.fn(c.callee) is not None and f.mod.fn(c.callee).srcname == "_cds_lfht_add"]
    pat.require(len(rp) == 1 and len(ad) == 1, "cds_lfht_add_replace: add / replace calls")
    rp, ad = rp[0], ad[0]
    ok_e = [(t.blk.id, s_) for t, s_, a in pat.branch_edges_on(f, lambda a: a[0] == "eq" and a[1] == ("call", rp.callee, rp.id) and a[2] == ("c", 0))]
    fail_e = [(t.blk.id, s_) for t, s_, a in pat.branch_edges_on(f, lambda a: a[0] == "ne" and a[1] == ("call", rp.callee, rp.id) and a[2] == ("c", 0))]
    if not ok_e or not fail_e:
        rep.bad(rid, "add_replace.tests-replace", "the result of _cds_lfht_replace does not decide what cds_lfht_add_replace does next", [rp.where()])
        return
    # after a successful replace: return (the old node); after a failed one: back to _cds_lfht_add
    for (b_, s_), want, what in ((ok_e[0], "ret", "a successful replace returns"), (fail_e[0], "retry", "a failed replace (the old node was taken by someone else) retries from _cds_lfht_add")):
        start = f.blocks[s_].insts[0]
        to_add = f.reach([start], [ad], include_start=True)[0] is not None
        to_ret = f.reach([start], None, avoid=lambda i: i is ad, stop_at_exit=True, include_start=True)[0] is not None
        got = "retry" if to_add and not to_ret else ("ret" if to_ret and not to_add else "both")
        rep.check(got == want, rid, "add_replace.%s" % ("on-success" if want == "ret" else "on-failure"), what,
                  "%s: after `_cds_lfht_replace() %s 0` cds_lfht_add_replace %s - %s" % (what, "==" if want == "ret" else "!=", "goes round again" if got == "retry" else "returns",
                  "the replaced node is handed to nobody (the retry finds its own node and reports a plain insertion)" if want == "ret" else "it hands out a node that another del / replace obtained"), [rp.where()])
    # the value returned
    for r in f.rets():
        e = ir.expr(f, r.args[0], 6, through_phi=False)
        alts = [(ir.expr(f, v, 6), blk) for v, blk in f.insts[e[1]].d["inc"]] if e[0] == "phi" else [(e, r.blk.id)]
        for a, blk in alts:
            if a in (("c", 0), ("null",)):
                g = pat.dom_leaf_atoms(f, f.blocks[blk].insts[0])
                okn = any(x[0] == "eq" and x[1][0] == "load" and x[1][1].endswith("cds_lfht_iter.node") and x[2] == ("arg", 4) for x in g)
                rep.check(okn, rid, "add_replace.null-iff-own-node", "NULL is returned only when the search came back with the caller's own node", "NULL is returned although the search found another node", [r.where()])
            else:
                okv = a[0] == "load" and a[1].endswith("cds_lfht_iter.node")
                rep.check(okv, rid, "add_replace.returns-found-node", "the node returned is the one the search found (and the replace removed)", "returns %s" % ir.expr_str(a), [r.where()])
    a1, a2 = ir.expr(f, rp.args[2], 4), ir.expr(f, rp.args[3], 4)
    rep.check(a1[0] == "load" and a1[1].endswith("cds_lfht_iter.node") and a2[0] == "load" and a2[1].endswith("cds_lfht_iter.next"), rid, "add_replace.replace-args", "the replace is applied to (iter.node, iter.next) of the search",
              "the replace is applied to (%s, %s)" % (ir.expr_str(a1), ir.expr_str(a2)), [rp.where()])


ENTRY = {
    # caller -> (match, key, unique_ret, bucket_flag): "0" constant 0, "arg" forwarded argument, "local" address of a local iterator
    "cds_lfht_add": ("0", "0", "0", 0),
    "cds_lfht_add_unique": ("arg", "arg", "local", 0),
    "cds_lfht_add_replace": ("arg", "arg", "local", 0),
    "init_table_populate_partition": ("0", "0", "0", 1),
}


def rule_entry(ctx, rep, rid):
    """what each caller asks _cds_lfht_add for: user adds never carry bucket_flag (the node would be linked as a bucket
    marker, invisible to lookups), plain add runs no duplicate search, add_unique / add_replace run it with the caller's
    match / key and a local result iterator, the resize and creation paths link bucket nodes."""
    m = ctx.mod("cds", "perfn")
    n = 0
    for g in m.defined():
        for c in g.calls():
            t = m.fn(c.callee) if c.callee else None
            if t is None or t.srcname != "_cds_lfht_add":
                continue
            if g.srcname not in ENTRY:
                raise Broken("_cds_lfht_add called from %s: not in the table of entry points" % g.srcname)
            rep.touch(g)
            n += 1
            want = ENTRY[g.srcname]
            got = []
            for k in (2, 3, 6):
                e = ir.expr(g, c.args[k], 3)
                got.append("0" if e == ("c", 0) else "arg" if e[0] == "arg" else "local" if e[0] == "addr" and e[1].startswith("local:") else ir.expr_str(e))
            bf = ir.const_of(g, c.args[7])
            ok = tuple(got) == want[:3] and bf == want[3]
            rep.check(ok, rid, "entry." + g.srcname, "%s calls _cds_lfht_add(match=%s, key=%s, unique_ret=%s, bucket_flag=%s)" % ((g.srcname,) + want),
                      "%s calls _cds_lfht_add(match=%s, key=%s, unique_ret=%s, bucket_flag=%s), expected (%s, %s, %s, %s): %s" % (
                          (g.srcname,) + tuple(got) + (bf,) + want + ("a user node linked with bucket_flag is flagged as a bucket marker and never found again" if bf != want[3] and want[3] == 0 else
                                                                        "the duplicate search is not run / run for the wrong request",)), [c.where()])
    pat.require(n >= 4, "only %d _cds_lfht_add call sites" % n)
    # add_unique / add_replace hand back what the search found
    for name in ("cds_lfht_add_unique",):
        g = m.fn(name)
        if g is None:
            raise Broken(name + " vanished")
        r = g.rets()[0]
        e = ir.expr(g, r.args[0], 4)
        is_found = lambda x: x[0] == "load" and x[1].startswith("local:") and x[1].endswith("cds_lfht_iter.node")
        if e[0] == "phi":
            # `return node` on the path where the search came back with the caller's own node is the same value
            okr = True
            for v_, blk in g.insts[e[1]].d["inc"]:
                x = ir.expr(g, v_, 4)
                if is_found(x):
                    continue
                gd = list(pat.dom_leaf_atoms(g, g.blocks[blk].insts[0]))
                if len(g.blocks[blk].succ) >= 2:
                    gd += list(ir.edge_atoms(g, blk, g.insts[e[1]].blk.id))
                same = any(a[0] == "eq" and ((is_found(a[1]) and a[2] == x) or (is_found(a[2]) and a[1] == x)) for a in gd)
                okr = okr and x[0] == "arg" and same
        else:
            okr = is_found(e)
        rep.check(okr, rid, "entry.%s.returns-found" % name, "returns the node reported through unique_ret (the existing duplicate, or its own node)", "returns %s instead of the node the search reported" % ir.expr_str(e), [r.where()])


def rule_partition_thread(ctx, rep, rid):
    """a partition thread runs exactly the work item it was given, as a registered RCU thread"""
    m = ctx.mod("cds", "perfn")
    f = m.fn("partition_resize_thread")
    if f is None:
        raise Broken("partition_resize_thread vanished")
    rep.touch(f)
    ics = [i for i in f.all_insts() if i.op == "icall"]
    work = [i for i in ics if (lambda e: e[0] == "load" and e[1].endswith("partition_resize_work.fct"))(ir.expr(f, i.d["fp"], 3))]
    reg = [i for i in ics if (lambda e: e[0] == "load" and e[1].endswith("rcu_flavor_struct.register_thread"))(ir.expr(f, i.d["fp"], 6))]
    unreg = [i for i in ics if (lambda e: e[0] == "load" and e[1].endswith("rcu_flavor_struct.unregister_thread"))(ir.expr(f, i.d["fp"], 6))]
    if not work:
        rep.bad(rid, "partition_thread.runs-item", "the partition thread does not run its work item: that part of the level is never populated / unlinked while the caller publishes the new size", [f.name])
        return
    w = work[0]
    args = [ir.expr(f, a, 3) for a in w.args]
    want = ["ht", "i", "start", "len"]
    okargs = len(args) == 4 and all(a[0] == "load" and a[1] == "arg0.partition_resize_work." + k for a, k in zip(args, want))
    rep.check(okargs, rid, "partition_thread.item-args", "fct(work->ht, work->i, work->start, work->len)", "work function called with %s" % [ir.expr_str(a) for a in args], [w.where()])
    rep.must_pass(rid, "partition_thread.runs-item", f, [f.entry()], None, lambda i: i is w, to_exit=True, include_start=True, what="every return passes the work item")
    if reg and unreg:
        rep.must_pass(rid, "partition_thread.registered", f, [f.entry()], [w], lambda i: i in reg, include_start=True, what="register_thread before the work (it takes read-side locks)")
        rep.must_pass(rid, "partition_thread.unregisters", f, [w], None, lambda i: i in unreg, to_exit=True, what="unregister_thread after the work")
    else:
        rep.bad(rid, "partition_thread.registered", "the partition thread does not register / unregister with the flavor around its work", [f.name])


def rule_dispatch(ctx, rep, rid):
    """_do_cds_lfht_resize: grow iff size < target, shrink iff size > target, nothing while a destroy is in progress"""
    m = ctx.mod("cds", "perfn")
    f = m.fn("_do_cds_lfht_resize")
    if f is None:
        raise Broken("_do_cds_lfht_resize vanished")
    rep.touch(f)
    sz = lambda e: e[0] == "load" and e[1].endswith("cds_lfht.size")
    tg = lambda e: e[0] == "load" and e[1].endswith("cds_lfht.resize_target")
    for callee, lt in (("_do_cds_lfht_grow", True), ("_do_cds_lfht_shrink", False)):
        cs = pat.calls(f, callee)
        pat.require(cs, "_do_cds_lfht_resize: " + callee)
        for c in cs:
            lv = pat.dom_leaf_atoms(f, c)
            if lt:
                ok = any((a[0] == "ult" and sz(a[1]) and tg(a[2])) or (a[0] == "ugt" and tg(a[1]) and sz(a[2])) for a in lv)
                bad = any((a[0] in ("ugt", "uge") and sz(a[1]) and tg(a[2])) for a in lv)
            else:
                ok = any((a[0] == "ugt" and sz(a[1]) and tg(a[2])) or (a[0] == "ult" and tg(a[1]) and sz(a[2])) for a in lv)
                bad = any((a[0] in ("ult", "ule") and sz(a[1]) and tg(a[2])) for a in lv) and not ok
            what = "size < target" if lt else "size > target"
            if ok and not (lt and bad):
                rep.ok(rid, "resize.%s" % callee, "%s only when %s" % (callee, what), [c.where()])
            elif bad or not ok:
                if not any((sz(a[1]) and tg(a[2])) or (tg(a[1]) and sz(a[2])) for a in lv if len(a) == 3):
                    raise Broken("_do_cds_lfht_resize: no size / target comparison dominates %s" % callee)
                rep.bad(rid, "resize.%s" % callee, "%s is called on a path where %s is not established (%s): the table is resized in the wrong direction - the loop never reaches its target / buckets in use are removed" %
                        (callee, what, [ir.atom_str(a) for a in lv if len(a) == 3 and ((sz(a[1]) and tg(a[2])) or (tg(a[1]) and sz(a[2])))]), [c.where()])
            args = [ir.expr(f, a, 3) for a in c.args]
            rep.check(len(args) == 3 and sz(args[1]) and tg(args[2]), rid, "resize.%s.args" % callee, "%s(ht, size, target)" % callee, "%s called with %s" % (callee, [ir.expr_str(a) for a in args]), [c.where()])
            rep.check(any(a[0] == "eq" and a[2] == ("c", 0) and a[1][0] == "load" and a[1][1].endswith("cds_lfht.in_progress_destroy") for a in lv), rid, "resize.%s.not-during-destroy" % callee,
                      "no resize step once destroy is in progress", "%s can run while a destroy is in progress" % callee, [c.where()])


def rule_orders(ctx, rep, rid):
    """_do_cds_lfht_grow / _shrink: grow creates levels order(old) + 1 .. order(new); shrink removes levels order(new) + 1 ..
    order(old), with new clamped to the minimum table size"""
    m = ctx.mod("cds", "perfn")

    def order_of(f, v):
        e = ir.expr(f, v, 3)
        if e[0] == "bin" and e[1] == "add" and e[3] == ("c", 1):
            inner = order_of(f, f.inst_of(v).args[0]) if f.inst_of(v) is not None else None
            return (inner[0], 1) if inner else None
        if e[0] == "call" and e[1].startswith("cds_lfht_get_count_order"):
            a = ir.expr(f, f.insts[e[2]].args[0], 4)
            if a[0] == "arg":
                return (a[1], 0)
            if a[0] == "select" and a[2][0] == "arg":
                return (a[2][1], 0)
        return None
    for name, callee, want in (("_do_cds_lfht_grow", "init_table", ((1, 1), (2, 0))), ("_do_cds_lfht_shrink", "fini_table", ((2, 1), (1, 0)))):
        f = m.fn(name)
        if f is None:
            raise Broken(name + " vanished")
        rep.touch(f)
        cs = pat.calls(f, callee)
        pat.require(cs, name + ": " + callee)
        got = (order_of(f, cs[0].args[1]), order_of(f, cs[0].args[2]))
        if None in got:
            und = [k for k in (1, 2) if cs[0].args[k] and cs[0].args[k][0] == "undef"]
            if und:
                rep.bad(rid, name + ".levels", "%s is given an undefined level bound (argument %d): an arbitrary range of levels is created / removed" % (callee, und[0]), [cs[0].where()])
                continue
            raise Broken("%s: level arguments of %s not recognised" % (name, callee))
        show = lambda g: "order(%s)%s" % ("old" if g[0] == 1 else "new", " + 1" if g[1] else "")
        rep.check(got == want, rid, name + ".levels", "%s(ht, %s, %s)" % (callee, show(want[0]), show(want[1])),
                  "%s is called for levels %s .. %s, expected %s .. %s" % (callee, show(got[0]), show(got[1]), show(want[0]), show(want[1])), [cs[0].where()])


def rule_del(ctx, rep, rid):
    """cds_lfht_del: the node count is decremented only for the caller that won the removal, with the node's own hash"""
    m = ctx.mod("cds", "perfn")
    f = m.fn("cds_lfht_del")
    if f is None:
        raise Broken("cds_lfht_del vanished")
    rep.touch(f)
    d = [c for c in f.calls() if c.callee and m.fn(c.callee) is not None and m.fn(c.callee).srcname == "_cds_lfht_del"]
    cd = pat.calls(f, "ht_count_del")
    pat.require(d, "cds_lfht_del: _cds_lfht_del")
    r = f.rets()[0]
    e = ir.expr(f, r.args[0], 3)
    rep.check(e[0] == "call" and e[2] == d[0].id, rid, "del.returns-result", "returns _cds_lfht_del's result", "returns %s" % ir.expr_str(e), [r.where()])
    for c in cd:
        lv = pat.dom_leaf_atoms(f, c)
        ok = any(a[0] == "eq" and a[2] == ("c", 0) and a[1][0] == "call" and a[1][2] == d[0].id for a in lv)
        rep.check(ok, rid, "del.count-on-success", "the node count is decremented only when the removal succeeded", "ht_count_del runs although this caller did not remove the node (count drifts: lazy shrink of a populated table)", [c.where()])
    a1 = ir.expr(f, d[0].args[2], 3)
    rep.check(a1 == ("arg", 1), rid, "del.node", "removes the caller's node", "_cds_lfht_del called with %s" % ir.expr_str(a1), [d[0].where()])


def rule_levels(ctx, rep, rid):
    """level arithmetic of grow and shrink: level i holds 1 << (i - 1) buckets; init_table allocates and populates level i with
    that length and then publishes size 1 << i; fini_table publishes 1 << (i - 1), unlinks level i with that length; both
    stop when the target moved the other way; init_table also stops for a destroy in progress."""
    m = ctx.mod("cds", "perfn")
    it, ft = m.fn("init_table"), m.fn("fini_table")
    if it is None or ft is None:
        raise Broken("init_table / fini_table vanished")
    for f, name in ((it, "init_table"), (ft, "fini_table")):
        rep.touch(f)
        lvl = None
        calls = [c for c in f.calls() if c.callee in ("cds_lfht_alloc_bucket_table", "init_table_populate", "remove_table", "partition_resize_helper", "cds_lfht_free_bucket_table")]
        pat.require(calls, name + ": level calls")
        for c in calls:
            i_ = ir.expr(f, c.args[1], 3)
            if c.callee == "cds_lfht_free_bucket_table":
                continue
            if lvl is None:
                lvl = i_
            rep.check(i_ == lvl and i_[0] == "phi", rid, "%s.%s.level" % (name, c.callee), "%s works on the loop's level" % c.callee, "%s is given level %s" % (c.callee, ir.expr_str(i_)), [c.where()])
            if c.callee in ("init_table_populate", "remove_table", "partition_resize_helper"):
                ln = ir.expr(f, c.args[2], 6)
                _check_shift(rep, rid, "%s.%s.len" % (name, c.callee), ln, lvl, -1, "level i is processed with len = 1 << (i - 1)", "level i is processed with len = %s: buckets beyond the level are written / part of it is left untouched", [c.where()])
        # the level loop itself: grow walks first_order, first_order + 1, ..., last_order inclusive; shrink walks last_order down to
        # first_order inclusive - a loop that stops one level short never reaches the resize target (the resize loop spins / destroy waits)
        lp = [(ph, inits, steps, stays) for ph, inits, steps, stays in pat.counted_loops(f) if ("phi", ph.id) == lvl]
        if lp:
            ph, inits, steps, stays = lp[0]
            start = [ir.expr(f, v, 3) for v, blk in ph.d["inc"] if not f.bdom(ph.blk.id, blk)]
            want_start, want_step, want_ops, other = (("arg", 1), 1, ("ule", "sle"), ("arg", 2)) if name == "init_table" else (("arg", 2), -1, ("uge", "sge"), ("arg", 1))
            rep.check(start == [want_start], rid, name + ".loop.start", "the level loop starts at %s" % ("first_order" if name == "init_table" else "last_order"), "the level loop starts at %s" % [ir.expr_str(x) for x in start], [f.name])
            okstep = bool(steps) and all(e[0] == "bin" and e[1] == "add" and e[3] == ("c", want_step) and e[2] == ("phi", ph.id) for e in steps)
            rep.check(okstep, rid, name + ".loop.step", "one level per iteration (%+d)" % want_step, "the level advances by %s" % [ir.expr_str(e) for e in steps], [f.name])
            for a, t in stays:
                if a[1] == ("phi", ph.id) and a[2] == other:
                    strict = {"ule": "ult", "sle": "slt", "uge": "ugt", "sge": "sgt"}
                    if a[0] in want_ops:
                        rep.ok(rid, name + ".loop.bound", "the level loop includes %s" % ("last_order" if name == "init_table" else "first_order"))
                    elif a[0] in strict.values():
                        rep.bad(rid, name + ".loop.bound", "the level loop stops one level short (%s): the %s level is never %s, the table size never reaches resize_target - _do_cds_lfht_resize() keeps looping"
                                % (ir.atom_str(a), "last" if name == "init_table" else "first", "created" if name == "init_table" else "removed"), [t.where()])
                    else:
                        rep.unk(rid, name + ".loop.bound", "level loop bound %s not recognised" % ir.atom_str(a))
        szs = [s for s in pat.stores(f, "cds_lfht.size")]
        pat.require(szs and lvl is not None, name + ": size store")
        for s in szs:
            v = ir.expr(f, s.args[0], 6)
            want = "1 << i" if name == "init_table" else "1 << (i - 1)"
            _check_shift(rep, rid, name + ".size-value", v, lvl, 0 if name == "init_table" else -1, "publishes size = %s" % want, "publishes size = %s, expected " + want, [s.where()])
        # early exits
        tg = lambda e: e[0] == "load" and e[1].endswith("cds_lfht.resize_target")
        brk = []
        for t, s_, a in pat.branch_edges_on(f, lambda a: len(a) == 3 and (tg(a[1]) or tg(a[2]))):
            brk.append((t, s_, a))
        pat.require(brk, name + ": resize_target test")
        if name == "init_table":
            good = [x for x in brk if x[2][0] in ("ult", "uge") and tg(x[2][1]) and _shift_of(x[2][2], lvl) == 0]
            if any(_shift_of(x[2][2], lvl) is None for x in brk if tg(x[2][1])):
                raise Broken("init_table: resize_target is compared with something that is not 1 << (i + k)")
            rep.check(len(good) == len(brk), rid, name + ".target-test", "growth stops when resize_target < 1 << i", "growth is cancelled on %s" % [ir.atom_str(x[2]) for x in brk if x not in good][:2], [brk[0][0].where()])
            for t, s_, a in good:
                body = f.reach([f.blocks[s_].insts[0]], [c for c in calls if c.blk.id != t.blk.id], include_start=True, avoid=lambda i, t=t: i is t)[0] is not None
                want_body = a[0] == "uge"
                rep.check(body == want_body, rid, name + ".target-test-polarity@%s" % a[0], "target %s 1 << i %s the level" % (">=" if a[0] == "uge" else "<", "processes" if a[0] == "uge" else "skips"),
                          "the growth loop %s when resize_target %s 1 << i: levels the target asks for are never created (or creation continues past the target)" % ("continues" if body else "stops", ">=" if a[0] == "uge" else "<"), [t.where()])
            dst = pat.branch_edges_on(f, lambda a: a[0] in ("ne", "eq") and a[2] == ("c", 0) and a[1][0] == "load" and a[1][1].endswith("cds_lfht.in_progress_destroy"))
            if not dst:
                rep.bad(rid, name + ".stops-for-destroy", "init_table no longer stops when a destroy is in progress", [f.name])
            else:
                for t, s_, a in dst:
                    if a[0] == "ne":
                        hit, _ = f.reach([f.blocks[s_].insts[0]], calls + szs, include_start=True)
                        rep.check(hit is None, rid, name + ".stops-for-destroy", "a destroy in progress ends the growth (no further level allocated / populated / published)",
                                  "after seeing in_progress_destroy the growth continues: destroy waits for a resize that keeps allocating", [t.where()])
        else:
            good = [x for x in brk if x[2][0] in ("ugt", "ule") and tg(x[2][1]) and _shift_of(x[2][2], lvl) == -1]
            if any(_shift_of(x[2][2], lvl) is None for x in brk if tg(x[2][1])):
                raise Broken("fini_table: resize_target is compared with something that is not 1 << (i + k)")
            rep.check(len(good) == len(brk), rid, name + ".target-test", "shrinking stops when resize_target > 1 << (i - 1)", "shrinking is cancelled on %s" % [ir.atom_str(x[2]) for x in brk if x not in good][:2], [brk[0][0].where()])
            for t, s_, a in good:
                body = f.reach([f.blocks[s_].insts[0]], [c for c in calls if c.blk.id != t.blk.id and c.callee != "cds_lfht_free_bucket_table"] + szs, include_start=True, avoid=lambda i, t=t: i is t)[0] is not None
                want_body = a[0] == "ule"
                rep.check(body == want_body, rid, name + ".target-test-polarity@%s" % a[0], "target %s 1 << (i - 1) %s the level" % ("<=" if a[0] == "ule" else ">", "removes" if a[0] == "ule" else "keeps"),
                          "the shrink loop %s when resize_target %s 1 << (i - 1): levels still wanted by the target are removed (or none ever is)" % ("continues" if body else "stops", "<=" if a[0] == "ule" else ">"), [t.where()])
            dst = pat.branch_edges_on(f, lambda a: a[0] in ("ne", "eq") and a[2] == ("c", 0) and a[1][0] == "load" and a[1][1].endswith("cds_lfht.in_progress_destroy"))
            if not dst:
                rep.bad(rid, name + ".stops-for-destroy", "fini_table no longer stops when a destroy is in progress", [f.name])
            for t, s_, a in dst:
                if a[0] == "ne":
                    hit, _ = f.reach([f.blocks[s_].insts[0]], [c for c in calls if c.callee != "cds_lfht_free_bucket_table"] + szs, include_start=True)
                    rep.check(hit is None, rid, name + ".stops-for-destroy", "a destroy in progress ends the shrink", "after seeing in_progress_destroy the shrink continues", [t.where()])


def rule_count_nodes(ctx, rep, rid):
    """cds_lfht_count_nodes classifies every word of the walk: REMOVED -> removed++, bucket -> (nothing counted), else
    count++; the walk starts at bucket 0 and ends at the end marker"""
    B = bits(ctx)
    m = ctx.mod("cds", "perfn")
    f = m.fn("cds_lfht_count_nodes")
    if f is None:
        raise Broken("cds_lfht_count_nodes vanished")
    rep.touch(f)
    ba = [c for c in f.calls() if c.callee == "bucket_at"]
    pat.require(ba, "count_nodes: bucket_at")
    rep.check(ir.const_of(f, ba[0].args[1]) == 0, rid, "count_nodes.starts-at-0", "the walk starts at bucket 0 (the head of the one list)", "the walk starts at bucket %s: nodes before it are not counted" % ir.expr_str(ir.expr(f, ba[0].args[1])), [ba[0].where()])
    sts = [s for s in f.all_insts() if s.op == "store" and s.d["ap"] and s.d["ap"]["base"] == ["a", 2] and not s.d["ap"]["steps"]]
    incs = []
    for s in sts:
        v = ir.expr(f, s.args[0], 4)
        if v[0] == "bin" and v[1] == "add" and v[3][0] == "c":
            incs.append((s, v[3][1], pat.dom_leaf_atoms(f, s)))
    if not incs:
        raise Broken("count_nodes: *count increment not recognised")

    def cond(lv, mask, pred):
        return any(a[0] == pred and a[2] == ("c", 0) and a[1][0] == "bin" and a[1][1] == "and" and a[1][3] == ("c", mask) and a[1][2][0] == "load" for a in lv)
    for s, d_, lv in incs:
        if d_ != 1:
            rep.bad(rid, "count_nodes.count", "*count changes by %+d per counted node" % d_, [s.where()])
            continue
        ok = cond(lv, B.REMOVED, "eq") and cond(lv, B.BUCKET, "eq")
        rep.check(ok, rid, "count_nodes.count", "count++ exactly for live non-bucket nodes", "count is incremented for %s" % ("a removed node" if not cond(lv, B.REMOVED, "eq") else "a bucket node"), [s.where()])
    zero = [s for s in sts if ir.const_of(f, s.args[0]) == 0]
    rep.check(bool(zero), rid, "count_nodes.starts-from-0", "*count starts from 0", "*count is not reset before the walk", [f.name])
    # the walk continues from the successor just classified and ends at the end marker
    ends = pat.branch_edges_on(f, lambda a: a[0] in ("eq", "ne") and a[2] == ("c", 0) and a[1][0] == "bin" and a[1][1] == "and" and a[1][3] == ("c", -8))
    rep.check(bool(ends), rid, "count_nodes.ends-at-END", "the walk ends at the end-of-list marker", "the walk has no end-of-list test", [f.name])


def rule_lfht_forkhooks(ctx, rep, rid):
    """the hash table's own fork hooks: before_fork takes the fork mutex and pauses the resize worker (when one exists),
    after_fork_parent resumes it, after_fork_child re-creates it, both release the mutex last"""
    m = ctx.mod("cds", "perfn")
    spec = {"cds_lfht_before_fork": ("urcu_workqueue_pause_worker", "lock"),
            "cds_lfht_after_fork_parent": ("urcu_workqueue_resume_worker", "unlock"),
            "cds_lfht_after_fork_child": ("urcu_workqueue_create_worker", "unlock")}
    for name, (act, lk) in spec.items():
        f = m.fn(name)
        if f is None:
            raise Broken(name + " vanished")
        rep.touch(f)
        a = pat.calls(f, act)
        mu = [c for c in f.calls() if c.callee in ("mutex_lock", "mutex_unlock", "pthread_mutex_lock", "pthread_mutex_unlock") and any(ap is not None and pat.base_global(ap) == "cds_lfht_fork_mutex" for ap in c.d["aps"])]
        if not a:
            rep.bad(rid, name + ".worker", "%s no longer calls %s: the resize worker %s" % (name, act, {"urcu_workqueue_pause_worker": "keeps running (and may hold locks) while the address space is copied",
                    "urcu_workqueue_resume_worker": "stays paused in the parent: no resize / deferred destroy ever runs again", "urcu_workqueue_create_worker": "does not exist in the child: queued resizes never run"}[act]), [f.name])
            continue
        arg = ir.expr(f, a[0].args[0], 3)
        rep.check(arg[0] == "load" and arg[1] == "@cds_lfht_workqueue", rid, name + ".worker-arg", "%s(cds_lfht_workqueue)" % act, "%s called with %s" % (act, ir.expr_str(arg)), [a[0].where()])
        lv = pat.dom_leaf_atoms(f, a[0])
        rep.check(any(x[0] == "ne" and x[2] == ("c", 0) and x[1][0] == "load" and x[1][1] == "@cds_lfht_workqueue" for x in lv), rid, name + ".only-if-exists", "only when the work queue exists",
                  "%s is called without testing that the work queue exists" % act, [a[0].where()])
        nul = set((t.blk.id, s_) for t, s_, x in pat.branch_edges_on(f, lambda x: x[0] == "eq" and x[2] == ("c", 0) and x[1][0] == "load" and x[1][1] == "@cds_lfht_workqueue"))
        # nested bracket (another library's handler already did the work): counter != 0 before ++ / after --
        nul |= set((t.blk.id, s_) for t, s_, x in pat.branch_edges_on(f, lambda x: x[0] == "ne" and x[2] == ("c", 0) and ir.expr_contains(x[1], lambda z: z[0] == "load" and z[1] == "@cds_lfht_workqueue_atfork_nesting")))
        rep.must_pass(rid, name + ".worker", f, [f.entry()], None, lambda i: i in a, to_exit=True, include_start=True, edge_ok=pat.block_edge_filter(nul), what="%s on every path where the work queue exists" % act)


def rule_delete_bucket(ctx, rep, rid):
    """cds_lfht_delete_bucket / cds_lfht_is_empty: the emptiness walk starts at bucket 0 and concludes `empty` only after it
    reached the end-of-list marker; delete_bucket then frees every level from the table's order down to level 0."""
    m = ctx.mod("cds", "perfn")
    for name in ("cds_lfht_delete_bucket", "cds_lfht_is_empty"):
        f = fn(ctx, name)
        rep.touch(f)
        ba = pat.calls(f, "bucket_at")
        pat.require(ba, name + ": bucket_at")
        first = min(ba, key=lambda c: c.id)
        rep.check(ir.const_of(f, first.args[1]) == 0, rid, name + ".starts-at-0", "the walk starts at bucket 0, the head of the single list",
                  "the emptiness walk starts at bucket %s: user nodes linked before it are never seen, a non-empty table is reported empty / destroyed" % ir.expr_str(ir.expr(f, first.args[1])), [first.where()])
        walk = [l for l in pat.loads(f, NEXT) if not ir.ap_str(f, l.d["ap"]).startswith("bucket_at()")]
        pat.require(walk, name + ": walk load")
        L = walk[0]
        at_end = [(t.blk.id, s_) for t, s_, a in pat.branch_edges_on(f, lambda a: a[0] == "eq" and a[2] == ("c", 0) and a[1][0] == "bin" and a[1][1] == "and" and a[1][3] == ("c", -8) and a[1][2][0] == "load" and a[1][2][3] == L.id)]
        user = [(t.blk.id, s_) for t, s_, a in pat.branch_edges_on(f, lambda a: a[0] == "eq" and a[2] == ("c", 0) and a[1][0] == "bin" and a[1][1] == "and" and a[1][3] == ("c", bits(ctx).BUCKET) and a[1][2][0] == "load" and a[1][2][3] == L.id)]
        pat.require(at_end and user, name + ": end / user-node tests")
        if name == "cds_lfht_delete_bucket":
            targets = pat.calls(f, "cds_lfht_free_bucket_table")
            pat.require(targets, "delete_bucket: free_bucket_table")
            rep.must_take_edge(rid, name + ".empty-only-at-END", f, [L], targets, at_end, include_start=False, what="bucket tables are freed only after the walk reached the end-of-list marker")
            fr = targets[0]
            o = ir.expr(f, fr.args[1], 3)
            pat.require(o[0] == "phi", "delete_bucket: free loop variable")
            ph = f.insts[o[1]]
            incs = [ir.expr(f, v, 4) for v, _b in ph.d["inc"]]
            init_ok = any(x[0] == "call" and x[1].startswith("cds_lfht_get_count_order") and (lambda a: a[0] == "load" and a[1].endswith("cds_lfht.size"))(ir.expr(f, f.insts[x[2]].args[0], 3)) for x in incs)
            step_ok = any(x[0] == "bin" and x[1] == "add" and x[3] == ("c", -1) and x[2] == ("phi", ph.id) for x in incs)
            cont = [a for t, s_, a in pat.branch_edges_on(f, lambda a: len(a) == 3 and a[1] == ("phi", ph.id) and a[2][0] == "c")]
            bound_ok = any(a[0] == "sge" and a[2] == ("c", 0) for a in cont) or any(a[0] == "sgt" and a[2] == ("c", -1) for a in cont)
            rep.check(init_ok and step_ok and bound_ok, rid, name + ".frees-all-levels", "frees levels order(size), ..., 1, 0",
                      "the free loop runs %s: %s" % ([ir.atom_str(a) for a in cont], "level 0 (the first min_nr_alloc_buckets nodes) is never freed" if not bound_ok else "levels are skipped"), [fr.where()])
        else:
            # returns non-zero ("empty") only through the END edge, zero only through the user-node edge
            for p_, atoms, v in paths.ret_cases(f):
                if v is None:
                    continue
                c = v[1] if v[0] == "c" else None
                if c is None:
                    raise Broken("cds_lfht_is_empty: return value not a constant per path")
                saw_end = any(a[0] == "eq" and a[2] == ("c", 0) and a[1][0] == "bin" and a[1][3] == ("c", -8) for a in atoms)
                saw_user = any(a[0] == "eq" and a[2] == ("c", 0) and a[1][0] == "bin" and a[1][3] == ("c", bits(ctx).BUCKET) for a in atoms)
                ok = (c != 0 and saw_end and not saw_user) or (c == 0 and saw_user)
                rep.check(ok, rid, "is_empty.ret%d" % (1 if c else 0), "returns %s exactly %s" % ("non-zero" if c else "0", "after reaching END having seen only bucket nodes" if c else "at the first user node"),
                          "cds_lfht_is_empty returns %d on a path with %s" % (c, [ir.atom_str(a) for a in atoms if a[0] in ("eq", "ne") and a[1][0] == "bin"][:4]), [f.rets()[0].where()])


def _rh_cmp_edges(f, node_arg):
    """edges (blk, succ) taken when clear(iter)->reverse_hash > node->reverse_hash, and when the iterator is at END"""
    rh_node = lambda e: e[0] == "load" and e[1] == "arg%d.cds_lfht_node.reverse_hash" % node_arg
    rh_iter = lambda e: e[0] == "load" and e[1].endswith("cds_lfht_node.reverse_hash") and not e[1].startswith("arg%d." % node_arg)
    gt, end, le, notend = set(), set(), set(), set()
    for b in f.blocks:
        for s_ in b.succ:
            for a in ir.edge_atoms(f, b.id, s_):
                if len(a) != 3:
                    continue
                if a[2] == ("c", 0) and a[1][0] == "bin" and a[1][1] == "and" and a[1][3] == ("c", -8):
                    (end if a[0] == "eq" else notend).add((b.id, s_))
                elif (a[0] == "ugt" and rh_iter(a[1]) and rh_node(a[2])) or (a[0] == "ult" and rh_node(a[1]) and rh_iter(a[2])):
                    gt.add((b.id, s_))
                elif (a[0] == "ule" and rh_iter(a[1]) and rh_node(a[2])) or (a[0] == "uge" and rh_node(a[1]) and rh_iter(a[2])):
                    le.add((b.id, s_))
    return gt, end, le, notend


def rule_gcskel(ctx, rep, rid):
    """_cds_lfht_gc_bucket: the scan gives up (returns) only at the end of the list or past the node's position in the order;
    it unlinks only after meeting a REMOVED successor; the predecessor advances to the node just examined and restarts from
    the bucket after every unlink attempt."""
    B = bits(ctx)
    g = fn(ctx, "_cds_lfht_gc_bucket")
    rep.touch(g)
    gt, end, le, notend = _rh_cmp_edges(g, 1)
    pat.require(gt and end, "gc_bucket: end / order tests")
    rets = list(g.rets())
    rep.must_take_edge(rid, "gc.returns-only-when-absent", g, [g.entry()], rets, sorted(gt | end), include_start=True,
                       what="gc returns only at the end of the chain or at the first node ordered after the target")
    cx = [e for e in pat.accesses(g, NEXT, ("cmpxchg",))]
    pat.require(len(cx) == 1, "gc_bucket: unlink cmpxchg")
    # the unlink is reached only after a REMOVED successor was seen
    rem = [(t.blk.id, s_) for t, s_, a in pat.branch_edges_on(g, lambda a: a[0] == "ne" and a[2] == ("c", 0) and a[1][0] == "bin" and a[1][1] == "and" and a[1][3] == ("c", B.REMOVED) and a[1][2][0] == "load")]
    pat.require(rem, "gc_bucket: REMOVED test")
    rep.must_take_edge(rid, "gc.unlink-only-removed", g, [g.entry()], [cx[0].inst], rem, include_start=True, what="the unlink is attempted only after a successor word with REMOVED was loaded")
    # what the unlink writes: the successor, carrying BUCKET exactly when the word it replaces did
    gnew = ir.expr(g, cx[0].new, 8)
    gexp = ir.expr(g, cx[0].exp, 4)
    okg = _sel_flag(gnew, B, lambda b: b[0] == "bin" and b[1] == "and" and b[3] == ("c", -8) and b[2][0] == "load") and gnew[1][2][2] == gexp
    if okg:
        rep.ok(rid, "gc.unlink-keeps-BUCKET", "gc unlink: predecessor->next := clear(next) | (BUCKET iff the replaced word had it)", [cx[0].inst.where()])
    elif gnew[0] == "select" and gnew[1][0] == "icmp" and gnew[1][2][0] == "bin" and gnew[1][2][1] == "and" and gnew[1][2][3] == ("c", B.BUCKET) and gnew[1][3] == ("c", 0) and (
            (gnew[1][1] == "eq" and gnew[2][0] == "bin" and gnew[2][1] == "or" and gnew[2][3] == ("c", B.BUCKET)) or
            (gnew[1][1] == "ne" and gnew[3][0] == "bin" and gnew[3][1] == "or" and gnew[3][3] == ("c", B.BUCKET))):
        rep.bad(rid, "gc.unlink-keeps-BUCKET", "gc unlink sets the BUCKET flag exactly when the replaced word did *not* carry it: chain words lose / gain the bucket marker, "
                "traversals take user nodes for bucket nodes (and skip them) or the reverse", [cx[0].inst.where()])
    elif gnew[0] == "bin" and gnew[1] in ("and", "or"):
        rep.bad(rid, "gc.unlink-keeps-BUCKET", "gc unlink installs %s whatever flag the replaced word carried" % ir.expr_str(gnew), [cx[0].inst.where()])
    elif [z for z in ir.subexprs(gnew) if z[0] == "bin" and z[1] == "and" and z[2][0] == "load" and z[2][1].endswith(NEXT) and z[3][0] == "c" and z[3][1] != -8 and (z[3][1] & B.BUCKET)]:
        z = [z for z in ir.subexprs(gnew) if z[0] == "bin" and z[1] == "and" and z[2][0] == "load" and z[2][1].endswith(NEXT) and z[3][0] == "c" and z[3][1] != -8][0]
        rep.bad(rid, "gc.unlink-keeps-BUCKET", "gc unlink builds the new link from the removed node's next word masked with %#x, which keeps its BUCKET bit: when the removed node is a bucket node (a shrink) "
                "the preceding user node's next word is marked BUCKET - lookups, traversals and add_unique skip that node from then on" % (z[3][1] & 0xffffffffffffffff), [cx[0].inst.where()])
    else:
        raise Broken("_cds_lfht_gc_bucket: new value of the unlink cmpxchg has an unrecognised shape: %s" % ir.expr_str(gnew))
    # predecessor: phi over {bucket (restart), clear(iter) (advance)}
    base = cx[0].ap["base"]
    pat.require(base[0] == "i" and g.insts[base[1]].op == "phi", "gc_bucket: predecessor is not a loop variable")
    ph = g.insts[base[1]]
    incs = [ir.expr(g, v, 4) for v, _b in ph.d["inc"]]
    has_bucket = ("arg", 0) in incs
    adv = [x for x in incs if x[0] == "bin" and x[1] == "and" and x[3] == ("c", -8)]
    rep.check(has_bucket and adv, rid, "gc.predecessor", "the predecessor restarts at the bucket and advances to clear_flag(iter)", "predecessor takes the values %s: %s" % (
        [ir.expr_str(x) for x in incs], "it never advances (the unlink is applied to the bucket's next whatever node was found)" if not adv else "it is not reset to the bucket when the scan restarts"), [cx[0].inst.where()])


def rule_addprev(ctx, rep, rid):
    """_cds_lfht_add: the predecessor used by the insertion restarts at the bucket on every retry and advances to clear_flag(iter)"""
    f = fn(ctx, "_cds_lfht_add")
    rep.touch(f)
    cx = [e for e in pat.accesses(f, NEXT, ("cmpxchg",)) if ir.expr_contains(ir.expr(f, e.new, 8), lambda z: z == ("arg", 5))]
    pat.require(len(cx) == 1, "_cds_lfht_add: insertion cmpxchg")
    base = cx[0].ap["base"]
    pat.require(base[0] == "i" and f.insts[base[1]].op == "phi", "_cds_lfht_add: predecessor is not a loop variable")
    ph = f.insts[base[1]]
    incs = [ir.expr(f, v, 4) for v, _b in ph.d["inc"]]
    has_bucket = any(x[0] == "call" and x[1] == "lookup_bucket" for x in incs)
    adv = [x for x in incs if x[0] == "bin" and x[1] == "and" and x[3] == ("c", -8)]
    rep.check(has_bucket and bool(adv), rid, "add.predecessor", "the predecessor restarts at lookup_bucket() and advances to clear_flag(iter)",
              "predecessor takes the values %s: %s" % ([ir.expr_str(x) for x in incs], "a retry continues from a stale predecessor (possibly removed meanwhile)" if not has_bucket else "it never advances"), [cx[0].inst.where()])


def rule_partloops(ctx, rep, rid):
    """the per-partition loops visit index size + start, ..., size + start + len - 1 once each, with size = 1 << (i - 1)"""
    for name in ("init_table_populate_partition", "remove_table_partition"):
        g = fn(ctx, name)
        rep.touch(g)
        ba = pat.calls(g, "bucket_at")
        pat.require(ba, name + ": bucket_at")
        j = ir.expr(g, ba[0].args[1], 3)
        pat.require(j[0] == "phi", name + ": loop index")
        ph = g.insts[j[1]]
        incs = [ir.expr(g, v, 6) for v, _b in ph.d["inc"]]
        def start_shift(x):
            """k if x == (1 << (i + k)) + start"""
            if x[0] == "bin" and x[1] == "add":
                for a_, b_ in ((x[2], x[3]), (x[3], x[2])):
                    if b_ == ("arg", 2):
                        return _shift_of(a_, ("arg", 1))
            return None
        step = [x for x in incs if x[0] == "bin" and x[1] == "add" and x[2] == ("phi", ph.id) and x[3][0] == "c"]
        init = [x for x in incs if x not in step]
        ks = [start_shift(x) for x in init]
        if len(init) != 1 or len(step) != 1 or ks[0] is None:
            raise Broken("%s: loop index %s is not of the form (1 << (i + k)) + start, step c: not comparable" % (name, [ir.expr_str(x) for x in incs]))
        rep.check(ks[0] == -1 and step[0][3] == ("c", 1), rid, name + ".index", "index runs from (1 << (i - 1)) + start in steps of +1",
                  "loop index takes %s: expected start (1 << (i-1)) + start and step +1 - buckets of another level are touched / the level is walked backwards into other memory" % [ir.expr_str(x) for x in incs], [ba[0].where()])
        bound = [a for t, s_, a in pat.branch_edges_on(g, lambda a: len(a) == 3 and a[1] == ("phi", ph.id))]
        okb = any(a[0] in ("ult", "uge") and ir.expr_contains(a[2], lambda z: z == ("arg", 3)) and ir.expr_contains(a[2], lambda z: z == ("arg", 2)) for a in bound)
        rep.check(okb, rid, name + ".bound", "loop bound is size + start + len", "loop bound is %s" % [ir.atom_str(a) for a in bound][:2], [ba[0].where()])
        # direction of the test: the loop goes on while index < bound
        for ph2, inits2, steps2, stays2 in pat.counted_loops(g):
            if ph2.id != ph.id:
                continue
            for a, t in stays2:
                if a[1] == ("phi", ph.id):
                    rep.check(a[0] in ("ult", "ne"), rid, name + ".bound-direction", "the partition loop continues while index < size + start + len",
                              "the partition loop continues while index %s bound: %s" % (a[0], "the bucket just past the partition (another thread's, or past the level) is processed too" if a[0] == "ule" else "no bucket of the partition is processed - the level is published unpopulated / freed while still linked"), [t.where()])


def rule_createbucket(ctx, rep, rid):
    """cds_lfht_create_bucket: level 0 is allocated and bucket 0 is the list head (reverse hash 0, next = END|BUCKET); for each
    further level `order` up to the initial order, len = 1 << (order - 1) bucket nodes are allocated, node len + i gets
    reverse hash bit_reverse(len + i) and is linked right after its parent bucket i."""
    B = bits(ctx)
    f = fn(ctx, "cds_lfht_create_bucket")
    rep.touch(f)
    al = pat.calls(f, "cds_lfht_alloc_bucket_table")
    ba = pat.calls(f, "bucket_at")
    pat.require(len(al) >= 2 and len(ba) >= 3, "create_bucket anatomy")
    a0 = [c for c in al if ir.const_of(f, c.args[1]) == 0]
    rep.check(bool(a0), rid, "create.level0", "level 0 is allocated", "level 0 (bucket 0 .. min_nr_alloc_buckets-1) is never allocated", [f.name])
    b0 = [c for c in ba if ir.const_of(f, c.args[1]) == 0]
    if a0 and b0:
        rep.must_pass(rid, "create.level0≺head", f, [f.entry()], b0, lambda i: i in a0, include_start=True, what="level 0 is allocated before bucket 0 is initialised")
    head_next = [s for s in pat.stores(f, NEXT) if ir.const_of(f, s.args[0]) == (1 | B.BUCKET) or ir.expr(f, s.args[0], 3) == ("c", 1 | B.BUCKET) or ir.const_of(f, s.args[0]) == B.BUCKET]
    rep.check(bool(head_next), rid, "create.head", "bucket 0's next is the flagged end marker", "bucket 0 is not initialised as an empty list head (next = END | BUCKET)", [f.name])
    # the two loops: orders 1 .. bucket_order inclusive, and within an order i = 0 .. len - 1
    for ph2, inits2, steps2, stays2 in pat.counted_loops(f):
        nl2 = pat.natural_loop(f, ph2)
        is_outer = any(c.blk.id in nl2 for c in al if c not in a0) and inits2 == [1]
        is_inner = inits2 == [0] and any(c.blk.id in nl2 for c in ba) and not is_outer
        for a, t in stays2:
            if a[1] != ("phi", ph2.id):
                continue
            if is_outer:
                incl = a[0] in ("ule", "sle") or (a[0] in ("ult", "slt") and a[2][0] == "bin" and a[2][1] == "add" and a[2][3] == ("c", 1))
                excl = a[0] in ("ult", "slt") and not incl
                if incl:
                    rep.ok(rid, "create.orders-inclusive", "levels 1 .. initial order are all created")
                elif excl or a[0] in ("uge", "ugt", "sge", "sgt"):
                    rep.bad(rid, "create.orders-inclusive", "the level loop of cds_lfht_create_bucket runs while %s: the table starts with fewer bucket levels than its published size addresses" % ir.atom_str(a), [t.where()])
            elif is_inner:
                rep.check(a[0] in ("ult", "ne"), rid, "create.level-fully-linked", "every bucket node of a level is initialised and linked (i < len)",
                          "the per-level loop runs while %s: %s" % (ir.atom_str(a), "bucket nodes of the level stay unlinked (zero-filled memory reachable through the table)" if a[0] in ("uge", "ugt") else "one node past the level is written"), [t.where()])
    lv = [c for c in al if c not in a0]
    if not lv:
        raise Broken("create_bucket: per-level allocation not found")
    o = ir.expr(f, lv[0].args[1], 3)
    pat.require(o[0] == "phi", "create_bucket: level variable")
    oph = f.insts[o[1]]
    oin = [ir.expr(f, v, 4) for v, _b in oph.d["inc"]]
    rep.check(("c", 1) in oin and ("bin", "add", ("phi", oph.id), ("c", 1)) in oin, rid, "create.levels", "levels 1, 2, ... in steps of 1", "level variable takes %s" % [ir.expr_str(x) for x in oin], [lv[0].where()])
    ob = [a for t, s_, a in pat.branch_edges_on(f, lambda a: len(a) == 3 and a[1] == ("phi", oph.id))]
    from .. import linear

    def last_level(a):
        """largest level the continue-condition admits, as an offset k from order(initial size): order < X + 1 and order <= X
        both give 0; None when the bound is not order(size) + constant"""
        n_ = linear.norm(a[2])
        if n_ is None:
            return None
        rest = {t_: c_ for t_, c_ in n_.items() if t_ != 1}
        if len(rest) != 1 or list(rest.values()) != [1] or "cds_lfht_get_count_order" not in str(list(rest)[0]):
            return None
        k = n_.get(1, 0)
        return k - 1 if a[0] in ("ult", "uge") else (k if a[0] in ("ule", "ugt") else None)
    lls = [last_level(a) for a in ob if a[0] in ("ult", "uge", "ule", "ugt")]
    if not lls or None in lls:
        raise Broken("create_bucket: level loop bound %s is not order(initial size) + constant" % [ir.atom_str(a) for a in ob][:2])
    rep.check(all(k == 0 for k in lls), rid, "create.level-bound", "levels up to and including the order of the initial size", "level loop bound is %s" % [ir.atom_str(a) for a in ob][:2], [lv[0].where()])
    for t, s_, a in pat.branch_edges_on(f, lambda a: len(a) == 3 and a[1] == ("phi", oph.id) and a[0] in ("ult", "uge", "ule", "ugt")):
        body = f.reach([f.blocks[s_].insts[0]], lv, include_start=True, avoid=lambda i, t=t: i is t)[0] is not None
        rep.check(body == (a[0] in ("ult", "ule")), rid, "create.level-polarity@%s" % a[0], "order within the bound enters the level, beyond it leaves", "the level loop %s when order %s its bound: no level beyond 0 is created" % (
            "runs" if body else "ends", "<" if a[0] in ("ult", "ule") else ">="), [t.where()])
    ln = ("bin", "shl", ("c", 1), ("bin", "add", ("phi", oph.id), ("c", -1)))
    ln2 = ("bin", "shl", ("c", 1), ("bin", "sub", ("phi", oph.id), ("c", 1)))
    inner = [c for c in ba if c not in b0]
    pat.require(len(inner) == 2, "create_bucket: parent / child lookups")
    idx = [ir.expr(f, c.args[1], 6) for c in inner]
    par = [x for x in idx if x[0] == "phi"]
    pat.require(len(par) == 1, "create_bucket: parent index")
    iph = f.insts[par[0][1]]
    child = [x for x in idx if x is not par[0]][0]
    ck = None
    if child[0] == "bin" and child[1] == "add":
        for a_, b_ in ((child[2], child[3]), (child[3], child[2])):
            if b_ == par[0]:
                ck = _shift_of(a_, ("phi", oph.id))
    if ck is None:
        raise Broken("create_bucket: child index %s is not of the form (1 << (order + k)) + i" % ir.expr_str(child))
    rep.check(ck == -1, rid, "create.child-index", "child bucket index = (1 << (order - 1)) + i", "child bucket index is %s" % ir.expr_str(child), [inner[0].where()])
    ib = [a for t, s_, a in pat.branch_edges_on(f, lambda a: len(a) == 3 and a[1] == ("phi", iph.id))]
    bk = [_shift_of(a[2], ("phi", oph.id)) for a in ib if a[0] in ("ult", "uge")]
    if not bk or None in bk:
        raise Broken("create_bucket: inner loop bound %s is not of the form i < 1 << (order + k)" % [ir.atom_str(a) for a in ib][:2])
    rep.check(all(k_ == -1 for k_ in bk), rid, "create.inner-bound", "i runs over 0 .. len - 1", "inner loop bound is %s" % [ir.atom_str(a) for a in ib][:2], [inner[0].where()])
    iin = [ir.expr(f, v, 4) for v, _b in iph.d["inc"]]
    rep.check(("c", 0) in iin and ("bin", "add", ("phi", iph.id), ("c", 1)) in iin, rid, "create.inner-step", "i = 0, 1, ...", "i takes %s" % [ir.expr_str(x) for x in iin], [inner[0].where()])
    rhs = [s for s in pat.stores(f, RH) if ir.const_of(f, s.args[0]) is None]
    okrh = bool(rhs) and all((lambda v: v[0] == "call" and v[1] == "bit_reverse_ulong" and ir.expr(f, f.insts[v[2]].args[0], 6) == child)(ir.expr(f, s.args[0], 3)) for s in rhs)
    rep.check(okrh, rid, "create.rh", "child reverse hash = bit_reverse(child index)", "child reverse hash is not bit_reverse of its index", [s.where() for s in rhs[:1]])
    # linking: child->next = parent->next ; parent->next = child | BUCKET
    link = [s for s in pat.stores(f, NEXT) if s not in head_next]
    pat.require(len(link) == 2, "create_bucket: link stores")
    vals = [(s, ir.expr(f, s.args[0], 6)) for s in link]
    c_st = [s for s, v in vals if v[0] == "load" and v[1].endswith("cds_lfht_node.next")]
    p_st = [s for s, v in vals if v[0] == "bin" and v[1] == "or" and v[3] == ("c", B.BUCKET)]
    rep.check(len(c_st) == 1 and len(p_st) == 1 and f.dominates(c_st[0], p_st[0]), rid, "create.link", "child->next = parent->next, then parent->next = child | BUCKET",
              "bucket nodes are linked with %s" % [ir.expr_str(v) for s, v in vals], [s.where() for s in link])


def rule_newfields(ctx, rep, rid):
    """cds_lfht_new: the fields later code depends on are set from the arguments before the table is returned"""
    m = ctx.mod("cds", "perfn")
    f = m.fn("_cds_lfht_new_with_alloc")
    if f is None:
        raise Broken("_cds_lfht_new_with_alloc vanished")
    rep.touch(f)
    want = {"cds_lfht.flags": ("arg", 3), "cds_lfht.flavor": ("arg", 5)}
    for fld, src in want.items():
        st = [s for s in pat.stores(f, fld) if ir.expr(f, s.args[0], 3) == src]
        if not st:
            rep.bad(rid, "new." + fld.split(".")[1], "cds_lfht_new does not store its `%s` argument into the table (%s)" % (fld.split(".")[1],
                    "auto-resize / accounting requested by the caller are silently off" if "flags" in fld else "every later operation calls through a NULL flavor"), [f.name])
        else:
            alloc = [i for i in f.all_insts() if i.op == "icall" and (lambda e: e[0] == "load" and e[1].endswith("cds_lfht_mm_type.alloc_cds_lfht"))(ir.expr(f, i.d["fp"]))]
            pat.require(alloc, "cds_lfht_new: allocation")
            rep.must_pass(rid, "new." + fld.split(".")[1], f, alloc, None, lambda i, st=st: i in st, to_exit=True, what="%s stored before the table is returned" % fld)
    iw = pat.calls(f, "cds_lfht_init_worker")
    if not iw:
        rep.bad(rid, "new.worker", "cds_lfht_new never creates the resize worker", [f.name])
    else:
        lv = pat.dom_leaf_atoms(f, iw[0])
        ok = any(a[0] == "ne" and a[2] == ("c", 0) and a[1][0] == "bin" and a[1][1] == "and" and a[1][2] == ("arg", 3) and a[1][3] == ("c", 1) for a in lv)
        rep.check(ok, rid, "new.worker", "the resize worker is created exactly for AUTO_RESIZE tables", "cds_lfht_init_worker is not guarded by flags & CDS_LFHT_AUTO_RESIZE", [iw[0].where()])
        auto = set((t.blk.id, s_) for t, s_, a in pat.branch_edges_on(f, lambda a: a[0] == "eq" and a[2] == ("c", 0) and a[1][0] == "bin" and a[1][1] == "and" and a[1][2] == ("arg", 3) and a[1][3] == ("c", 1)))
        cb = pat.calls(f, "cds_lfht_create_bucket")
        if cb:
            rep.must_pass(rid, "new.worker-before-table", f, [f.entry()], cb, lambda i: i in iw, include_start=True, edge_ok=pat.block_edge_filter(auto), what="AUTO_RESIZE tables get their worker before the table exists")
    sc = pat.calls(f, "alloc_split_items_count")
    rep.check(bool(sc), rid, "new.split-counters", "split counters are set up (lazy resize / count_nodes approximations)", "alloc_split_items_count is never called: node accounting is silently off", [f.name])


def _null_ret_edges(f):
    """edges leading to a `return NULL` of the parameter validation"""
    out = set()
    for r in f.rets():
        if not r.args:
            continue
    for p_, atoms, v in paths.ret_cases(f):
        if v == ("c", 0):
            for a, b in zip(p_, p_[1:]):
                pass
    # simpler: exclude edges whose target block can only reach a return of constant 0
    for b in f.blocks:
        for s_ in b.succ:
            t = f.blocks[s_]
            if t.insts[-1].op == "ret" and t.insts[-1].args and ir.const_of(f, t.insts[-1].args[0]) == 0 and len(t.insts) <= 2:
                out.add((b.id, s_))
    return out


def _flavor_icalls(f, member):
    return [i for i in f.all_insts() if i.op == "icall" and (lambda e: e[0] == "load" and e[1].endswith("rcu_flavor_struct." + member))(ir.expr(f, i.d["fp"], 6))]


def rule_gpmutex(ctx, rep, rid):
    """A lock that is held across a grace-period wait (resize_mutex around fini_table's synchronize_rcu) is only ever *waited for* by a thread
    the grace period does not wait for.  The hash table is flavor-generic: with urcu-qsbr a registered thread counts as a reader for as long as it
    is online, whatever it is doing - blocked on the mutex it never announces a quiescent state, the holder's synchronize_rcu() never returns, and
    neither does the blocked cds_lfht_resize() / resize worker.  So every acquisition of such a lock is made offline: on every path to it the
    thread has called flavor->thread_offline() (or read_ongoing() said it is not online) since it last was online / registered."""
    from .. import lockorder
    m = ctx.mod("cds", "flat")
    g = lockorder.LibGraph({"cds": m})
    ctxh = g.context()
    H = set()
    nsync = 0
    for f in m.defined():
        for i in _flavor_icalls(f, "update_synchronize_rcu"):
            nsync += 1
            H |= set(g.held(f).get(i.id, ())) | ctxh.get(f.name, set())
    pat.require(nsync >= 2, "only %d grace-period waits through the flavor found in liburcu-cds" % nsync)
    pat.require(H, "no lock is held across the hash table's grace-period waits any more (anchor changed)")
    n = 0
    for f in m.defined():
        locks = [c for c in f.calls() if c.callee == "pthread_mutex_lock" and lockorder.lock_of(c) in H]
        if not locks:
            continue
        rep.touch(f)
        off = _flavor_icalls(f, "thread_offline")
        on = _flavor_icalls(f, "thread_online") + _flavor_icalls(f, "register_thread")
        ro = set(i.id for i in _flavor_icalls(f, "read_ongoing"))
        # edges on which read_ongoing() returned 0: the thread is not online (qsbr) - nothing to do
        def notonline(a):
            return a[0] == "eq" and a[2] == ("c", 0) and pat.atom_mentions(a, lambda e: e[0] in ("icall", "call") and e[-1] in ro)
        exempt = [(t.blk.id, s_) for t, s_, a in pat.branch_edges_on(f, notonline)]
        eok = pat.block_edge_filter(exempt)
        for c in locks:
            n += 1
            inst = "%s.offline-while-waiting-for-%s" % (f.name, lockorder.lock_of(c).split(".")[-1])
            hit, par = f.reach([f.entry()] + on, [c], avoid=lambda i: i in off, edge_ok=eok, include_start=True)
            if hit is None:
                rep.ok(rid, inst, "%s is acquired offline on every path (thread_offline, or read_ongoing() == 0, since the thread last was online)" % lockorder.lock_of(c), [c.where()])
            elif not off and not ro:
                rep.bad(rid, inst, "%s blocks on %s as a registered, possibly online thread: the lock is held across synchronize_rcu(), which with the urcu-qsbr flavor waits "
                        "for every online thread - the holder waits for this thread, this thread for the holder; cds_lfht_resize() / the resize worker never returns"
                        % (f.name, lockorder.lock_of(c)), [c.where()] + [i.where() for i in f.path_to(hit, par)[:1]])
            else:
                path = f.path_to(hit, par)
                rep.bad(rid, inst, "a path reaches the acquisition of %s with the thread (possibly) online: thread_offline() is skipped or undone before the lock is taken" % lockorder.lock_of(c),
                        [c.where()] + [i.where() for i in path if i.op in ("br", "switch")][-2:])
    pat.require(n >= 2, "only %d acquisitions of the locks held across grace-period waits (%s)" % (n, sorted(H)))


def rule_attr_handback(ctx, rep, rid):
    """cds_lfht_destroy(ht, &attr) hands the caller's pthread_attr_t back so that the caller can destroy it.  For an auto-resize table the
    teardown is only *queued*: resize work already on the queue still runs partition_resize_helper(), which creates its helper threads with
    `ht->caller_resize_attr ? &ht->resize_attr : NULL` - a shallow copy of the caller's object.  On the deferred branch the table therefore
    forgets the attribute (caller_resize_attr = NULL) once it has handed it back."""
    m = ctx.mod("cds", "perfn")
    f = ctx.mod("cds", "flat").fn("cds_lfht_destroy")      # flat: a branch moved into a static helper reads the same
    if f is None:
        raise Broken("cds_lfht_destroy vanished")
    rep.touch(f)
    hb = [s_ for s_ in f.all_insts() if s_.op == "store" and s_.d.get("ap") and s_.d["ap"]["base"] == ["a", 1] and not s_.d["ap"]["steps"]
          and (lambda e: e[0] == "load" and e[1].endswith("cds_lfht.caller_resize_attr"))(ir.expr(f, s_.args[0], 4))]
    pat.require(hb, "cds_lfht_destroy: hand-back of caller_resize_attr through *attr not found")
    q = pat.calls_opt(f, "urcu_workqueue_queue_work")
    pat.require(q, "cds_lfht_destroy: deferred teardown (urcu_workqueue_queue_work) not found")
    deferred = [s_ for s_ in hb if f.reach([s_], q)[0] is not None]
    clr = [s_ for s_ in pat.stores(f, "cds_lfht.caller_resize_attr") if ir.const_of(f, s_.args[0]) == 0]
    if not deferred:
        rep.unk(rid, "destroy.deferred-handback", "no hand-back of the attribute on the path that queues the teardown: shape not recognised")
        return
    rep.must_pass(rid, "destroy.forgets-attr-after-handback", f, deferred, None, lambda i: i in clr, to_exit=True,
                  what="on the deferred (auto-resize) branch the table clears caller_resize_attr after handing the attribute back: a resize step still in flight "
                       "creates its helper threads with default attributes, not with a copy of an object the caller has been told to destroy")
    # and the consumer: partition_resize_helper selects the attribute by that very field
    h = m.fn("partition_resize_helper")
    if h is not None:
        rep.touch(h)
        pc = pat.calls_opt(h, "pthread_create")
        if pc:
            uses = [l for l in pat.loads(h, "cds_lfht.caller_resize_attr")]
            rep.check(bool(uses), rid, "helper.attr-selected-by-caller_resize_attr", "helper threads get &resize_attr only while caller_resize_attr is set", "partition_resize_helper no longer tests caller_resize_attr before using the copied attribute", [pc[0].where()])


def rule_destroy2(ctx, rep, rid):
    """destroy paths: the table is released only after cds_lfht_delete_bucket() succeeded (it refuses a non-empty table), and a
    refusal is reported to the caller / is fatal on the worker; the worker-side destroy runs as a registered RCU thread."""
    m = ctx.mod("cds", "perfn")
    for name in ("cds_lfht_destroy", "do_auto_resize_destroy_cb"):
        f = m.fn(name)
        if f is None:
            raise Broken(name + " vanished")
        rep.touch(f)
        db = pat.calls(f, "cds_lfht_delete_bucket")
        fr = [c for c in f.calls() if c.callee in ("poison_free", "free")] + [i for i in f.all_insts() if i.op == "icall" and (lambda e: e[0] == "load" and e[1].endswith("cds_lfht_alloc.free"))(ir.expr(f, i.d["fp"], 4))]
        # ... including what it releases through helpers (split counters) and the mutex: a refused destroy must leave the table usable
        def _frees(g):
            return any((c_.op == "call" and c_.callee in ("poison_free", "free")) or (c_.op == "icall" and (lambda e: e[0] == "load" and e[1].endswith("cds_lfht_alloc.free"))(ir.expr(g, c_.d["fp"], 4))) for c_ in g.all_insts())
        fr += [c for c in f.calls() if c.callee == "pthread_mutex_destroy" or (m.fn(c.callee) is not None and m.fn(c.callee).srcname not in ("cds_lfht_delete_bucket", "poison_free") and _frees(m.fn(c.callee)))]
        if not db:
            rep.bad(rid, name + ".delete_bucket", "%s releases the table without cds_lfht_delete_bucket(): bucket memory leaks and a non-empty table is destroyed without complaint" % name, [f.name])
            continue
        pat.require(fr, name + ": table release")
        okedge = [(t.blk.id, s_) for t, s_, a in pat.branch_edges_on(f, lambda a: a[0] == "eq" and a[2] == ("c", 0) and a[1][0] == "call" and a[1][2] == db[0].id)]
        if name == "cds_lfht_destroy":
            auto = set((t.blk.id, s_) for t, s_, a in pat.branch_edges_on(f, lambda a: a[0] == "ne" and a[2] == ("c", 0) and a[1][0] == "bin" and a[1][1] == "and" and a[1][3] == ("c", 1) and a[1][2][0] == "load" and a[1][2][1].endswith("cds_lfht.flags")))
        else:
            auto = set()
        if not okedge:
            rep.bad(rid, name + ".release-only-if-empty", "the result of cds_lfht_delete_bucket() does not gate the release of the table", [db[0].where()])
        else:
            rep.must_take_edge(rid, name + ".release-only-if-empty", f, [f.entry()], fr, okedge, include_start=True, what="the table is released only on the edge delete_bucket() == 0")
        if name == "cds_lfht_destroy":
            # the refusal is what the caller gets back
            bad = []
            for p_, atoms, v in paths.ret_cases(f):
                refused = any(a[0] == "ne" and a[2] == ("c", 0) and a[1][0] == "call" and a[1][2] == db[0].id for a in atoms)
                if refused and not (v is not None and v[0] == "call" and v[2] == db[0].id):
                    bad.append(v)
            rep.check(not bad, rid, name + ".reports-refusal", "a refusal (-EPERM) of delete_bucket is returned to the caller", "destroy returns %s although delete_bucket refused" % [ir.expr_str(x) if x else None for x in bad][:2], [db[0].where()])
        else:
            ics = [i for i in f.all_insts() if i.op == "icall"]
            reg = [i for i in ics if (lambda e: e[0] == "load" and e[1].endswith("rcu_flavor_struct.register_thread"))(ir.expr(f, i.d["fp"], 6))]
            unr = [i for i in ics if (lambda e: e[0] == "load" and e[1].endswith("rcu_flavor_struct.unregister_thread"))(ir.expr(f, i.d["fp"], 6))]
            if not reg or not unr:
                rep.bad(rid, name + ".registered", "the worker-side destroy does not register / unregister with the flavor around delete_bucket", [f.name])
            else:
                rep.must_pass(rid, name + ".registered", f, [f.entry()], db, lambda i: i in reg, include_start=True, what="register_thread before delete_bucket")
                rep.must_pass(rid, name + ".unregisters", f, db, None, lambda i: i in unr, to_exit=True, what="unregister_thread before returning")


def rule_explicit_resize(ctx, rep, rid):
    """cds_lfht_resize(ht, n): the clamped, power-of-two target is stored into resize_target before the resize loop runs, under
    the resize mutex; the worker callback runs the same loop registered and under the same mutex."""
    m = ctx.mod("cds", "flat")
    f = m.fn("cds_lfht_resize")
    if f is None:
        raise Broken("cds_lfht_resize vanished")
    rep.touch(f)
    st = [s for s in pat.stores(f, "cds_lfht.resize_target")]
    loop = [l for l in pat.loads(f, "cds_lfht.resize_target")]
    lk = [c for c in f.calls("pthread_mutex_lock") if c.d["aps"][0] is not None and pat.last_field(c.d["aps"][0]) == "cds_lfht.resize_mutex"]
    if not st:
        rep.bad(rid, "resize.target-stored", "cds_lfht_resize never stores the requested size into resize_target: an explicit resize does nothing", [f.name])
        return
    pat.require(lk and loop, "cds_lfht_resize: mutex / resize loop")
    rep.must_pass(rid, "resize.target-stored", f, [f.entry()], lk, lambda i: i in st, include_start=True, what="the target is published before the resize loop is entered")
    def depends(v, k, depth=12):
        if v == ["a", k] or tuple(v) == ("a", k):
            return True
        if v[0] != "i" or depth == 0:
            return False
        i = f.insts[v[1]]
        ops = list(i.args) + ([x for x, _b in i.d["inc"]] if i.op == "phi" else [])
        return any(x is not None and depends(x, k, depth - 1) for x in ops)
    dep = all(depends(s.args[0], 1) for s in st)
    rep.check(dep, rid, "resize.target-from-arg", "the stored target is derived from the requested size", "the stored target does not depend on the requested size: %s" % [ir.expr_str(ir.expr(f, s.args[0], 6)) for s in st][:1], [st[0].where()])


def rule_workcb(ctx, rep, rid):
    """the work-queue callbacks of the hash table run the resize / destroy as a registered RCU thread under the resize mutex and
    leave unregistered (the worker thread sleeps between work items: a thread left registered and online stalls every later
    qsbr grace period; a second registration corrupts the registry)"""
    m = ctx.mod("cds", "perfn")
    f = m.fn("do_resize_cb")
    if f is None:
        raise Broken("do_resize_cb vanished")
    rep.touch(f)
    ics = [i for i in f.all_insts() if i.op == "icall"]
    reg = [i for i in ics if (lambda e: e[0] == "load" and e[1].endswith("rcu_flavor_struct.register_thread"))(ir.expr(f, i.d["fp"], 6))]
    unr = [i for i in ics if (lambda e: e[0] == "load" and e[1].endswith("rcu_flavor_struct.unregister_thread"))(ir.expr(f, i.d["fp"], 6))]
    rs = pat.calls(f, "_do_cds_lfht_resize")
    pat.require(rs, "do_resize_cb: _do_cds_lfht_resize")
    if not reg or not unr:
        rep.bad(rid, "resize_cb.registered", "the resize callback does not %s with the flavor" % ("register" if not reg else "unregister"), [f.name])
    else:
        rep.must_pass(rid, "resize_cb.registered", f, [f.entry()], rs, lambda i: i in reg, include_start=True, what="register_thread before the resize")
        rep.must_pass(rid, "resize_cb.unregisters", f, rs, None, lambda i: i in unr, to_exit=True, what="unregister_thread after the resize, on every path")
    lk = [c for c in f.calls() if c.callee in ("mutex_lock", "pthread_mutex_lock") and c.d["aps"][0] is not None and pat.last_field(c.d["aps"][0]) == "cds_lfht.resize_mutex"]
    ul = [c for c in f.calls() if c.callee in ("mutex_unlock", "pthread_mutex_unlock") and c.d["aps"][0] is not None and pat.last_field(c.d["aps"][0]) == "cds_lfht.resize_mutex"]
    if not lk or not ul:
        rep.bad(rid, "resize_cb.mutex", "the resize callback runs the resize loop without the resize mutex", [f.name])
    else:
        rep.must_pass(rid, "resize_cb.mutex", f, [f.entry()], rs, lambda i: i in lk, include_start=True, what="resize mutex taken before the resize loop")
        rep.must_pass(rid, "resize_cb.mutex-released", f, rs, None, lambda i: i in ul, to_exit=True, what="resize mutex released after the resize loop")
    a0 = ir.expr(f, rs[0].args[0], 4)
    rep.check(a0[0] == "load" and a0[1].endswith("resize_work.ht"), rid, "resize_cb.table", "resizes the table recorded in the work item", "resizes %s" % ir.expr_str(a0), [rs[0].where()])
    # ... and whoever queues the work item has recorded the table in it (the item comes from malloc) and queues it with this callback
    nq = 0
    for g in m.defined():
        for q in [c for c in g.calls("urcu_workqueue_queue_work")]:
            if ir.expr(g, q.args[2], 3) != ("fn", f.name) and not (q.args[2] and q.args[2][0] == "f" and q.args[2][1] == f.name):
                continue
            nq += 1
            rep.touch(g)
            sts = [s_ for s_ in g.all_insts() if s_.op == "store" and s_.d.get("ap") and pat.last_field(s_.d["ap"]) == "resize_work.ht"]
            good = [s_ for s_ in sts if ir.expr(g, s_.args[0], 3) == ("arg", 0)]
            if not good:
                rep.bad(rid, "resize_work.ht@" + g.srcname, "%s queues a resize work item without recording the table in it: the worker resizes whatever the malloc'ed memory held" % g.srcname, [q.where()])
            else:
                rep.must_pass(rid, "resize_work.ht@" + g.srcname, g, [g.entry()], [q], lambda i, good=good: i in good, include_start=True, what="work->ht = ht before the work item is queued")
    pat.require(nq >= 1, "nobody queues do_resize_cb")


def rule_count_approx(ctx, rep, rid):
    """cds_lfht_count_nodes: both approximations sum add - del over every split counter, index 0 .. split_count_mask"""
    m = ctx.mod("cds", "flat")      # exported root: a helper extracted for the two loops is inlined again
    f = m.fn("cds_lfht_count_nodes")
    if f is None:
        raise Broken("cds_lfht_count_nodes vanished")
    rep.touch(f)
    lds = [l for l in f.all_insts() if l.op == "load" and l.d["ap"] and pat.last_field(l.d["ap"]) in ("ht_items_count.add", "ht_items_count.del")]
    pat.require(len(lds) >= 4, "count_nodes: split counter loads")
    phis = set()
    for l in lds:
        for st in l.d["ap"]["steps"]:
            pass
        e = ir.expr(f, l.args[0], 6) if l.args else None
    comps = [c for c in f.sccs() if any(l.blk.id in c for l in lds)]
    pat.require(len(comps) == 2, "count_nodes: the two approximation loops")
    for k, comp in enumerate(sorted(comps, key=min)):
        idx = [i for i in f.all_insts() if i.op == "phi" and i.blk.id in comp and i.d.get("ty") == "i32"]
        ok = False
        for ph in idx:
            incs = [ir.expr(f, v, 4) for v, _b in ph.d["inc"]]
            bound = [a for t, s_, a in pat.branch_edges_on(f, lambda a: len(a) == 3 and ir.expr_contains(a[1], lambda z: z == ("phi", ph.id)) and ir.expr_contains(a[2], lambda z: z[0] == "load" and z[1] == "@split_count_mask"))]
            if ("c", 0) in incs and ("bin", "add", ("phi", ph.id), ("c", 1)) in incs and any(a[0] in ("slt", "sge", "sle", "sgt") for a in bound):
                okb = any((a[0] in ("slt", "sge") and a[2] == ("bin", "add", ("load", "@split_count_mask", a[2][2][2] if a[2][0] == "bin" and a[2][2][0] == "load" else "na", a[2][2][3] if a[2][0] == "bin" and a[2][2][0] == "load" else 0), ("c", 1))) or
                          (a[0] in ("sle", "sgt") and a[2][0] == "load") for a in bound)
                ok = okb
        which = "before" if k == 0 else "after"
        rep.check(ok, rid, "count_nodes.approx-%s.loop" % which, "sums split counters 0 .. split_count_mask", "the approximation loop does not run i = 0, 1, ..., split_count_mask (index or bound changed): counters are skipped / memory outside the array is read", [f.name])


def _feasible_blocks(f, env):
    """blocks reachable from the entry through edges none of whose atoms is false under env (sa/ceval.py; unknown = feasible)"""
    from .. import ceval
    seen, work = {0}, [0]
    while work:
        b = work.pop()
        for s_ in f.blocks[b].succ:
            if s_ in seen:
                continue
            if any(ceval.truth(a, env) is False for a in ir.edge_atoms(f, b, s_)):
                continue
            seen.add(s_)
            work.append(s_)
    return seen


def rule_mm_cases(ctx, rep, rid):
    """per allocator plugin, alloc_bucket_table(order) and free_bucket_table(order) treat the same orders the same way.  Orders
    fall into classes (0; 1 .. min_alloc_buckets_order, already covered by the level-0 allocation; above) and, for the mmap
    plugin, small (min == max, calloc'ed) versus large tables.  For one representative per class the actions on the feasible
    paths are collected (branch predicates evaluated, nothing executed) and paired: calloc <-> free, map + populate <-> unmap,
    populate <-> discard, nothing <-> nothing.  A free that acts on an order its alloc did nothing for releases memory still
    in use (or leaks the other one); an alloc that skips an order leaves the level without memory."""
    import itertools
    m = ctx.mod("cds", "perfn")
    PAIR = {frozenset(): frozenset(), frozenset(["calloc"]): frozenset(["free"]), frozenset(["memory_map", "memory_populate"]): frozenset(["memory_unmap"]),
            frozenset(["memory_populate"]): frozenset(["memory_discard"])}

    def actions(f, env):
        acts = set()
        for b in _feasible_blocks(f, env):
            for i in f.blocks[b].insts:
                if i.op == "icall":
                    e = ir.expr(f, i.d["fp"])
                    if e[0] == "load" and e[1].endswith("cds_lfht_alloc.calloc"):
                        acts.add("calloc")
                    if e[0] == "load" and e[1].endswith("cds_lfht_alloc.free"):
                        acts.add("free")
                if i.op == "call" and i.callee in ("memory_map", "memory_populate", "memory_discard", "memory_unmap"):
                    acts.add(i.callee)
                if i.op == "call" and i.callee == "poison_free":
                    acts.add("free")
        return frozenset(acts)
    n = 0
    for gname, g in m.globals.items():
        init = g.get("init")
        if not init or init[0] != "struct" or init[1] != "cds_lfht_mm_type":
            continue
        slots = dict((k.split(".")[-1], v) for k, v in init[2])
        af, ff = m.fn(slots["alloc_bucket_table"][1]), m.fn(slots["free_bucket_table"][1])
        if af is None or ff is None:
            raise Broken("mm functions of %s not defined" % gname)
        rep.touch(af)
        rep.touch(ff)
        kind = gname.split("_")[-1]
        bad = []
        some = False
        for order, small in itertools.product((0, 1, 2, 3, 5), (True, False)):
            env = {("arg", 1): order, ("load", "arg0.cds_lfht.min_alloc_buckets_order"): 2, ("load", "arg0.cds_lfht.min_nr_alloc_buckets"): 4,
                   ("load", "arg0.cds_lfht.max_nr_buckets"): 4 if small else 1024}
            a, fr = actions(af, env), actions(ff, env)
            n += 1
            if a:
                some = True
            if a not in PAIR:
                raise Broken("%s allocator: unrecognised allocation actions %s for order %d" % (kind, sorted(a), order))
            if PAIR[a] != fr:
                bad.append("order %d%s: alloc does %s, free does %s" % (order, " (small table)" if small and kind == "mmap" else "", sorted(a) or "nothing", sorted(fr) or "nothing"))
            # orders above the minimum always get memory (except small mmap tables, which are allocated whole at order 0)
            if order > 2 and not a and not (kind == "mmap" and small):
                bad.append("order %d: nothing is allocated" % order)
            if order == 0 and not a:
                bad.append("order 0: nothing is allocated")
        pat.require(some, "%s allocator: no allocation action recognised" % kind)
        rep.check(not bad, rid, kind + ".alloc-free-agree", "alloc and free of the %s plugin act on the same order classes with matching actions" % kind,
                  "%s plugin: %s" % (kind, "; ".join(bad[:3])), [af.name, ff.name])
    pat.require(n >= 30, "mm case table: only %d cases" % n)
    # chunk plugin: an order above the minimum covers chunks len .. 2*len - 1 with len = 1 << (order - 1 - min_order); alloc and
    # free walk the same range, upwards
    import re as _re
    from .. import linear
    g = m.globals.get("cds_lfht_mm_chunk")
    if g is None:
        raise Broken("cds_lfht_mm_chunk vanished")
    slots = dict((k.split(".")[-1], v) for k, v in g["init"][2])
    shape = {}
    mf = ctx.mod("cds", "flat")     # plugin functions are roots (address taken): helpers extracted from them are inlined here
    for role in ("alloc_bucket_table", "free_bucket_table"):
        f = mf.fn(slots[role][1]) or m.fn(slots[role][1])
        rep.touch(f)
        phs = [i for i in f.all_insts() if i.op == "phi" and any(ir.expr(f, v, 3) == ("bin", "add", ("phi", i.id), ("c", 1)) or ir.expr(f, v, 3) == ("bin", "add", ("phi", i.id), ("c", -1)) for v, _b in i.d["inc"])]
        if len(phs) != 1:
            raise Broken("chunk %s: chunk loop not recognised" % role)
        ph = phs[0]
        incs = [ir.expr(f, v, 8) for v, _b in ph.d["inc"]]
        init = [x for x in incs if not ir.expr_contains(x, lambda z: z == ("phi", ph.id))]
        step = [x for x in incs if x not in init]
        bnd = [(t, s_, a) for t, s_, a in pat.branch_edges_on(f, lambda a: len(a) == 3 and a[1] == ("phi", ph.id))]
        norm = lambda e: _re.sub(r"#\d+", "#", ir.expr_str(e))
        cont = [a for t, s_, a in bnd if s_ in [c for c in f.sccs() if ph.blk.id in c][0] and s_ != ph.blk.id] or [a for t, s_, a in bnd if a[0] in ("ult", "ule")]
        shape[role] = (sorted(map(norm, init)), sorted(map(norm, step)), sorted(set((a[0], norm(a[2])) for t, s_, a in bnd)))
        def is_len(x):
            """x == 1 << (order - 1 - min_alloc_buckets_order), whatever way the exponent is written"""
            if not (x[0] == "bin" and x[1] == "shl" and x[2] == ("c", 1)):
                return False
            n_ = linear.norm(x[3])
            return n_ is not None and n_.get(1, 0) == -1 and n_.get(("t", "arg1"), 0) == 1 and any(isinstance(t_, tuple) and t_[0] == "ld" and t_[1].endswith("min_alloc_buckets_order") and c_ == -1 for t_, c_ in n_.items()) and len(n_) == 3

        def is_2len(x):
            if x[0] == "bin" and x[1] == "mul":
                return (x[2] == ("c", 2) and is_len(x[3])) or (x[3] == ("c", 2) and is_len(x[2]))
            if x[0] == "bin" and x[1] == "shl" and x[3] == ("c", 1):
                return is_len(x[2])
            if x[0] == "bin" and x[1] == "add":
                return is_len(x[2]) and is_len(x[3])
            return False
        if len(init) != 1 or not is_len(init[0]) and not (init[0][0] == "bin" and init[0][1] == "shl"):
            raise Broken("chunk %s: first chunk index %s is not of the form 1 << (...): not comparable" % (role, [norm(x) for x in init]))
        okshape = len(init) == 1 and is_len(init[0]) and [norm(x) for x in step] == ["(phi# add 1)"] and set(a[0] for t, s_, a in bnd) == {"ult", "uge"} and all(is_2len(a[2]) for t, s_, a in bnd)
        shape[role] = ("len" if len(init) == 1 and is_len(init[0]) else sorted(map(norm, init)), sorted(map(norm, step)), sorted(set((a[0], "2*len" if is_2len(a[2]) else norm(a[2])) for t, s_, a in bnd)))
        # polarity: the `ult` edge enters the body
        body_ok = all((f.reach([f.blocks[s_].insts[0]], [i for i in f.all_insts() if i.op == "icall"], include_start=True, avoid=lambda i, t=t: i is t)[0] is not None) == (a[0] == "ult") for t, s_, a in bnd)
        rep.check(okshape and body_ok, rid, "chunk.%s.range" % role.split("_")[0], "%s walks chunks len, len+1, ..., 2*len-1 (len = 1 << (order - 1 - min_order))" % role,
                  "%s walks chunks from %s in steps %s while %s: chunks of another order are (re)allocated / freed, or none is" % (role, shape[role][0], shape[role][1], shape[role][2]), [f.name])
    rep.check(shape["alloc_bucket_table"] == shape["free_bucket_table"], rid, "chunk.alloc=free.range", "alloc and free walk the same chunk range", "alloc walks %s, free walks %s" % (shape["alloc_bucket_table"], shape["free_bucket_table"]), [])
