"""C14 — grace-period polling never reports completion early and eventually reports it (structural part)."""
from .. import ir, mm, pat, paths, lockset
from ..core import Broken
from ..flavors import FL, ALL

META = {
    "explanation": "Rules on every flavor's start_poll_synchronize_rcu / poll_state_synchronize_rcu / urcu_poll_worker_cb: all accesses to the poll state under its lock; the handle returned "
                   "is the current grace-period id when no poll is in flight and current+1 when one is (it may have started before this call), and the same value is recorded as the "
                   "worker's latest target; the worker is queued through call_rcu (so it runs after a full grace period, C03) iff none was active; only the worker advances the current id, by "
                   "exactly one, and re-queues itself iff latest - current >= 0 as a signed difference, else clears `active`; poll_state compares target - current < 0 as a signed difference; "
                   "the worker's address is only ever handed to call_rcu.",
    "not_decided": "never-early under all interleavings; eventual completion",
}
CUR = "current_state.urcu_gp_poll_state.grace_period_id"
LATEST = "latest_target.urcu_gp_poll_state.grace_period_id"


def is_cur(e):
    return e[0] == "load" and e[1].endswith(CUR)


def worker_fn(ctx, fl):
    """the poll worker callback, identified as the function start_poll_synchronize_rcu hands to call_rcu (not by name)"""
    F = FL[fl]
    f = ctx.fn(F.lib, F.pfx + "_start_poll_synchronize_rcu")
    for c in f.calls(F.pfx + "_call_rcu"):
        e = ir.expr(f, c.args[1])
        if e[0] == "fn":
            g = ctx.mod(F.lib, "flat").fn(e[1])
            if g is not None:
                return g
    raise Broken("%s: start_poll does not queue a worker through call_rcu" % fl)


def rule_lock(ctx, rep):
    for fl in ALL:
        F = FL[fl]
        for name in (F.pfx + "_start_poll_synchronize_rcu", F.pfx + "_poll_state_synchronize_rcu", worker_fn(ctx, fl).name):
            f = ctx.fn(F.lib, name)
            rep.touch(f)
            ls = lockset.compute(f)
            acc = [i for i in f.all_insts() if i.op in ("load", "store") and pat.base_global(i.d["ap"]) == "poll_worker_gp_state" and pat.last_field(i.d["ap"]) != "urcu_poll_worker_state.lock"]
            pat.require(acc, "%s: no access to poll state" % name)
            bad = [i for i in acc if not any(k.endswith("urcu_poll_worker_state.lock") for k in ls.get(i.id, ()))]
            rep.check(not bad, "C14.lock", "%s.%s" % (fl, name), "%d accesses to the poll state, all under its lock" % len(acc), "poll state accessed without its lock", [b.where() for b in bad[:2]])
            # one critical section per call: the decision taken from the poll state and the state update it implies (active flag,
            # latest target, re-queue) are atomic with respect to the other entry points; re-taking the lock after releasing it splits them
            lk = [c for c in f.calls("pthread_mutex_lock") if lockset.lock_name(c).endswith("urcu_poll_worker_state.lock")]
            ul = [c for c in f.calls("pthread_mutex_unlock") if lockset.lock_name(c).endswith("urcu_poll_worker_state.lock")]
            pat.require(lk and ul, "%s: poll lock acquisition" % name)
            again, _par = f.reach(ul, lk)
            rep.check(again is None, "C14.lock", "%s.%s.one-section" % (fl, name), "the poll state is read and updated in a single critical section",
                      "%s releases the poll lock and takes it again: what it decided in the first section (re-queue or go idle, handle value) can be invalidated by a "
                      "start_poll running in between (a handle that never completes / completes early)" % name, [again.where()] if again is not None else [])
            held = [r for r in f.rets() if ls.get(r.id)]
            rep.check(not held, "C14.lock", "%s.%s.released" % (fl, name), "lock released at return", "returns holding the poll lock", [h.where() for h in held])


def rule_handle(ctx, rep):
    for fl in ALL:
        F = FL[fl]
        f = ctx.fn(F.lib, F.pfx + "_start_poll_synchronize_rcu")
        rep.touch(f)
        cases = paths.ret_cases(f)
        seen = set()
        lat = [s for s in f.all_insts() if s.op == "store" and ir.ap_str(f, s.d["ap"]).endswith(LATEST)]
        pat.require(lat, "%s: latest_target store" % fl)
        for p, atoms, v in cases:
            act = [a for a in atoms if a[0] in ("eq", "ne") and a[2] == ("c", 0) and a[1][0] == "load" and a[1][1].endswith("urcu_poll_worker_state.active")]
            if not act:
                continue
            active = act[0][0] == "ne"
            seen.add(active)
            if active:
                ok = v is not None and v[0] == "bin" and v[1] == "add" and is_cur(v[2]) and v[3] == ("c", 1)
                rep.check(ok, "C14.handle", fl + ".active⇒cur+1", "a poll already in flight: handle = current id + 1 (its grace period may predate this call)",
                          "with a poll in flight the handle is %s: it completes with the grace period that was already running, which does not cover readers that began since" % ir.expr_str(v),
                          [f.rets()[0].where()])
            else:
                ok = v is not None and is_cur(v)
                rep.check(ok, "C14.handle", fl + ".idle⇒cur", "no poll in flight: handle = current id", "idle handle is %s" % ir.expr_str(v), [f.rets()[0].where()])
            # value recorded as latest_target on this path equals the handle
            sts = [s for b in p for s in f.blocks[b].insts if s in lat]
            okl = bool(sts) and paths.expr_on_path(f, sts[-1].args[0], p) == v
            rep.check(okl, "C14.handle", fl + (".active" if active else ".idle") + ".latest=handle", "the worker's latest target is set to the handle returned",
                      "latest_target (%s) differs from the handle returned (%s): the worker stops before the handle's grace period, or the handle completes early"
                      % (ir.expr_str(paths.expr_on_path(f, sts[-1].args[0], p)) if sts else "unset", ir.expr_str(v)), [s.where() for s in sts[-1:]] or [f.name])
            # call_rcu iff it was idle
            crs = [c for b in p for c in f.blocks[b].insts if c.op == "call" and c.callee == F.pfx + "_call_rcu"]
            rep.check(bool(crs) == (not active), "C14.handle", fl + (".active" if active else ".idle") + ".queue-iff-idle", "worker queued through call_rcu iff no poll was in flight",
                      "worker %s although a poll was %s" % ("queued" if crs else "not queued", "in flight" if active else "not in flight"), [f.name])
            if not active:
                st = [s for b in p for s in f.blocks[b].insts if s.op == "store" and pat.last_field(s.d["ap"]) == "urcu_poll_worker_state.active" and ir.const_of(f, s.args[0]) == 1]
                rep.check(bool(st), "C14.handle", fl + ".idle.sets-active", "marks the poll as in flight", "does not set `active` when starting a poll", [f.name])
        rep.check(seen == {True, False}, "C14.handle", fl + ".both-cases", "both the idle and the in-flight case are handled", "start_poll does not distinguish an in-flight poll", [f.name])


def rule_worker(ctx, rep):
    for fl in ALL:
        F = FL[fl]
        m = ctx.mod(F.lib, "flat")
        who = set()
        for g in m.defined():
            for s in g.all_insts():
                if s.op in ("store", "rmw", "cmpxchg") and ir.ap_str(g, s.d["ap"]).endswith(CUR):
                    who.add(g.name)
        rep.check(who == {worker_fn(ctx, fl).name}, "C14.worker", fl + ".who-advances", "only the worker advances the current id", "current id written by %s" % sorted(who), sorted(who))
        w = worker_fn(ctx, fl)
        rep.touch(w)
        sts = [s for s in w.all_insts() if s.op == "store" and ir.ap_str(w, s.d["ap"]).endswith(CUR)]
        for s in sts:
            e = ir.expr(w, s.args[0])
            rep.check(e[0] == "bin" and e[1] == "add" and is_cur(e[2]) and e[3] == ("c", 1), "C14.worker", fl + ".plus-one", "current id advances by exactly one per grace period", "current id set to %s" % ir.expr_str(e), [s.where()])
        cr = pat.calls(w, F.pfx + "_call_rcu")
        clr = [s for s in w.all_insts() if s.op == "store" and pat.last_field(s.d["ap"]) == "urcu_poll_worker_state.active" and ir.const_of(w, s.args[0]) == 0]
        if not cr or not clr:
            rep.bad("C14.worker", fl + ".requeue-or-idle", "worker must either re-queue itself or clear `active`", [w.name])
            continue

        def sgn_diff(a, want_pred):
            return a[0] == want_pred and a[2] == ("c", 0) and a[1][0] == "bin" and a[1][1] == "sub" and a[1][2][0] == "load" and a[1][2][1].endswith(LATEST) and ir.expr_contains(a[1][3], is_cur)
        g1 = any(sgn_diff(a, "sge") or (a[0] == "sgt" and a[2] == ("c", -1) and a[1][0] == "bin") for a in pat.dom_leaf_atoms(w, cr[0]))
        g2 = any(sgn_diff(a, "slt") or (a[0] == "sle" and a[2] == ("c", -1) and a[1][0] == "bin") for a in pat.dom_leaf_atoms(w, clr[0]))
        rep.check(g1 and g2, "C14.worker", fl + ".requeue-iff-behind", "re-queues iff (long)(latest - current) >= 0 after the increment, else goes idle",
                  "re-queue test is not the signed difference latest - current >= 0 (wrap-around / off-by-one: a handle may never complete or the worker may stop early)", [cr[0].where()])
        rep.must_pass("C14.worker", fl + ".incr≺test", w, [w.entry()], cr + clr, lambda i: i in sts, include_start=True, what="the id is advanced before deciding whether to re-queue")
        fnarg = ir.expr(w, cr[0].args[1])
        rep.check(fnarg == ("fn", w.name), "C14.worker", fl + ".requeues-itself", "re-queues itself", "re-queues %s" % ir.expr_str(fnarg), [cr[0].where()])
        # address of the worker only flows to call_rcu
        uses = []
        for g in m.defined():
            for i in g.all_insts():
                for k, a in enumerate(i.args):
                    if a == ["f", worker_fn(ctx, fl).name]:
                        uses.append((g, i, k))
        bad = [(g, i) for g, i, k in uses if not (i.op == "call" and i.callee == F.pfx + "_call_rcu" and k == 1)]
        rep.check(uses and not bad, "C14.reach", fl + ".only-via-call_rcu", "the worker runs only as a call_rcu callback (after a full grace period)", "worker invoked or stored outside call_rcu", [i.where() for g, i in bad[:2]])


def rule_cmp(ctx, rep):
    for fl in ALL:
        F = FL[fl]
        f = ctx.fn(F.lib, F.pfx + "_poll_state_synchronize_rcu")
        rep.touch(f)
        n = 0
        for p, atoms, v in paths.ret_cases(f):
            if v is not None and v[0] == "c" and v[1] != 0:
                n += 1
                ok = any(a[0] == "slt" and a[2] == ("c", 0) and a[1][0] == "bin" and a[1][1] == "sub" and a[1][2] == ("arg", 0) and is_cur(a[1][3]) for a in atoms)
                rep.check(ok, "C14.cmp", fl + ".true-iff-signed-diff<0", "true iff (long)(target - current) < 0", "poll_state returns true on %s: not the signed difference target - current < 0 "
                          "(unsigned or operand compare breaks at wrap-around; `<=` reports completion one grace period early)" % [ir.atom_str(a) for a in atoms if a[0] != "eq" or True][-2:], [f.rets()[0].where()])
        pat.require(n >= 1, "%s: poll_state never returns true" % fl)


def rule_requeue_survives(ctx, rep):
    """A handle completes only if the worker callback keeps running: when it re-queues itself on a helper that is being
    destroyed, the callback becomes a leftover that C03's hand-over must deliver to a helper that is awake (shared rules:
    leftovers spliced under the mutex, the receiving helper woken on every path)."""
    from . import c03
    n0 = len(rep.results)
    c03.rule_handover(ctx, rep)
    keep = []
    for r in rep.results[n0:]:
        if any(k in r["instance"] for k in ("wake-default", "splice")):
            r = dict(r)
            r["key"] = r["key"].replace(r["rule"], "C14.handover")
            r["rule"] = "C14.handover"
            keep.append(r)
    del rep.results[n0:]
    rep.results += keep
    pat.require(keep, "hand-over instances vanished")


def rule_child_adopts(ctx, rep):
    """The worker callback queued before fork() has to be adopted by a live helper in the child (C16's child rules on the
    call_rcu side: rebuild skipped only when no helper exists, new default before the stale ones are freed)."""
    from . import c16
    c16.rule_child(ctx, rep, "C14.child", callrcu_only=True)


META["explanation"] += " " + "Also (rounds 10-11): call_rcu's read-side bracket around helper lookup + enqueue, and the STOPPED handshake of helper teardown (the worker re-queues itself from the last batch)."

META["explanation"] += " " + 'Also (round 12): helper-selection state is written only by its setters (shared from C03).'

META["explanation"] += " " + 'Also (round 14): the polling prototypes carry no pure / const attribute (an optimised caller would poll once).'

RULES = [
    ("C14.proto", lambda c, r: __import__("sa.attrs", fromlist=["x"]).rule_nopure(c, r, "C14.proto", 'poll_state_synchronize_rcu|start_poll_synchronize_rcu', "grace-period polling", 8)),   # compiler-visible contract of the public prototypes: pure / const would let an optimised caller poll once
    ("C14.child", rule_child_adopts),
    ("C14.lock", rule_lock),
    ("C14.handle", rule_handle),
    ("C14.worker", rule_worker),
    ("C14.cmp", rule_cmp),
    ("C14.handover", rule_requeue_survives),
    ("C14.parked", lambda c, r: pat.shared(__import__("sa.rules.c16", fromlist=["x"]).rule_pause, "C14.parked", lambda x: "parks-empty-handed" in x["instance"] and "workqueue" not in x["instance"])(c, r)),   # the worker callback must not sit in a private batch of a helper parked for fork
    ("C14.rl", lambda c, r: pat.shared(__import__("sa.rules.c03", fromlist=["x"]).rule_enq, "C14.rl", lambda x: x["rule"] == "C03.rl" or x["status"] != "pass")(c, r)),   # start_poll hands its worker to a helper through call_rcu(): helper lookup and enqueue stay inside one read-side section, or the worker lands on a freed per-CPU helper and "eventually true" is lost
    ("C14.stopped", lambda c, r: pat.shared(__import__("sa.rules.c03", fromlist=["x"]).rule_handover_c03, "C14.stopped", lambda x: "STOPPED" in x["instance"] or "nonempty" in x["instance"] or x["status"] != "pass")(c, r)),   # the poll worker re-queues itself from the helper's last batch: a helper is emptied / freed only after it acknowledged STOPPED, or the re-queued worker is freed with it and no handle ever completes
    ("C14.who", lambda c, r: pat.shared(__import__("sa.rules.c03", fromlist=["x"]).rule_who, "C14.who")(c, r)),   # start_poll picks its helper through get_call_rcu_data(): the selection state is written only by its setters (a cached pointer to a retired helper swallows the worker)
]
FLOORS = {}
