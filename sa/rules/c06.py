"""C06 — hash table: unique adds never expose duplicate keys; replace is atomic (partial)."""
from . import lfht, c09

META = {
    "explanation": "Rules on _cds_lfht_add / _cds_lfht_replace / cds_lfht_replace: the duplicate search of a unique add starts only at a non-bucket node of equal reverse hash and "
                   "a found duplicate returns without any write; add_unique/add_replace request the check; replace changes old_node->next by exactly one cmpxchg that installs "
                   "new_node|REMOVED|REMOVAL_OWNER against an expected value re-checked !REMOVED after every failure, after new_node->next was set to that same expected value; returns 0 only "
                   "on cmpxchg success; argument validation; plus the traversal filter of next_duplicate (shared with C05).",
    "not_decided": "absence of duplicates under all interleavings",
}

META["explanation"] += " " + "Also: iterator continuation discipline (a traversal positioned on a replaced node never sees its replacement as well), and del's ownership exchange writes the re-read next word (a committed replace is not overwritten)."
META["explanation"] += " " + 'Also (rounds 11-12): add_replace result discipline, gc link keeps exactly the BUCKET flag of the replaced word, cds_lfht_replace validates the *old* node against key and hash.'

META["explanation"] += " " + 'Also (round 13): flag bits in node->next are sticky - every in-place read-modify-write on it is an `or` (C06.bits).'

RULES = [
    ("C06.unique", lambda c, r: lfht.rule_unique(c, r, "C06.unique")),
    ("C06.replace", lambda c, r: lfht.rule_replace(c, r, "C06.replace")),
    ("C06.filter", lambda c, r: lfht.rule_filter(c, r, "C06.filter")),
    ("C06.pub", lambda c, r: lfht.rule_pub(c, r, "C06.pub")),
    ("C06.iter", lambda c, r: lfht.rule_iter(c, r, "C06.iter")),
    ("C06.del", lambda c, r: lfht.rule_del(c, r, "C06.del")),
    ("C06.partition", lambda c, r: c09.rule_partition(c, r, "C06.partition")),
    # an updater that picked its bucket with the pre-shrink size must be out of its read-side section before that bucket goes
    ("C06.shrink", lambda c, r: lfht.rule_shrink(c, r, "C06.shrink")),
    ("C06.addskel", lambda c, r: __import__("sa.rules.lfht2", fromlist=["x"]).rule_addskel(c, r, "C06.addskel")),
    ("C06.entry", lambda c, r: __import__("sa.rules.lfht2", fromlist=["x"]).rule_entry(c, r, "C06.entry")),
    ("C06.addprev", lambda c, r: __import__("sa.rules.lfht2", fromlist=["x"]).rule_addprev(c, r, "C06.addprev")),
    ("C06.addreplace", lambda c, r: __import__("sa.rules.lfht2", fromlist=["x"]).rule_addreplace(c, r, "C06.addreplace")),   # what add_replace returns: NULL iff own node inserted, the old node only after a successful replace, retry otherwise
    ("C06.rhinit", lambda c, r: __import__("sa.rules.lfht2", fromlist=["x"]).rule_rhinit(c, r, "C06.rhinit")),   # node->reverse_hash = bit_reverse_ulong(hash) before linking, in every entry point
    ("C06.bits", lambda c, r: lfht.rule_bits(c, r, "C06.bits")),   # flags in node->next are sticky and set only by their owners: a cleared REMOVED re-opens a frozen next pointer to add / gc
    ("C06.gcskel", lambda c, r: __import__("sa.rules.lfht2", fromlist=["x"]).rule_gcskel(c, r, "C06.gcskel")),   # what gc links in place of a removed node: a leaked BUCKET bit hides the preceding node from lookups / add_unique
]
FLOORS = {}
