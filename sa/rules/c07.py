"""C07 — hash table: removed node has one owner, unreachable after a grace period (partial)."""
from . import lfht, c09

META = {
    "explanation": "Rules on _cds_lfht_del (REMOVED ≺ gc ≺ OWNER exchange, early failure without writes for an already removed node, return 0 iff the exchange shows ownership was free), "
                   "who may atomically modify node->next and who may set REMOVED / REMOVAL_OWNER, shape of the unlinking cmpxchg in _cds_lfht_gc_bucket (flag-free value, only observed-REMOVED "
                   "nodes, restart from the bucket), remove_table_partition flags then unlinks every bucket node of a level, bucket tables freed only after unlink ≺ grace period, "
                   "destroy refuses non-empty tables before freeing anything, allocator alloc/free symmetry.",
    "not_decided": "single ownership and absence of later accesses as properties of schedules",
}

META["explanation"] += " " + 'Also: destroy tears down synchronously only for tables without AUTO_RESIZE worker (dominating guard with no further condition), deferred teardown frees the table last, emptiness walks classify every loaded next word, the EAGAIN fallback of the partitioned shrink covers the rest of the level.'
META["explanation"] += " " + "Also (rounds 10-11): per-thread read-side sections of the resize partitions, no table access while the thread is offline, the work queue's worker-visible fields are initialised before the worker exists."

RULES = [
    ("C07.del", lambda c, r: lfht.rule_del(c, r, "C07.del")),
    ("C07.bits", lambda c, r: lfht.rule_bits(c, r, "C07.bits")),
    ("C07.gc", lambda c, r: lfht.rule_gc(c, r, "C07.gc")),
    ("C07.free", lambda c, r: lfht.rule_shrink(c, r, "C07.free")),
    ("C07.destroy", lambda c, r: lfht.rule_destroy(c, r, "C07.destroy")),
    ("C07.sym", lambda c, r: lfht.rule_mm(c, r, "C07.sym")),
    ("C07.replace", lambda c, r: lfht.rule_replace(c, r, "C07.replace")),
    ("C07.emptywalk", lambda c, r: lfht.rule_emptywalk(c, r, "C07.emptywalk")),
    ("C07.partition", lambda c, r: c09.rule_partition(c, r, "C07.partition")),
    ("C07.mmapargs", lambda c, r: lfht.rule_mmapargs(c, r, "C07.mmapargs")),
    # a node linked in front of the bucket node of its own hash is never found by the unlink that del / replace start from that bucket
    ("C07.unique", lambda c, r: lfht.rule_unique(c, r, "C07.unique")),
    ("C07.wq", lambda c, r: __import__("sa.rules.wq", fromlist=["x"]).rule_workqueue(c, r, "C07.wq")),   # the work queue that executes resizes / deferred destroys
    ("C07.del", lambda c, r: __import__("sa.rules.lfht2", fromlist=["x"]).rule_del(c, r, "C07.del")),
    ("C07.delbucket", lambda c, r: __import__("sa.rules.lfht2", fromlist=["x"]).rule_delete_bucket(c, r, "C07.delbucket")),
    ("C07.gcskel", lambda c, r: __import__("sa.rules.lfht2", fromlist=["x"]).rule_gcskel(c, r, "C07.gcskel")),
    ("C07.destroy2", lambda c, r: __import__("sa.rules.lfht2", fromlist=["x"]).rule_destroy2(c, r, "C07.destroy2")),
    ("C07.urcuref", lambda c, r: __import__("sa.rules.c04", fromlist=["x"]).rule_urcuref(c, r, "C07.urcuref")),   # the work queue completion (flush before destroy) is reference counted
    ("C07.rs", lambda c, r: lfht.rule_rs(c, r, "C07.rs")),   # a removal (remove_table's bucket unlinks, GC of removed nodes) walks chains: every such walk is inside a read-side section, per resize worker thread as well
    ("C07.online", lambda c, r: lfht.rule_online(c, r, "C07.online")),   # an offline thread is not a reader: no table access between thread_offline() and thread_online()
    ("C07.mmcases", lambda c, r: __import__("sa.rules.lfht2", fromlist=["x"]).rule_mm_cases(c, r, "C07.mmcases")),
    ("C07.addreplace", lambda c, r: __import__("sa.rules.lfht2", fromlist=["x"]).rule_addreplace(c, r, "C07.addreplace")),   # what add_replace returns: NULL iff own node inserted, the old node only after a successful replace, retry otherwise
    ("C07.alloc", lambda c, r: __import__("sa.rules.lfht2", fromlist=["x"]).rule_allocdiscipline(c, r, "C07.alloc")),   # memory of a table goes through its cds_lfht_alloc only
]
FLOORS = {}
