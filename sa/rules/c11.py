"""C11 — stacks are LIFO: push/pop/pop_all lose nothing, duplicate nothing (partial)."""
from .. import ir, mm, pat, paths
from ..core import Broken
from . import c10
from .c10 import copies

META = {
    "explanation": "Atomic-step shape rules on every compiled copy of the wfstack / lfstack / rculfstack primitives: wfs push = full-barrier exchange of the head then release store of "
                   "node->next; wfs pop = load head, wait for next, cmpxchg(head, old -> next), END => NULL; pop_all = one exchange installing END/NULL; lfs / rculfs push = node->next set "
                   "before a cmpxchg retried with the value it returned, pop = consume load of head, load head->next, cmpxchg; locked variants (pop_blocking, pop_all_blocking) hold the "
                   "stack's lock across the unlocked primitive; the in-tree grace-period waiter stack is used with push and pop_all only (documented ABA-free usage).",
    "not_decided": "LIFO linearizability and ABA freedom under all interleavings",
}

META["explanation"] += " " + 'Also: decision tables of wfstack first/next/push/pop_all/empty results over the classes of the head / next word, lfstack push result derived from the replaced head, and the for_each iteration macros (witness unit).'
META["technique"] = 'static analysis: atomic-step shape rules, decision tables over value classes of loaded/exchanged words (no execution), iteration-macro witness rules over normalised LLVM IR'


def _srccalls(f, name):
    m = f.mod
    return [c for c in f.calls() if m.fn(c.callee) is not None and m.fn(c.callee).srcname == name]


def rule_wfs(ctx, rep):
    for lib, f in copies(ctx, "_cds_wfs_push"):
        rep.touch(f)
        tag = "%s.%s" % (lib, f.name)
        xs = pat.accesses(f, None, ("xchg",))
        if len(xs) != 1:
            rep.bad("C11.wfs", tag + ".xchg", "wfs push must exchange the head exactly once (found %d)" % len(xs), [f.name])
            continue
        x = xs[0]
        rep.check(x.full and ir.expr(f, x.val) == ("arg", 1) and x.ap["base"] == ["a", 0], "C11.wfs", tag + ".xchg", "head := node by a full-barrier xchg", "head exchange malformed", [x.inst.where()])
        st = [s for s in f.all_insts() if s.op == "store" and s.d["ap"]["base"] == ["a", 1]]
        ok = len(st) == 1 and st[0].d["order"] in ("release", "seq_cst") and f.dominates(x.inst, st[0]) and ir.expr_contains(ir.expr(f, st[0].args[0], 6), lambda z: z[0] == "asm" and z[2] == x.inst.id) or \
            (len(st) == 1 and "asm#%d" % x.inst.id in ir.expr_str(ir.expr(f, st[0].args[0], 6)))
        rep.check(ok, "C11.wfs", tag + ".link", "node->next := old head by a release store after the exchange", "node->next store missing / not release / not the old head", [s.where() for s in st])
    for lib, f in copies(ctx, "___cds_wfs_pop"):
        rep.touch(f)
        tag = "%s.%s" % (lib, f.name)
        cx = pat.accesses(f, None, ("cmpxchg",))
        pat.require(len(cx) == 1, "wfs pop: cmpxchg")
        c = cx[0]
        hl = [l for l in f.all_insts() if l.op == "load" and l.d["ap"]["base"] == ["a", 0]]
        pat.require(hl, "wfs pop: head load")
        exp = ir.expr(f, c.exp)
        new = ir.expr(f, c.new)
        rep.check(exp[0] == "load" and exp[3] == hl[0].id and new[0] == "call", "C11.wfs", tag + ".cmpxchg", "cmpxchg(head, loaded head -> its synced next)", "pop cmpxchg operands unexpected", [c.inst.where()])
        # *state |= LAST only on the success edge of the cmpxchg (a failed attempt must not leave the flag behind)
        sst = [i for i in f.all_insts() if i.op == "store" and i.d["ap"]["base"] == ["a", 1] and ir.const_of(f, i.args[0]) != 0]
        for s_ in sst:
            lv = pat.dom_leaf_atoms(f, s_)
            oks = any(a[0] == "eq" and a[1][0] == "asm" and a[1][2] == c.inst.id for a in lv) or any(a[0] == "eq" and a[2][0] == "asm" and a[2][2] == c.inst.id for a in lv)
            rep.check(oks, "C11.wfs", tag + ".state-after-success", "CDS_WFS_STATE_LAST is reported only for the pop whose cmpxchg succeeded",
                      "the `last element` state flag is set before knowing that this attempt's cmpxchg succeeds: after a retry the flag describes a different element", [s_.where()])
        # pop writes nothing but the head word and the caller's state: the popped node stays as the other (RCU / mutex-excluded)
        # poppers and a concurrent pop_all traversal last saw it - in particular its next pointer, which a popper that loaded the
        # same head still has to read for its own cmpxchg
        other = [e for e in pat.accesses(f, None, ("store", "rmw", "cmpxchg", "xchg")) if e.ap is not None and e.ap.get("base") not in (["a", 0], ["a", 1])
                 and not (e.ap.get("base") or ["?"])[0] == "alloca"]
        mod = ctx.mod(lib, "perfn")
        for c_ in f.all_insts():
            g = mod.fn(c_.callee) if c_.op == "call" and c_.callee else None
            if g is not None and g.blocks:
                other += [e for e in pat.accesses(g, None, ("store", "rmw", "cmpxchg", "xchg")) if e.ap is not None and (e.ap.get("base") or ["?"])[0] == "a"]
        rep.check(not other, "C11.wfs", tag + ".writes-only-head", "pop writes only the head word (cmpxchg) and *state", "pop writes into the node it removes (%s): a concurrent popper that loaded the same head, "
                  "or a traversal of a stack grabbed by pop_all, follows the overwritten next pointer (elements behind it are lost / reported as end)" % (ir.ap_str(f, other[0].ap) if other else ""),
                  [e.inst.where() for e in other[:2]])
        syn = _srccalls(f, "___cds_wfs_node_sync_next")
        for s in syn:
            rep.check(ir.expr(f, s.args[1]) == ("arg", 2), "C11.wfs", tag + ".blocking-flag", "blocking flag handed unchanged to the wait", "wait ignores the caller's blocking flag", [s.where()])
        from .. import dtable as _dt
        for p, atoms, v in paths.ret_cases(f):
            if v == ("c", 0):
                # NULL only for the END class of the head word, never for a node address (whatever the encoding of the END test)
                hid = [z[3] for a in atoms if len(a) == 3 for x in (a[1], a[2]) if isinstance(x, tuple) for z in ir.subexprs(x) if z[0] == "load"]
                ok = False
                for h in set(hid):
                    rel = [a for a in atoms if len(a) == 3 and any(z[0] == "load" and z[3] == h for x in (a[1], a[2]) if isinstance(x, tuple) for z in ir.subexprs(x))]
                    t_end = [_dt.truth(a, {h: ("c", 1), "__aligned__": True}) for a in rel]
                    t_node = [_dt.truth(a, {h: (_dt.OTHER, h), "__aligned__": True}) for a in rel]
                    if all(t is not False for t in t_end) and any(t is False for t in t_node):
                        ok = True
                rep.check(ok, "C11.wfs", tag + ".null-iff-END", "NULL only when head == END", "NULL returned on %s" % [ir.atom_str(a) for a in atoms], [f.rets()[0].where()])
        # which way each decision goes: WOULDBLOCK only in non-blocking mode after the successor wait reported it or the cmpxchg lost; a node
        # only from the attempt whose cmpxchg succeeded; LAST only when the new head is END
        def _exp(atoms):
            out = []
            for a in atoms:
                if len(a) == 3 and a[0] == "ne" and a[2] == ("c", 0) and a[1][0] in ("select", "bin", "icmp"):
                    lv = []
                    pat.leaf_atoms(("icmp", "ne", a[1], ("c", 0)), True, lv)
                    out += lv or [a]
                else:
                    out.append(a)
            return out
        is_sync = lambda x: x[0] == "call" and f.mod.fn(x[1]) is not None and f.mod.fn(x[1]).srcname == "___cds_wfs_node_sync_next"
        is_cas = lambda x: x[0] == "asm" and x[2] == c.inst.id
        for p, atoms, v in paths.ret_cases(f):
            atoms = _exp(atoms)
            site = [f.blocks[p[-1]].insts[-1].where()]
            wb_eq = any(a[0] == "eq" and a[2] == ("c", -1) and is_sync(a[1]) for a in atoms)
            cas_ok = any(a[0] == "eq" and (is_cas(a[1]) or is_cas(a[2])) for a in atoms)
            cas_ko = any(a[0] == "ne" and (is_cas(a[1]) or is_cas(a[2])) for a in atoms)
            if v == ("c", -1):
                rep.check(wb_eq or cas_ko, "C11.wfs", tag + ".wouldblock-only-when-blocked", "WOULDBLOCK is returned only after the successor wait reported it or the head cmpxchg lost",
                          "WOULDBLOCK is returned on a path where the successor was available and no cmpxchg was lost: a pop that could proceed reports failure (and one that must wait goes on with the sentinel)", site)
            elif v is not None and v != ("c", 0):
                rep.check(cas_ok and not wb_eq, "C11.wfs", tag + ".node-only-from-winning-attempt", "a node is returned only by the attempt whose cmpxchg succeeded, never after a WOULDBLOCK wait result",
                          "a node is returned %s" % ("after the successor wait reported WOULDBLOCK (the sentinel became the new head)" if wb_eq else "without this attempt's cmpxchg having succeeded"), site)
        END_ = 1
        for s_ in sst:
            lv = pat.dom_leaf_atoms(f, s_)
            isend = [a for a in lv if len(a) == 3 and (is_sync(a[1]) or is_sync(a[2])) and (a[1] == ("c", END_) or a[2] == ("c", END_))]
            if isend:
                rep.check(all(a[0] == "eq" for a in isend), "C11.wfs", tag + ".LAST-iff-new-head-END", "CDS_WFS_STATE_LAST is reported only when the new head is END", "the `last element` flag is set when the new head is *not* END", [s_.where()])
            else:
                bits = [a for a in lv if len(a) == 3 and a[1][0] == "bin" and a[1][1] == "and" and is_sync(a[1][2])]
                if bits:
                    rep.check(all(a[0] == "ne" for a in bits), "C11.wfs", tag + ".LAST-iff-new-head-END", "CDS_WFS_STATE_LAST is reported only when the new head carries the END mark", "the `last element` flag is set when the new head does not carry the END mark", [s_.where()])
                elif any(pat.atom_mentions(a, is_sync) for a in lv if len(a) == 3):
                    rep.bad("C11.wfs", tag + ".LAST-iff-new-head-END", "the `last element` flag is set on a path that does not establish `new head is END`: pops of non-last elements report LAST", [s_.where()])
                else:
                    rep.unk("C11.wfs", tag + ".LAST-iff-new-head-END", "the guard of the `last element` flag is not recognised")
    for lib, f in copies(ctx, "___cds_wfs_pop_all"):
        rep.touch(f)
        xs = pat.accesses(f, None, ("xchg",))
        wr = [i for i in f.all_insts() if i.op in ("store", "rmw", "cmpxchg")]
        rep.check(len(xs) == 1 and ir.const_of(f, xs[0].val) == 1 and not wr, "C11.wfs", "%s.%s" % (lib, f.name), "pop_all = one exchange installing END", "pop_all is not a single exchange with END", [f.name])


def rule_lfs(ctx, rep):
    for name, hb in (("_cds_lfs_push", "a0"), ("_cds_lfs_push_rcu", "a0")):
        for lib, f in copies(ctx, name):
            rep.touch(f)
            tag = "%s.%s" % (lib, f.name)
            cx = pat.accesses(f, None, ("cmpxchg",))
            pat.require(len(cx) == 1, "%s: cmpxchg" % name)
            c = cx[0]
            st = [s for s in f.all_insts() if s.op == "store" and s.d["ap"]["base"] == ["a", 1]]
            if not st:
                rep.bad("C11.lfs", tag + ".next", "push never sets node->next", [c.inst.where()])
                continue
            rep.must_pass("C11.lfs", tag + ".next≺cmpxchg", f, [f.entry()], [c.inst], lambda i: i in st, include_start=True, what="node->next set before the publishing cmpxchg")
            back, _ = f.reach([c.inst], st, avoid=lambda i: i is c.inst)
            # after a failed cmpxchg the store is redone with the value it returned
            exp = ir.strip_casts(f, c.exp)
            sv = ir.expr(f, st[0].args[0], 4)
            rep.check(exp[0] == "i" and f.insts[exp[1]].op == "phi" and (ir.expr_contains(sv, lambda z: z == ("phi", exp[1])) or ("phi#%d" % exp[1]) in ir.expr_str(sv)), "C11.lfs", tag + ".retry-with-returned",
                      "node->next and the expected value come from the same variable, refreshed by the failed cmpxchg", "push retries with a stale expected value / next pointer", [st[0].where(), c.inst.where()])
            rep.check(ir.expr(f, c.new) == ("arg", 1), "C11.lfs", tag + ".new=node", "cmpxchg installs the node", "cmpxchg installs %s" % ir.expr_str(ir.expr(f, c.new)), [c.inst.where()])
            rep.check(c.inst not in [i for i in f.all_insts() if False] and f.dominates(st[0], c.inst), "C11.lfs", tag + ".order", "store dominates cmpxchg", "node->next stored after the cmpxchg", [st[0].where()])
            # result `stack was non-empty` = (the head value the successful cmpxchg replaced != NULL): it is computed from the
            # expected-value variable (or the cmpxchg result, equal to it on the success edge), not from anything remembered
            # from earlier, failed attempts
            from .. import dtable
            for r in f.rets():
                if not r.args:
                    continue
                e = ir.expr(f, r.args[0], 6)
                # evaluate the returned expression over the two classes of the replaced head value (the expected-value variable,
                # equal to the cmpxchg result on the success edge): NULL -> 0, anything else -> non-zero
                okr = True
                for cls, want_zero in ((("c", 0), True), ((dtable.OTHER, 0), False)):
                    env = {("phi", exp[1]): cls, c.inst.id: cls}
                    if e[0] == "phi":
                        # `if (head == NULL) return false; return true;`: constants selected by a branch on the head value
                        ph = f.insts[e[1]]
                        vals = set()
                        for val, blk in ph.d["inc"]:
                            atoms = ir.edge_atoms(f, blk, ph.blk.id) + pat.dom_leaf_atoms(f, f.blocks[blk].insts[-1])
                            ts = [dtable.truth(a, env) for a in atoms]
                            if None in ts:
                                okr = False
                            if all(t for t in ts):
                                vals.add(ir.const_of(f, val))
                        okr = okr and len(vals) == 1 and None not in vals and ((next(iter(vals)) == 0) == want_zero)
                    else:
                        v = dtable.ev(e, env)
                        okr = okr and v is not None and v[0] == "c" and ((v[1] == 0) == want_zero)
                rep.check(okr, "C11.lfs", tag + ".ret=replaced-head!=NULL", "push returns whether the head it replaced was non-NULL",
                          "push result is %s, not (replaced head != NULL): it can disagree with the order in which pushes and pops took effect" % ir.expr_str(ir.expr(f, r.args[0], 6)), [r.where()])
    for name in ("___cds_lfs_pop", "_cds_lfs_pop_rcu"):
        for lib, f in copies(ctx, name):
            rep.touch(f)
            tag = "%s.%s" % (lib, f.name)
            cx = pat.accesses(f, None, ("cmpxchg",))
            pat.require(len(cx) == 1, "%s: cmpxchg" % name)
            c = cx[0]
            hl = [l for l in f.all_insts() if l.op == "load" and l.d["ap"]["base"] == ["a", 0]]
            pat.require(hl, "%s: head load" % name)
            rep.check(hl[0].d["order"] in ("acquire", "seq_cst"), "C11.lfs", tag + ".head-consume", "head loaded with consume/acquire", "head loaded without consume ordering", [hl[0].where()])
            exp, new = ir.expr(f, c.exp), ir.expr(f, c.new)
            rep.check(exp[0] == "load" and exp[3] == hl[0].id and new[0] == "load" and "*(" in new[1], "C11.lfs", tag + ".cmpxchg", "cmpxchg(head, loaded head -> loaded head->next)", "pop cmpxchg operands unexpected", [c.inst.where()])
            for p, atoms, v in paths.ret_cases(f):
                if v == ("c", 0):
                    ok = any(a[0] == "eq" and a[2] == ("c", 0) and a[1][0] == "load" and a[1][3] == hl[0].id for a in atoms)
                    rep.check(ok, "C11.lfs", tag + ".null-iff-empty", "NULL only when head == NULL", "NULL returned on %s" % [ir.atom_str(a) for a in atoms], [f.rets()[0].where()])
    for lib, f in copies(ctx, "___cds_lfs_pop_all"):
        rep.touch(f)
        xs = pat.accesses(f, None, ("xchg",))
        wr = [i for i in f.all_insts() if i.op in ("store", "rmw", "cmpxchg")]
        rep.check(len(xs) == 1 and ir.const_of(f, xs[0].val) == 0 and not wr, "C11.lfs", "%s.%s" % (lib, f.name), "pop_all = one exchange installing NULL", "pop_all is not a single exchange with NULL", [f.name])


def rule_cas_exit(ctx, rep):
    """lock-free push / pop (lfstack and the legacy RCU lfstack): once the compare-and-swap on the head was attempted, the
    operation returns only through the edge on which the CAS returned the expected value; every other outcome goes round again.
    A push that leaves its loop after a *failed* CAS reports success for a node that was never linked; a pop would hand out a
    node that is still on the stack."""
    m = ctx.mod("cds", "flat")
    n = 0
    for name in ("cds_lfs_push", "__cds_lfs_pop", "cds_lfs_push_rcu", "cds_lfs_pop_rcu", "cds_lfs_pop_blocking"):
        f = m.fn(name)
        if f is None:
            raise Broken(name + " vanished")
        rep.touch(f)
        for e in pat.accesses(f, None, ("cmpxchg",)):
            if e.ap is None or e.ap.get("base") != ["a", 0]:
                continue            # the CAS on the stack (first argument); type punning may name its head word `node.next`
            n += 1
            c = e.inst
            ok_edges = [(t.blk.id, s_) for t, s_, a in pat.branch_edges_on(f, lambda a: a[0] == "eq" and any(isinstance(z, tuple) and z[0] == "asm" and z[-1] == c.id for z in (a[1], a[2])))]
            # a pop that retried and found the stack empty meanwhile returns NULL: the edge `re-loaded head == NULL`
            empty = [(t.blk.id, s_) for t, s_, a in pat.branch_edges_on(f, lambda a: a[0] == "eq" and a[2] == ("c", 0) and a[1][0] == "load" and a[1][1].startswith("arg0."))] if "pop" in name else []
            if not ok_edges:
                rep.bad("C11.casexit", "%s@%d" % (name, c.id), "the result of the CAS on the stack head does not decide whether %s retries" % name, [c.where()])
                continue
            rep.must_take_edge("C11.casexit", "%s@%d" % (name, c.id), f, [c], list(f.rets()), ok_edges + empty, include_start=False, avoid=lambda i, c=c: i is c,
                               what="after a CAS attempt on the head the operation returns only on the edge where the CAS returned the expected value")
    pat.require(n >= 3, "only %d head CAS sites" % n)


def rule_locked(ctx, rep):
    table = [("_cds_lfs_pop_blocking", "_cds_lfs_pop_lock", "_cds_lfs_pop_unlock", "___cds_lfs_pop"),
             ("_cds_lfs_pop_all_blocking", "_cds_lfs_pop_lock", "_cds_lfs_pop_unlock", "___cds_lfs_pop_all"),
             ("_cds_wfs_pop_with_state_blocking", "_cds_wfs_pop_lock", "_cds_wfs_pop_unlock", "___cds_wfs_pop_with_state_blocking"),
             ("_cds_wfs_pop_all_blocking", "_cds_wfs_pop_lock", "_cds_wfs_pop_unlock", "___cds_wfs_pop_all")]
    for name, lk_, ul_, inner in table:
        for lib, f in copies(ctx, name):
            rep.touch(f)
            tag = "%s.%s" % (lib, f.name)
            lk, ul, wk = _srccalls(f, lk_), _srccalls(f, ul_), _srccalls(f, inner)
            pat.require(wk, "%s: inner call %s" % (name, inner))
            if not lk or not ul:
                rep.bad("C11.locked", tag, "%s runs %s without the stack's pop lock: pop and pop_all are no longer mutually excluded (ABA on re-pushed nodes)" % (name, inner), [wk[0].where()])
                continue
            rep.check(all(ir.expr(f, c.args[0]) == ("arg", 0) for c in lk + ul), "C11.locked", tag + ".same-stack", "locks the stack it pops from", "locks another stack", [lk[0].where()])
            rep.must_pass("C11.locked", tag + ".lock≺work", f, [f.entry()], wk, lambda i: i in lk, include_start=True, what="lock before the primitive")
            rep.must_pass("C11.locked", tag + ".work≺unlock", f, wk, None, lambda i: i in ul, to_exit=True, what="unlock after the primitive")
    for nm, fld in (("_cds_lfs_pop_lock", "cds_lfs_stack.lock"), ("_cds_wfs_pop_lock", "cds_wfs_stack.lock")):
        for lib, f in copies(ctx, nm):
            c = pat.calls(f, "pthread_mutex_lock")
            rep.check(bool(c) and pat.last_field(c[0].d["aps"][0]) == fld, "C11.locked", "%s.%s" % (lib, f.name), "pop lock = %s" % fld, "pop lock does not take %s" % fld, [f.name])


def rule_usage(ctx, rep):
    """gp_waiters (the in-tree wfstack user) is used with push and pop_all only"""
    from ..flavors import FL
    for fl in ("memb", "mb", "qsbr"):
        F = FL[fl]
        m = ctx.mod(F.lib, "perfn")
        users = {}
        for g in m.defined():
            for c in g.calls():
                if any(ap is not None and pat.base_global(ap) == "gp_waiters" for ap in c.d["aps"]):
                    users.setdefault(c.callee, []).append(c)
        names = set(m.fn(k).srcname if m.fn(k) else k for k in users)
        ok = names <= {"urcu_wait_add", "urcu_move_waiters", "_cds_wfs_push", "___cds_wfs_pop_all", "cds_wfs_push", "__cds_wfs_pop_all"}
        rep.check(ok and names, "C11.usage", fl + ".gp_waiters", "gp_waiters is only pushed to and popped with pop_all (%s)" % sorted(names), "gp_waiters used through %s: single-node pop on it needs the pop lock / RCU" % sorted(names), [])


def rule_iter(ctx, rep):
    """Iteration over a popped stack: the decision tables of cds_wfs_first / cds_wfs_next_{blocking,nonblocking} over the
    classes of the loaded next word {NULL (push in flight), END, a node}.  END ends the walk (NULL), a node is returned as is,
    NULL waits (blocking) or yields WOULDBLOCK (non-blocking) - never `end of list`, which would silently drop every
    older node of the popped list."""
    from .. import dtable
    m = ctx.mod("cds", "flat")
    WB = -1
    spec = {
        "cds_wfs_next_nonblocking": {(0,): {WB}, (1,): {0}, ("X",): {"V0"}},
        "cds_wfs_next_blocking": {(0,): set(), (1,): {0}, ("X",): {"V0"}},
        "cds_wfs_first": {(1,): {0}, ("X",): {"ADDR"}},
    }
    for name, exp in spec.items():
        f = m.fn(name)
        pat.require(f is not None, name + " vanished")
        dtable.compare(rep, "C11.iter", name, f, exp, "next word classes (0 = push in flight, 1 = END, X = node)", aligned=True)
    # results that report the stack state at the operation's linearisation point (the value the exchange returned)
    ret = {
        "cds_wfs_push": ({(1,): {0}, ("X",): {1}}, "push returns `stack was non-empty` = (exchanged-out head != END)"),
        "__cds_wfs_pop_all": ({(1,): {0}, ("X",): {"V0"}}, "pop_all returns NULL iff the exchanged-out head is END, else that head"),
        "cds_wfs_empty": ({(1,): {1}, ("X",): {0}}, "empty() iff head == END"),
        "cds_lfs_empty": ({(0,): {1}, ("X",): {0}}, "empty() iff head == NULL"),
    }
    for name, (exp, what) in ret.items():
        f = m.fn(name)
        pat.require(f is not None, name + " vanished")
        dtable.compare(rep, "C11.ret", name, f, exp, what)


def rule_macro(ctx, rep):
    """the for_each iteration macros (witness/wfiter.c): start at first(), body iff non-NULL, step = next(cursor); _safe variants
    fetch the successor before the body and never touch the cursor afterwards"""
    from .. import itermacro
    m = ctx.mod("w_wfiter", "flat")
    table = [
        ("w_iter_cds_wfs_for_each_blocking", "cds_wfs_first", "cds_wfs_next_blocking", 1, False, None),
        ("w_iter_cds_wfs_for_each_blocking_safe", "cds_wfs_first", "cds_wfs_next_blocking", 1, True, None),
        ("w_iter_cds_lfs_for_each", None, None, 1, False, ("cds_lfs_head.node", "cds_lfs_node.next")),
        ("w_iter_cds_lfs_for_each_safe", None, None, 1, True, ("cds_lfs_head.node", "cds_lfs_node.next")),
    ]
    for name, first, nxt, nargs, safe, lfs in table:
        f = m.fn(name)
        pat.require(f is not None, "witness %s vanished" % name)
        itermacro.check(rep, "C11.macro", f, first, nxt, nargs, safe, lfs)
    # inventory: every for_each macro of the public headers has a witness
    import re
    hdrs = {"C10.macro": ["include/urcu/wfcqueue.h"], "C11.macro": ["include/urcu/wfstack.h", "include/urcu/lfstack.h"]}["C11.macro"]
    have = set(n.replace("w_iter_", "") for n, *_ in table)
    for h in hdrs:
        for mac in re.findall(r"^#define\s+(\w*for_each\w*)\(", ctx.src(h), re.M):
            rep.check(mac in have, "C11.macro", "inventory." + mac, "iteration macro has a witness", "iteration macro %s of %s has no witness: not analysed" % (mac, h), [h])


BLOCKING_WFS = ["__cds_wfs_pop_blocking", "__cds_wfs_pop_with_state_blocking", "cds_wfs_pop_blocking", "cds_wfs_pop_with_state_blocking", "cds_wfs_next_blocking"]


def rule_blocking(ctx, rep):
    """The blocking entry points never hand the non-blocking sentinel to their caller: CDS_WFS_WOULDBLOCK (-1) is returned
    only by the *_nonblocking variants; a blocking pop / next waits (or retries) instead.  Checked on the specialised code of
    every exported blocking function: no return value can be the constant -1."""
    m = ctx.mod("cds", "flat")
    for name in BLOCKING_WFS:
        f = m.fn(name)
        pat.require(f is not None, name + " vanished")
        rep.touch(f)
        bad = []
        for r in f.rets():
            if r.args:
                e = ir.expr(f, r.args[0], 8, through_phi=True)
                if ir.expr_contains(e, lambda z: z == ("c", -1)):
                    bad.append(r)
        rep.check(not bad, "C11.blocking", name + ".never-WOULDBLOCK", "never returns the WOULDBLOCK sentinel",
                  "%s can return (struct cds_wfs_node *)-1 (CDS_WFS_WOULDBLOCK): the blocking variant is built with blocking=0 somewhere; callers get a `node` that was never pushed" % name,
                  [b.where() for b in bad[:1]])


META["explanation"] += " " + 'Also (round 12 and fifth reading): return case table of pop (WOULDBLOCK only after a blocked wait or a lost cmpxchg, a node only from the winning attempt), LAST iff the new head is END; decision tables evaluate ordering comparisons (node addresses in [4096, 2^47)).'

META["explanation"] += " " + 'Also (round 14): shared words are read with volatile / atomic loads in every API function; no pure / const attribute on the public prototypes.'

RULES = [
    ("C11.proto", lambda c, r: __import__("sa.attrs", fromlist=["x"]).rule_nopure(c, r, "C11.proto", '^_*cds_(wfs|lfs)_', "stack", 15)),   # compiler-visible contract of the public prototypes: pure / const would let an optimised caller poll once
    ("C11.wfs", rule_wfs),
    ("C11.lfs", rule_lfs),
    ("C11.locked", rule_locked),
    ("C11.usage", rule_usage),
    ("C11.iter", rule_iter),
    ("C11.blocking", rule_blocking),
    ("C11.exported", lambda c, r: c10.rule_exported_locked(c, r, "C11")),
    ("C11.macro", rule_macro),
    ("C11.exported", lambda c, r: __import__("sa.rules.c10", fromlist=["x"]).rule_wrappers(c, r, "C11.exported", ("lfs", "wfs"))),
    ("C11.casexit", rule_cas_exit),
    ("C11.sharedread", lambda c, r: __import__("sa.rules.c10", fromlist=["x"]).rule_sharedread(c, r, "C11.sharedread", ("wfs", "lfs"))),
    ("C11.init", lambda c, r: __import__("sa.rules.c10", fromlist=["x"]).rule_inits(c, r, "C11.init", ("cds_wfs_node_init", "cds_wfs_init", "__cds_wfs_init", "cds_lfs_init", "__cds_lfs_init", "cds_lfs_init_rcu"))),
]
FLOORS = {}
