"""C12 — RCU lock-free queue is FIFO under concurrent enqueue and dequeue (partial)."""
from .. import ir, mm, pat, paths
from ..core import Broken
from .c10 import copies

META = {
    "explanation": "Atomic-step shape rules on rculfqueue: enqueue links with cmpxchg(tail->next, NULL -> node) against the loaded tail and advances q->tail only by cmpxchg against that same "
                   "loaded tail (to the node on success, to the observed successor when helping), never by an unconditional store/exchange; dequeue returns NULL only for {dummy head, no "
                   "successor}, never unlinks the last node (enqueues a dummy first), advances head only by cmpxchg(head -> non-NULL next), returns only non-dummy nodes, releases a dummy "
                   "only through the queue's call_rcu function; dummy nodes are initialised before being published; destroy refuses a non-empty queue.",
    "not_decided": "FIFO linearizability under all interleavings",
}
TAIL, HEAD, NEXT, DUMMY = "cds_lfq_queue_rcu.tail", "cds_lfq_queue_rcu.head", "cds_lfq_node_rcu.next", "cds_lfq_node_rcu.dummy"


def rule_enq(ctx, rep):
    for lib, f in copies(ctx, "_cds_lfq_enqueue_rcu"):
        if lib != "cds":
            continue
        rep.touch(f)
        tag = f.name
        tl = pat.loads(f, TAIL)
        pat.require(tl, "enqueue: tail load")
        writes = pat.accesses(f, TAIL, ("store", "rmw", "xchg", "cmpxchg"))
        bad = [e for e in writes if e.kind != "cmpxchg"]
        rep.check(not bad, "C12.enq", tag + ".tail-only-cmpxchg", "q->tail is modified only by compare-and-swap",
                  "q->tail is modified by an unconditional %s: a lagging enqueuer can move the tail backwards onto a node that is later dequeued and reused" % (bad[0].kind if bad else ""),
                  [b.inst.where() for b in bad])
        for e in writes:
            if e.kind == "cmpxchg":
                x = ir.expr(f, e.exp)
                rep.check(x[0] == "load" and x[3] in [l.id for l in tl], "C12.enq", tag + ".tail-expected@%d" % e.inst.id, "tail cmpxchg expects the tail value this iteration loaded",
                          "tail cmpxchg expects %s" % ir.expr_str(x), [e.inst.where()])
        link = [e for e in pat.accesses(f, NEXT, ("cmpxchg",))]
        if len(link) != 1:
            rep.bad("C12.enq", tag + ".link", "enqueue must link with exactly one cmpxchg on tail->next (found %d)" % len(link), [f.name])
            continue
        l = link[0]
        rep.check(ir.const_of(f, l.exp) == 0 and ir.expr(f, l.new) == ("arg", 1), "C12.enq", tag + ".link-shape", "cmpxchg(tail->next, NULL -> node)", "link cmpxchg operands unexpected", [l.inst.where()])
        adv = [e for e in writes if e.kind == "cmpxchg"]
        succ = [e for e in adv if ir.expr(f, e.new) == ("arg", 1)]
        helpx = [e for e in adv if ir.expr(f, e.new)[0] == "asm"]
        rep.check(len(succ) == 1 and len(helpx) == 1, "C12.enq", tag + ".advance+help", "one tail advance to the node after linking, one helping advance to the observed successor",
                  "expected one advance and one helping cmpxchg (found %d/%d)" % (len(succ), len(helpx)), [f.name])
        if succ:
            g = any(a[0] == "eq" and a[2] == ("c", 0) and a[1][0] == "asm" and a[1][2] == l.inst.id for a in pat.dom_leaf_atoms(f, succ[0].inst))
            rep.check(g, "C12.enq", tag + ".advance-after-link", "tail advanced to the node only after the link succeeded", "tail advanced to the node without a successful link", [succ[0].inst.where()])
            hit, _ = f.reach([succ[0].inst], [l.inst])
            rep.check(hit is None, "C12.enq", tag + ".return-after-advance", "returns after linking (no second link)", "loops again after a successful link", [succ[0].inst.where()])
        if helpx:
            # helping is unconditional: once the link cmpxchg failed (another node is linked behind the loaded tail) every way
            # back to the retry passes the helping cmpxchg - a guard in front of it ("tail already moved?") can only skip it,
            # and when it is skipped with q->tail == tail nobody but the (possibly suspended) linker ever advances the tail
            rep.must_pass("C12.enq", tag + ".help-unconditional", f, [l.inst], tl, lambda i: i is helpx[0].inst or i is succ[0].inst if succ else i is helpx[0].inst,
                          what="after a failed link every retry first attempts the helping advance of q->tail")
            hit, _ = f.reach([helpx[0].inst], tl)
            rep.check(hit is not None, "C12.enq", tag + ".retry-after-help", "retries from a fresh tail after helping", "does not retry after helping", [helpx[0].inst.where()])


def rule_deq(ctx, rep):
    for lib, f in copies(ctx, "_cds_lfq_dequeue_rcu"):
        if lib != "cds":
            continue
        rep.touch(f)
        tag = f.name
        hx = [e for e in pat.accesses(f, HEAD, ("cmpxchg",))]
        others = [e for e in pat.accesses(f, HEAD, ("store", "rmw", "xchg"))]
        if len(hx) != 1 or others:
            rep.bad("C12.deq", tag + ".head-cmpxchg", "q->head must be advanced by exactly one cmpxchg (found %d, %d other writes)" % (len(hx), len(others)), [f.name])
            continue
        c = hx[0]
        m = f.mod
        # the dummy enqueue: the helper enqueue_dummy(), or - when it is inlined into dequeue - the generic enqueue it performs
        ed = [x for x in f.calls() if m.fn(x.callee) is not None and m.fn(x.callee).srcname in ("enqueue_dummy", "_cds_lfq_enqueue_rcu")]
        # never unlink the last node: every path to the cmpxchg has next != NULL or went through enqueue_dummy + reload
        nl = [l for l in pat.loads(f, NEXT)]
        nonnull_edges = [(t.blk.id, s) for t, s, a in pat.branch_edges_on(f, lambda a: a[0] == "ne" and a[2] == ("c", 0) and a[1][0] == "load" and a[1][1].endswith(NEXT))]
        if not ed:
            rep.bad("C12.deq", tag + ".enqueue-dummy", "dequeue never enqueues a dummy before removing the last node: head would become NULL / the queue lose its invariant", [c.inst.where()])
        else:
            hit, par = f.reach([f.entry()], [c.inst], avoid=lambda i: i in ed, edge_ok=pat.block_edge_filter(nonnull_edges), include_start=True)
            rep.check(hit is None, "C12.deq", tag + ".never-unlink-last", "head is advanced only when a successor exists (directly, or after enqueue_dummy)",
                      "head can be advanced past the last node (next == NULL)", [c.inst.where()])
            for x in ed:
                rel = [l for l in nl if f.dominates(x, l)]
                rep.check(bool(rel), "C12.deq", tag + ".reload-after-dummy", "head->next is re-read after enqueue_dummy", "next not re-read after enqueue_dummy", [x.where()])
        # NULL only for {dummy head, next == NULL}
        for p, atoms, v in paths.ret_cases(f, limit=512):
            if v == ("c", 0):
                lv = []
                for a in atoms:
                    if a[0] in ("eq", "ne") and a[2] == ("c", 0):
                        pat.leaf_atoms(("icmp", "ne", a[1], ("c", 0)), a[0] == "ne", lv)
                    else:
                        lv.append(a)
                okd = any(a[0] == "ne" and a[2] == ("c", 0) and a[1][0] == "load" and a[1][1].endswith(DUMMY) for a in lv)
                okn = any(a[0] == "eq" and a[2] == ("c", 0) and a[1][0] == "load" and a[1][1].endswith(NEXT) for a in lv)
                rep.check(okd and okn, "C12.deq", tag + ".null-iff-empty", "NULL only when the head is a dummy without successor", "NULL returned on %s" % [ir.atom_str(a) for a in lv][:4], [f.rets()[0].where()])
            elif v is not None and v[0] == "load":
                lv = []
                for a in atoms:
                    if a[0] in ("eq", "ne") and a[2] == ("c", 0):
                        pat.leaf_atoms(("icmp", "ne", a[1], ("c", 0)), a[0] == "ne", lv)
                okd = any(a[0] == "eq" and a[2] == ("c", 0) and a[1][0] == "load" and a[1][1].endswith(DUMMY) for a in lv)
                rep.check(okd, "C12.deq", tag + ".returns-non-dummy", "a node is returned only when it is not a dummy", "a dummy node can be returned to the user", [f.rets()[0].where()])
        fr = [x for x in f.calls() if m.fn(x.callee) is not None and m.fn(x.callee).srcname in ("free_dummy", "free")] + pat.calls(f, "free")
        rep.check(not fr, "C12.deq", tag + ".dummy-via-call_rcu", "dequeue never frees a dummy directly", "dummy node freed without a grace period", [x.where() for x in fr[:1]])
    m = ctx.mod("cds", "perfn")
    who = sorted(set(g.srcname for g in m.defined() for c in g.calls() if m.fn(c.callee) is not None and m.fn(c.callee).srcname == "free_dummy"))
    rep.check(set(who) <= {"_cds_lfq_destroy_rcu", "free_dummy_cb"}, "C12.dummy", "who-frees-dummy", "dummies are freed directly only by destroy and the call_rcu callback (%s)" % who, "dummy freed directly from %s" % who, who)
    for g in m.by_src("rcu_free_dummy"):
        ic = [i for i in g.all_insts() if i.op == "icall"]
        ok = len(ic) == 1 and ir.expr(g, ic[0].d["fp"])[0] == "load" and ir.expr(g, ic[0].d["fp"])[1].endswith("cds_lfq_queue_rcu.queue_call_rcu") and ir.expr(g, ic[0].args[1]) == ("fn", "free_dummy_cb")
        rep.check(ok, "C12.dummy", g.name, "dummy released through q->queue_call_rcu(…, free_dummy_cb)", "rcu_free_dummy does not defer through the queue's call_rcu", [g.name])
    # the rcu_head handed to call_rcu is storage call_rcu writes at once (queue linkage, callback), while the dummy's own
    # linkage (next, dummy flag) stays readable by every dequeuer / enqueuer that loaded it before the grace period ends:
    # the two must not share bytes
    mk = m.by_src("make_dummy")
    link = []
    for g in mk:
        for s_ in g.all_insts():
            if s_.op == "store" and pat.last_field(s_.d["ap"]) in ("cds_lfq_node_rcu.next", "cds_lfq_node_rcu.dummy"):
                o = pat.ap_offset(m, s_.d["ap"])
                if o is not None:
                    link.append((o, o + s_.d["bits"] // 8, pat.last_field(s_.d["ap"])))
    rh = m.structs.get("rcu_head")
    for g in m.by_src("rcu_free_dummy"):
        for ic in [i for i in g.all_insts() if i.op == "icall"]:
            ap = ic.d["aps"][0]
            o = pat.ap_offset(m, ap) if ap else None
            if o is None or rh is None or not link:
                raise Broken("rcu_free_dummy: offset of the rcu_head inside the dummy not computable")
            clash = [nm for a, b, nm in link if a < o + rh["size"] and o < b]
            rep.check(not clash, "C12.dummy", g.name + ".rcu_head-disjoint-from-linkage", "the rcu_head given to call_rcu (bytes %d..%d of the dummy) shares no byte with the dummy's queue linkage" % (o, o + rh["size"]),
                      "the rcu_head given to call_rcu occupies bytes %d..%d of the dummy, overlapping %s: call_rcu overwrites the linkage while dequeuers that loaded this dummy before the grace period "
                      "still follow its next pointer / test its dummy flag (chain cut, nodes lost)" % (o, o + rh["size"], clash), [ic.where()])
    for g in m.by_src("make_dummy"):
        sts = [s for s in g.all_insts() if s.op == "store"]
        flds = set(pat.last_field(s.d["ap"]) for s in sts)
        rep.check({"cds_lfq_node_rcu.next", "cds_lfq_node_rcu.dummy"} <= flds, "C12.dummy", g.name + ".init", "make_dummy initialises next and dummy", "make_dummy leaves %s uninitialised" % sorted({"cds_lfq_node_rcu.next", "cds_lfq_node_rcu.dummy"} - flds), [g.name])
    for g in m.by_src("_cds_lfq_destroy_rcu"):
        fr = [c for c in g.calls() if m.fn(c.callee) is not None and m.fn(c.callee).srcname == "free_dummy"]
        pat.require(fr, "destroy: free_dummy")
        lv = pat.dom_leaf_atoms(g, fr[0])
        okd = any(a[0] == "ne" and a[2] == ("c", 0) and a[1][0] == "load" and a[1][1].endswith(DUMMY) for a in lv)
        okn = any(a[0] == "eq" and a[2] == ("c", 0) and a[1][0] == "load" and a[1][1].endswith(NEXT) for a in lv)
        rep.check(okd and okn, "C12.dummy", g.name + ".guard", "destroy frees only a lone dummy head (else -EPERM)", "destroy frees the head without checking {dummy, no successor}", [fr[0].where()])


def rule_skeleton(ctx, rep):
    """What the surrounding functions must supply for the enqueue / dequeue steps to mean anything: the head cmpxchg decides (a node is
    handed out / a dummy retired only by the winner, the loser retries); make_dummy marks the node as a dummy, gives it the successor and
    the queue it was asked for; enqueue_dummy enqueues a *fresh* dummy; init installs one dummy as both head and tail and records the
    call_rcu function dummies are retired through."""
    m = ctx.mod("cds", "perfn")
    for lib, f in copies(ctx, "_cds_lfq_dequeue_rcu"):
        if lib != "cds":
            continue
        rep.touch(f)
        hx = [e for e in pat.accesses(f, HEAD, ("cmpxchg",))]
        if len(hx) != 1:
            continue
        c = hx[0].inst
        win = [(t.blk.id, s_) for t, s_, a in pat.branch_edges_on(f, lambda a: a[0] == "eq" and any(isinstance(x, tuple) and x[0] in ("asm", "cmpxchg", "ev") and x[-1] == c.id or (isinstance(x, tuple) and x[0] == "ev" and x[1][-1] == c.id) for x in (a[1], a[2])))]
        lose = [(t.blk.id, s_) for t, s_, a in pat.branch_edges_on(f, lambda a: a[0] == "ne" and any(isinstance(x, tuple) and x[0] in ("asm", "cmpxchg", "ev") and x[-1] == c.id or (isinstance(x, tuple) and x[0] == "ev" and x[1][-1] == c.id) for x in (a[1], a[2])))]
        if not win or not lose:
            rep.unk("C12.skeleton", f.name + ".cas-decides", "the result of the head cmpxchg does not steer a branch this rule recognises")
        else:
            retire = [x for x in f.calls() if m.fn(x.callee) is not None and m.fn(x.callee).srcname == "rcu_free_dummy"]
            rets = [r for r in f.rets()]
            fresh = pat.loads(f, HEAD)          # a new attempt starts by re-reading q->head
            hit, _ = f.reach([c], rets + retire, edge_ok=pat.block_edge_filter(win), avoid=lambda i: i in fresh)
            rep.check(hit is None, "C12.skeleton", f.name + ".cas-decides", "after the head cmpxchg a node is returned / a dummy retired only along its success edge",
                      "after a *failed* head cmpxchg dequeue still %s: the node belongs to the dequeuer that won - it is handed out (or retired) twice"
                      % ("returns" if hit is not None and hit.op == "ret" else "retires the dummy"), [c.where()])
            for b_, s_ in win[:1]:
                st = f.blocks[s_].insts[0]
                back = f.reach([st], fresh, avoid=lambda i: i in retire or i.op == "ret", include_start=True)[0]
                rep.check(back is None, "C12.skeleton", f.name + ".winner-delivers", "the winner of the head cmpxchg returns the node or retires the dummy before trying again",
                          "after a *successful* head cmpxchg dequeue goes round again without returning the node or retiring the dummy: the node it unlinked is lost", [c.where()])
    # one snapshot of q->head per attempt: the successor examined (and the emptiness verdict built on it) belongs to the very head value the
    # cmpxchg later expects - a second load of q->head pairs one node's dummy flag with another node's next, and `empty` is reported for a
    # queue that was never empty during the call
    for lib, f in copies(ctx, "_cds_lfq_dequeue_rcu"):
        if lib != "cds":
            continue
        hx = [e for e in pat.accesses(f, HEAD, ("cmpxchg",))]
        if len(hx) != 1:
            continue
        exp = ir.strip_casts(f, hx[0].exp, int_too=True)
        hl = pat.loads(f, HEAD)
        rep.check(len(hl) == 1 and exp == ["i", hl[0].id], "C12.skeleton", f.name + ".one-head-snapshot", "q->head is loaded once per attempt and that value is what the cmpxchg expects",
                  "q->head is loaded %d times in an attempt (cmpxchg expects %s): dummy flag, successor and emptiness verdict can come from different nodes" % (len(hl), exp), [l.where() for l in hl[1:2]] or [f.name])
    for g in m.by_src("make_dummy"):
        rep.touch(g)
        for s_ in g.all_insts():
            if s_.op != "store":
                continue
            fld = pat.last_field(s_.d["ap"])
            v = ir.expr(g, s_.args[0], 3)
            if fld == DUMMY:
                k = ir.const_of(g, s_.args[0])
                rep.check(k is not None and k != 0, "C12.skeleton", g.name + ".dummy-flag", "make_dummy marks the node (dummy = %s)" % k, "make_dummy stores dummy = %s: dequeue takes the node for a user node and returns it" % (k if k is not None else ir.expr_str(v)), [s_.where()])
            elif fld == NEXT:
                rep.check(v == ("arg", 1), "C12.skeleton", g.name + ".next", "the dummy's successor is the one asked for", "the dummy's next is %s" % ir.expr_str(v), [s_.where()])
            elif fld == "cds_lfq_node_rcu_dummy.q":
                rep.check(v == ("arg", 0), "C12.skeleton", g.name + ".q", "the dummy remembers its queue", "the dummy's queue pointer is %s" % ir.expr_str(v), [s_.where()])
        flds = set(pat.last_field(s_.d["ap"]) for s_ in g.all_insts() if s_.op == "store")
        rep.check("cds_lfq_node_rcu_dummy.q" in flds, "C12.skeleton", g.name + ".q-set", "make_dummy records the queue (rcu_free_dummy retires the dummy through q->queue_call_rcu)",
                  "make_dummy leaves dummy->q uninitialised: retiring the dummy calls through a garbage pointer", [g.name])
    for g in m.by_src("enqueue_dummy"):
        rep.touch(g)
        mk = [c for c in g.calls() if m.fn(c.callee) is not None and m.fn(c.callee).srcname == "make_dummy"]
        en = [c for c in g.calls() if m.fn(c.callee) is not None and m.fn(c.callee).srcname == "_cds_lfq_enqueue_rcu"]
        if not mk or not en:
            rep.bad("C12.skeleton", g.name, "enqueue_dummy does not %s: dequeue of the last node advances head to NULL" % ("allocate a dummy" if not mk else "enqueue the dummy"), [g.name])
        else:
            v = ir.expr(g, en[0].args[1], 3)
            rep.check(v[0] == "call" and v[2] == mk[0].id and ir.expr(g, en[0].args[0], 3) == ("arg", 0) and ir.const_of(g, mk[0].args[1]) == 0, "C12.skeleton", g.name, "enqueue_dummy enqueues a fresh dummy (next = NULL) on its queue",
                      "enqueue_dummy enqueues %s" % ir.expr_str(v), [en[0].where()])
    for g in m.by_src("_cds_lfq_init_rcu"):
        rep.touch(g)
        st = dict((pat.last_field(s_.d["ap"]), ir.expr(g, s_.args[0], 4)) for s_ in g.all_insts() if s_.op == "store")
        t, h, qc = st.get(TAIL), st.get(HEAD), st.get("cds_lfq_queue_rcu.queue_call_rcu")
        okt = t is not None and t[0] == "call" and m.fn(t[1]) is not None and m.fn(t[1]).srcname == "make_dummy"
        okh = h is not None and (h == t or (h[0] == "load" and h[1].endswith(TAIL)))
        rep.check(okt and okh, "C12.skeleton", g.name + ".one-dummy", "init installs one fresh dummy as head and tail", "init sets tail = %s, head = %s" % (ir.expr_str(t) if t else "unset", ir.expr_str(h) if h else "unset"), [g.name])
        rep.check(qc == ("arg", 1), "C12.skeleton", g.name + ".call_rcu", "init records the caller's call_rcu function", "queue_call_rcu is %s" % (ir.expr_str(qc) if qc else "not set"), [g.name])


def rule_who(ctx, rep):
    """q->tail and q->head move only by compare-and-swap, wherever they are written: the only plain stores are the initialisation (and the
    destroy-time checks write nothing).  An unconditional store anywhere - a `helping` fix-up in the dummy hand-over, a reset in a
    corner path - can move the tail backwards over a node that is then dequeued and reused, or the head past nodes never returned."""
    m = ctx.mod("cds", "perfn")
    n = 0
    for g in m.defined():
        for fld, what in ((TAIL, "tail"), (HEAD, "head")):
            for e in pat.accesses(g, fld, ("store", "rmw", "xchg", "cmpxchg")):
                n += 1
                if e.kind == "cmpxchg":
                    rep.ok("C12.who", "%s.%s@%d" % (g.srcname, what, e.inst.line), "q->%s is updated by cmpxchg" % what)
                    continue
                init = g.srcname in ("_cds_lfq_init_rcu", "cds_lfq_init_rcu")
                rep.check(init, "C12.who", "%s.%s@%d" % (g.srcname, what, e.inst.line), "plain store to q->%s in the initialisation" % what,
                          "%s writes q->%s with an unconditional %s: between its reads and that store other threads may have advanced the %s several nodes - it is moved backwards onto "
                          "a node that is (about to be) dequeued and handed back to the user, and the next enqueue links behind memory that is no longer in the queue" % (g.srcname, what, e.kind, what),
                          [e.inst.where()])
    pat.require(n >= 5, "only %d writes of q->head / q->tail found" % n)


META["explanation"] += " " + 'Also (round 11): q->head / q->tail are written by cmpxchg everywhere in the unit (plain stores only in the initialisation).'

META["explanation"] += " " + 'Also (rounds 11-12): head cmpxchg decides who returns / retires, one snapshot of q->head per attempt, make_dummy / enqueue_dummy / init shapes.'

META["explanation"] += " " + 'Also (round 14): shared words are read with volatile / atomic loads in every API function; no pure / const attribute on the public prototypes.'

RULES = [
    ("C12.proto", lambda c, r: __import__("sa.attrs", fromlist=["x"]).rule_nopure(c, r, "C12.proto", '^_*cds_lfq_', "rculfqueue", 4)),   # compiler-visible contract of the public prototypes: pure / const would let an optimised caller poll once
    ("C12.who", rule_who),
    ("C12.skeleton", rule_skeleton),
    ("C12.enq", rule_enq),
    ("C12.deq", rule_deq),
    ("C12.sharedread", lambda c, r: __import__("sa.rules.c10", fromlist=["x"]).rule_sharedread(c, r, "C12.sharedread", ("lfq",))),
    ("C12.exported", lambda c, r: __import__("sa.rules.c10", fromlist=["x"]).rule_wrappers(c, r, "C12.exported", ("lfq",))),
    ("C12.init", lambda c, r: __import__("sa.rules.c10", fromlist=["x"]).rule_inits(c, r, "C12.init", ("cds_lfq_node_init_rcu",))),
]
FLOORS = {}
