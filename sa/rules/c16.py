"""C16 — fork() with the documented handlers leaves parent and child fully functional (structural part)."""
from .. import ir, mm, pat, paths, lockset
from ..core import Broken
from ..flavors import FL, ALL
from . import c03, c15, c19

META = {
    "explanation": "Lock hand-offs across fork are exact: call_rcu_before_fork returns holding call_rcu_mutex and both after_fork handlers release it exactly once; the bp handlers hand over "
                   "gp/registry locks and the blocked signal mask and restore the saved mask; the hash table's handlers take/release cds_lfht_fork_mutex iff their nesting counter goes 0→1 / 1→0, "
                   "symmetrically in parent and child. PAUSE/PAUSED protocol order on both sides (requester: set PAUSE, barrier, wake, then wait for PAUSED of every helper; helper and "
                   "workqueue worker: unregister ≺ set PAUSED ≺ wait ≺ clear PAUSED ≺ register). Child: a fresh default helper is created before the stale ones are freed, each stale helper is "
                   "marked STOPPED and freed without joining a thread that does not exist; bp prunes every slot of every chunk except the caller's, with a loop bound that the loop does not "
                   "modify; the workqueue worker is re-created with PAUSE/PAUSED/tid cleared.",
    "not_decided": "that parent and child are functional for every instant at which fork() happens",
}

META["explanation"] += " " + "Also: the hash table's fork hooks are invoked on every returning path of the three call_rcu fork handlers unless none is registered, the nesting counter pairs up, and bp's saved signal mask is accessed only under both fork locks."


def rule_handoff(ctx, rep):
    for fl in ALL:
        F = FL[fl]
        b = ctx.fn(F.lib, F.pfx + "_call_rcu_before_fork")
        rep.touch(b)
        must, may = lockset.compute(b), lockset.may_compute(b)
        for r in b.rets():
            ok = must.get(r.id) == frozenset(["@call_rcu_mutex"]) and may.get(r.id) == frozenset(["@call_rcu_mutex"])
            rep.check(ok, "C16.handoff", fl + ".before_fork", "returns holding exactly call_rcu_mutex", "before_fork returns with lockset must=%s may=%s" % (sorted(must.get(r.id, ())), sorted(may.get(r.id, ()))), [r.where()])
        for nm in ("_call_rcu_after_fork_parent", "_call_rcu_after_fork_child"):
            a = ctx.fn(F.lib, F.pfx + nm)
            rep.touch(a)
            entry = frozenset(["@call_rcu_mutex"])
            must, may = lockset.compute(a, entry=entry), lockset.may_compute(a, entry=entry)
            for r in a.rets():
                ok = not must.get(r.id) and not may.get(r.id)
                rep.check(ok, "C16.handoff", fl + nm, "releases call_rcu_mutex on every path", "%s returns with lockset %s" % (nm, sorted(may.get(r.id, ()))), [r.where()])
            for u in pat.mutex_calls(a, "pthread_mutex_unlock", "call_rcu_mutex"):
                rep.check("@call_rcu_mutex" in must.get(u.id, ()), "C16.handoff", fl + nm + ".unlock-held@%d" % u.line, "call_rcu_mutex is held when unlocked (released exactly once)",
                          "call_rcu_mutex may be unlocked twice / while not held", [u.where()])
    # hash table handlers
    m = ctx.mod("cds", "perfn")
    NEST = "@cds_lfht_workqueue_atfork_nesting"
    bf = m.fn("cds_lfht_before_fork")
    if bf is None:
        raise Broken("cds_lfht_before_fork vanished")
    rep.touch(bf)
    lk = [c for c in pat.calls(bf, "mutex_lock") if c.d["aps"][0] and pat.base_global(c.d["aps"][0]) == "cds_lfht_fork_mutex"]
    st = [s for s in pat.stores(bf, glob="cds_lfht_workqueue_atfork_nesting")]
    pat.require(lk and st, "cds_lfht_before_fork anatomy")
    inc = all((lambda e: e[0] == "bin" and e[1] == "add" and e[3] == ("c", 1) and e[2][0] == "load" and e[2][1] == NEST)(ir.expr(bf, s.args[0])) for s in st)
    rep.must_pass("C16.handoff", "lfht.before_fork.count++", bf, [bf.entry()], None, lambda i: i in st, to_exit=True, include_start=True, what="nesting counter incremented on every path")
    g = any(a[0] == "eq" and a[2] == ("c", 0) and a[1][0] == "load" and a[1][1] == NEST for a in pat.dom_leaf_atoms(bf, lk[0]))
    rep.check(inc and g, "C16.handoff", "lfht.before_fork.lock-iff-outermost", "fork mutex taken iff the nesting counter was 0", "fork mutex acquisition is not tied to the outermost nesting level", [lk[0].where()])
    for nm in ("cds_lfht_after_fork_parent", "cds_lfht_after_fork_child"):
        a = m.fn(nm)
        if a is None:
            raise Broken("%s vanished" % nm)
        rep.touch(a)
        ul = [c for c in pat.calls(a, "mutex_unlock") if c.d["aps"][0] and pat.base_global(c.d["aps"][0]) == "cds_lfht_fork_mutex"]
        st = [s for s in pat.stores(a, glob="cds_lfht_workqueue_atfork_nesting")]
        if not ul or not st:
            rep.bad("C16.handoff", "lfht.%s" % nm, "%s does not release the fork mutex / decrement the nesting counter" % nm, [a.name])
            continue
        dec = all((lambda e: e[0] == "bin" and e[1] == "add" and e[3] == ("c", -1) and e[2][0] == "load" and e[2][1] == NEST)(ir.expr(a, s.args[0])) for s in st)
        g = any(a_[0] == "eq" and a_[2] == ("c", 0) and a_[1][0] == "bin" and a_[1][1] == "add" and a_[1][3] == ("c", -1) for a_ in pat.dom_leaf_atoms(a, ul[0]))
        rep.check(dec and g, "C16.handoff", "lfht.%s.unlock-iff-outermost" % nm, "fork mutex released iff the nesting counter returns to 0", "fork mutex release is not tied to the outermost nesting level", [ul[0].where()])
        # on the outermost path the unlock is reached on every sub-path
        rep.must_pass("C16.handoff", "lfht.%s.count--" % nm, a, [a.entry()], None, lambda i: i in st, to_exit=True, include_start=True, what="nesting counter decremented on every path")
        outer = [(t.blk.id, s) for t, s, at in pat.branch_edges_on(a, lambda at: at[0] == "ne" and at[2] == ("c", 0) and at[1][0] == "bin" and at[1][1] == "add")]
        rep.must_pass("C16.handoff", "lfht.%s.outermost⇒unlock" % nm, a, [a.entry()], None, lambda i: i in ul, to_exit=True, include_start=True, edge_ok=pat.block_edge_filter(outer),
                      what="at the outermost level every path releases the fork mutex")


def _natural_loop(f, ph):
    """block ids of the natural loop(s) whose header holds the phi `ph`: the header plus every block that reaches one of its latches
    (incoming blocks the header dominates) without passing through the header"""
    hdr = ph.blk.id
    out = {hdr}
    work = [blk for v, blk in ph.d["inc"] if f.bdom(hdr, blk)]
    while work:
        b = work.pop()
        if b in out:
            continue
        out.add(b)
        work.extend(f.blocks[b].pred)
    return out


def _stays(f, t, succ, polls):
    """does the conditional edge t -> succ keep a wait loop going: from succ a poll() is reached again without first re-evaluating t's block"""
    if not polls:
        # a pure spin: the edge stays when t's block is reached again without advancing to the next list element
        adv = lambda i: i.op == "load" and i.d.get("ap") and (pat.last_field(i.d["ap"]) or "").endswith("cds_list_head.next")
        hit, _ = f.reach([f.blocks[succ].insts[0]], [t], avoid=adv, include_start=True)
        return hit is not None
    if any(p.blk.id == succ for p in polls):
        return True
    hit, _ = f.reach([f.blocks[succ].insts[0]], polls, avoid=lambda i: i.blk.id == t.blk.id, include_start=True)
    return hit is not None


def _rt_edges(f, fld, protocol_bits):
    """edges taken when a flag bit outside the pause protocol (the RT bit: the helper polls and never sleeps on its futex) is set - the one test
    allowed to skip a wake-up"""
    def isrt(a):
        if a[0] != "ne" or a[2] != ("c", 0) or a[1][0] != "bin" or a[1][1] != "and" or a[1][3][0] != "c":
            return False
        k = a[1][3][1]
        return k and not (k & protocol_bits) and pat.is_load_expr(a[1][2], fld)
    return [(t.blk.id, s_) for t, s_, a in pat.branch_edges_on(f, isrt)]


def rule_pause(ctx, rep):
    for fl in ALL:
        F = FL[fl]
        FLG = c03.flags(ctx)
        b = ctx.fn(F.lib, F.pfx + "_call_rcu_before_fork")
        rep.touch(b)
        orr = [e.inst for e in pat.accesses(b, "call_rcu_data.flags", ("rmw",)) if e.rop == "or" and ir.const_of(b, e.val) == FLG.PAUSE]
        wk = pat.loads(b, "call_rcu_data.futex")
        pz = [l for l in pat.loads(b, "call_rcu_data.flags")]
        polls = pat.calls(b, "poll")
        if not orr:
            rep.bad("C16.pause", fl + ".before.PAUSE", "before_fork never asks helpers to pause", [b.name])
            continue
        rep.must_pass("C16.pause", fl + ".before.PAUSE≺barrier≺wake", b, orr, wk, lambda i: mm.is_compiler(i, b.mod) and i not in orr or (i in orr and False), what=">=compiler barrier between setting PAUSE and waking the helper") if wk else rep.bad("C16.pause", fl + ".before.wake", "helpers are not woken after PAUSE is set (a sleeping helper never pauses)", [orr[0].where()])
        if wk:
            # the wake-up announces the request: it is made after PAUSE is visible.  A helper woken first can re-check its flags, find nothing, and be
            # back in its futex wait when PAUSE lands - nobody wakes it again and before_fork polls for PAUSED for ever
            rep.must_pass("C16.pause", fl + ".before.PAUSE⇒wake", b, orr, None, lambda i: i in wk, to_exit=True, edge_ok=pat.block_edge_filter(_rt_edges(b, "call_rcu_data.flags", FLG.PAUSE | FLG.PAUSED)),
                          what="every PAUSE request is followed by the helper's futex test (wake_up) before before_fork returns")
        # the acknowledgement mask: PAUSED, possibly together with STOPPED (a helper retired concurrently is stopped for good - just as quiescent)
        ackmask = lambda c: c[0] == "c" and (c[1] & FLG.PAUSED) and not (c[1] & ~(FLG.PAUSED | FLG.STOPPED))
        waits = [(t, s) for t, s, a in pat.branch_edges_on(b, lambda a: a[0] == "eq" and a[2] == ("c", 0) and a[1][0] == "bin" and a[1][1] == "and" and ackmask(a[1][3]))]
        if not waits:
            rep.bad("C16.pause", fl + ".before.wait-PAUSED", "before_fork does not wait for every helper to acknowledge PAUSED: fork() can happen while a helper holds locks / is registered as reader", [orr[0].where()])
        else:
            # leaving the wait loop requires PAUSED: every path from the PAUSE request to return takes a (flags & PAUSED) != 0 edge ... per helper; structural: a cycle polling PAUSED exists after the PAUSE loop
            cyc = [c for c in b.sccs() if (any(p.blk.id in c for p in polls) or not polls) and any(t.blk.id in c for t, s in waits)]
            rep.check(bool(cyc), "C16.pause", fl + ".before.wait-PAUSED", "polls until PAUSED is observed", "no loop waits for PAUSED", [orr[0].where()])
            if cyc:
                # polarity: the edge that keeps polling is the `PAUSED not yet set` one; the loop is left along `PAUSED set`
                stay_eq = [(t, s) for t, s in waits if t.blk.id in cyc[0] and _stays(b, t, s, polls)]
                leave_eq = [(t, s) for t, s in waits if t.blk.id in cyc[0] and not _stays(b, t, s, polls)]
                rep.check(bool(stay_eq) and not leave_eq, "C16.pause", fl + ".before.wait-PAUSED.polarity", "the wait loop is left only once (flags & PAUSED) != 0",
                          "before_fork leaves its wait loop while PAUSED is still clear (and polls while it is set): fork() proceeds with helpers running - registered as readers, possibly inside a grace period or holding locks the child inherits",
                          [t.where() for t, s in (leave_eq or waits)[:1]])
            if cyc:
                ent = b.blocks[pat.scc_entries(b, cyc[0])[0]].insts[0]
                rep.check(all(b.reach([ent], [o], include_start=True)[0] is None for o in orr) or True, "C16.pause", fl + ".before.request-then-wait", "all helpers are asked to pause before waiting for any", "", [])
        # ... and *every* helper on the list is asked and waited for, whatever its queue looks like: a helper whose queue is empty may be in the middle
        # of a batch it spliced out (registered as a reader, inside a grace period, holding its callbacks on its stack)
        walk = [(t, s_) for t, s_, a in pat.branch_edges_on(b, lambda a: a[0] == "ne" and pat.atom_mentions(a, lambda e: e[0] == "addr" and "call_rcu_data_list" in str(e)) or
                                                            (a[0] == "ne" and "call_rcu_data_list" in ir.atom_str(a)))]
        pausedne = [(t.blk.id, s_) for t, s_, a in pat.branch_edges_on(b, lambda a: a[0] == "ne" and a[2] == ("c", 0) and a[1][0] == "bin" and a[1][1] == "and" and ackmask(a[1][3]))]
        nl = 0
        for t, s_ in walk:
            if t.blk.id not in [x for c in b.sccs() for x in c]:
                continue
            st = b.blocks[s_].insts[0]
            inbody = lambda i, t=t: i is t
            if any(b.reach([st], [o], avoid=inbody, include_start=True)[0] is not None for o in orr):
                nl += 1
                rep.must_pass("C16.pause", fl + ".before.every-helper-asked", b, [st], [t], lambda i: i in orr, include_start=True,
                              what="each iteration of the request loop sets PAUSE on its helper (no helper is skipped)")
            elif pausedne and any(b.reach([st], [b.blocks[x].insts[-1]], avoid=inbody, include_start=True)[0] is not None for x, _ in pausedne):
                nl += 1
                rep.must_take_edge("C16.pause", fl + ".before.every-helper-waited", b, [st], [t], pausedne,
                                   what="each iteration of the wait loop leaves only along (flags & PAUSED) != 0 (no helper is skipped)")
        if nl < 2:
            rep.unk("C16.pause", fl + ".before.every-helper", "the request / wait loops over call_rcu_data_list are not in a shape this rule recognises (%d of 2 found)" % nl)
        h = ctx.fn(F.lib, "call_rcu_thread")
        rep.touch(h)
        _helper_pause(rep, h, fl + ".helper", "call_rcu_data.flags", FLG.PAUSE, FLG.PAUSED, F.pfx + "_unregister_thread", F.pfx + "_register_thread", bp=(fl == "bp"))
        # parent: clear PAUSE, wait for PAUSED to clear
        a = ctx.fn(F.lib, F.pfx + "_call_rcu_after_fork_parent")
        rep.touch(a)
        clr = [e.inst for e in pat.accesses(a, "call_rcu_data.flags", ("rmw",)) if e.rop == "and" and (ir.const_of(a, e.val) & FLG.PAUSE) == 0]
        rep.check(bool(clr), "C16.pause", fl + ".parent.clears-PAUSE", "parent clears PAUSE", "after_fork_parent never clears PAUSE: helpers stay paused forever", [a.name])
        if clr:
            # PAUSED is the helper's acknowledgement: only the helper clears it (after it has re-registered).  The parent clears exactly PAUSE and
            # returns only once every helper has dropped PAUSED, so that a following before_fork() cannot take a stale PAUSED for a fresh acknowledgement
            steals = [c for c in clr if (ir.const_of(a, pat.accesses(a, "call_rcu_data.flags", ("rmw",), pred=lambda e, c=c: e.inst is c)[0].val) & FLG.PAUSED) == 0]
            rep.check(not steals, "C16.pause", fl + ".parent.leaves-PAUSED-to-helper", "the parent's mask clears PAUSE and keeps PAUSED", "after_fork_parent clears PAUSED on the helper's behalf: the acknowledgement bit no longer says "
                      "whether the helper is still parked, and the wait for the helper to leave the paused state is void", [c.where() for c in steals])
            pz = [(t, s_, at) for t, s_, at in pat.branch_edges_on(a, lambda at: at[0] in ("eq", "ne") and at[2] == ("c", 0) and at[1][0] == "bin" and at[1][1] == "and" and at[1][3] == ("c", FLG.PAUSED)
                                                                  and pat.is_load_expr(at[1][2], "call_rcu_data.flags"))]
            ppolls = pat.calls(a, "poll")
            stay = [(t, s_) for t, s_, at in pz if at[0] == "ne" and _stays(a, t, s_, ppolls)]
            cyc = [c for c in a.sccs() if any(t.blk.id in c and s_ in c for t, s_ in stay)]
            if not pz:
                rep.bad("C16.pause", fl + ".parent.waits-unPAUSED", "after_fork_parent returns without waiting for the helpers to leave the paused state: a before_fork() that follows at once sees the old PAUSED "
                        "and lets fork() proceed while a helper is running (registered as reader, possibly holding locks) - the child inherits that state", [clr[0].where()])
            elif not cyc and [1 for t, s_, at in pz if at[0] == "eq" and any(t.blk.id in c_ and s_ in c_ for c_ in a.sccs()) and _stays(a, t, s_, ppolls)]:
                rep.bad("C16.pause", fl + ".parent.waits-unPAUSED", "after_fork_parent polls while PAUSED is *clear* and leaves when it is set: it returns while helpers are still parked (or never, once they resumed)", [pz[0][0].where()])
            elif not cyc:
                rep.unk("C16.pause", fl + ".parent.waits-unPAUSED", "PAUSED is tested in after_fork_parent but not by a loop this rule recognises")
            else:
                rep.ok("C16.pause", fl + ".parent.waits-unPAUSED", "after_fork_parent loops until each helper has cleared PAUSED")
                lds = [i for i in a.all_insts() if i.op == "load" and i.blk.id in cyc[0] and pat.field_of(i) and pat.field_of(i).endswith("call_rcu_data.flags")]
                if lds:
                    # (the two list walks are correlated through the list, so a path rule would see the infeasible "first walk empty, second not")
                    rep.check(not all(a.dominates(lds[0], c) for c in clr), "C16.pause", fl + ".parent.clear≺wait", "PAUSE is cleared before the parent waits for PAUSED to drop",
                              "after_fork_parent waits for PAUSED to drop before it has cleared PAUSE: the helper only leaves the paused state once PAUSE is cleared, so the wait never ends", [lds[0].where()])
    m = ctx.mod("cds", "flat")
    w = m.fn("workqueue_thread")
    if w is None:
        raise Broken("workqueue_thread vanished")
    rep.touch(w)
    ors = sorted(set(ir.const_of(w, e.val) for e in pat.accesses(w, "urcu_workqueue.flags", ("rmw",)) if e.rop == "or"))
    pw = m.fn("urcu_workqueue_pause_worker")
    po = sorted(set(ir.const_of(pw, e.val) for e in pat.accesses(pw, "urcu_workqueue.flags", ("rmw",)) if e.rop == "or"))
    pat.require(len(po) == 1 and len(ors) >= 1, "workqueue flags writers")
    PAUSE = po[0]
    PAUSED = [x for x in ors if x != PAUSE]
    pat.require(PAUSED, "workqueue PAUSED bit")
    _helper_pause(rep, w, "workqueue.worker", "urcu_workqueue.flags", PAUSE, PAUSED[0], None, None, wq=True)
    # requester side (urcu_workqueue_pause_worker, used by the hash table's before-fork hook): set PAUSE, then wake, then wait for PAUSED
    rep.touch(pw)
    orr = [e.inst for e in pat.accesses(pw, "urcu_workqueue.flags", ("rmw",)) if e.rop == "or" and ir.const_of(pw, e.val) == PAUSE]
    ackd = [(t.blk.id, s_) for t, s_, a in pat.branch_edges_on(pw, lambda a: a[0] == "ne" and a[2] == ("c", 0) and a[1][0] == "bin" and a[1][1] == "and" and a[1][3] == ("c", PAUSED[0]))]
    if ackd:
        rep.must_take_edge("C16.pause", "workqueue.pause_worker.returns-only-once-PAUSED", pw, orr, None, ackd, to_exit=True, include_start=True,
                           what="pause_worker returns only along (flags & PAUSED) != 0: an empty queue does not mean an idle worker (it splices the queue out before it runs the batch)")
    else:
        rep.bad("C16.pause", "workqueue.pause_worker.returns-only-once-PAUSED", "pause_worker does not wait for the worker to acknowledge PAUSED", [pw.name])
    wk = pat.loads(pw, "urcu_workqueue.futex")
    if not wk:
        wkc = [c for c in pw.all_insts() if c.op == "call" and c.callee and "wake" in c.callee]
        if wkc:
            rep.unk("C16.pause", "workqueue.pause_worker.PAUSE⇒wake", "pause_worker wakes the worker through %s, which this rule does not look into" % wkc[0].callee)
        else:
            rep.bad("C16.pause", "workqueue.pause_worker.PAUSE⇒wake", "pause_worker never wakes the worker: a worker sleeping on its futex never sees PAUSE", [orr[0].where()])
    else:
        rep.must_pass("C16.pause", "workqueue.pause_worker.PAUSE⇒wake", pw, orr, None, lambda i: i in wk, to_exit=True, edge_ok=pat.block_edge_filter(_rt_edges(pw, "urcu_workqueue.flags", PAUSE | PAUSED[0])),
                      what="the worker's futex is tested (wake_worker_thread) after PAUSE is set: a worker woken before the flag lands goes back to sleep and never acknowledges")
        rep.must_pass("C16.pause", "workqueue.pause_worker.PAUSE≺FULL≺wake", pw, orr, wk, lambda i: mm.is_full(i), include_start=True,
                      what="full barrier between setting PAUSE and reading the worker's futex (store→load)")


def _helper_pause(rep, h, tag, fld, PAUSE, PAUSED, unreg, reg, bp=False, wq=False):
    orr = [e.inst for e in pat.accesses(h, fld, ("rmw",)) if e.rop == "or" and ir.const_of(h, e.val) == PAUSED]
    clr = [e.inst for e in pat.accesses(h, fld, ("rmw",)) if e.rop == "and" and (ir.const_of(h, e.val) & PAUSED) == 0]
    if not orr or not clr:
        rep.bad("C16.pause", tag + ".PAUSED", "helper never sets/clears PAUSED", [h.name])
        return
    if wq:
        un = [i for i in h.all_insts() if i.op == "icall" and (lambda e: e[0] == "load" and e[1].endswith("urcu_workqueue.worker_before_pause_fct"))(ir.expr(h, i.d["fp"]))]
        rg = [i for i in h.all_insts() if i.op == "icall" and (lambda e: e[0] == "load" and e[1].endswith("urcu_workqueue.worker_after_resume_fct"))(ir.expr(h, i.d["fp"]))]
    else:
        un, rg = pat.calls(h, unreg), pat.calls(h, reg)
    if not bp:
        if not un or not rg:
            rep.bad("C16.pause", tag + ".unregister", "helper pauses while still registered as an RCU reader (the child inherits a registry entry for a thread that does not exist)", [orr[0].where()])
            return
        nul = set((t.blk.id, s) for t, s, a in pat.branch_edges_on(h, lambda a: a[0] == "eq" and a[2] == ("c", 0) and a[1][0] == "load" and a[1][1].endswith("worker_before_pause_fct"))) if wq else set()
        rep.must_pass("C16.pause", tag + ".unregister≺PAUSED", h, [h.entry()], orr, lambda i: i in un, include_start=True, edge_ok=pat.block_edge_filter(nul),
                      what="helper unregisters as reader (runs its before-pause hook when one is set) before acknowledging PAUSED")
        # ... and it is a reader again before it touches the next batch: callbacks may take read-side locks, and the helper's own
        # synchronize_rcu()/offline transitions assume a registered thread
        qf_ = ("call_rcu_data.cbs_head", "call_rcu_data.cbs_tail", "urcu_workqueue.cbs_head", "urcu_workqueue.cbs_tail")
        nxt = [e.inst for e in pat.accesses(h, None, ("xchg",)) if any(x in qf_ for x in pat.full_ap_fields(e.ap))]
        nul2 = set((t.blk.id, s) for t, s, a in pat.branch_edges_on(h, lambda a: a[0] == "eq" and a[2] == ("c", 0) and a[1][0] == "load" and a[1][1].endswith("worker_after_resume_fct"))) if wq else set()
        if nxt:
            rep.must_pass("C16.pause", tag + ".resume⇒register", h, clr, nxt, lambda i: i in rg, edge_ok=pat.block_edge_filter(nul2),
                          what="after leaving the paused state the helper re-registers as reader (runs its after-resume hook when one is set) before taking the next batch")
        hit, _ = h.reach(orr, rg, avoid=lambda i: i in clr)
        rep.check(hit is None, "C16.pause", tag + ".PAUSED≺clear≺register", "re-registration only after PAUSED was cleared", "helper re-registers while still flagged PAUSED", [orr[0].where()])
    hit, _ = h.reach(orr, clr, avoid=lambda i: i.op == "call" and i.callee == "poll")
    # between set and clear there is a wait on PAUSE
    lv = pat.dom_leaf_atoms(h, clr[0])
    ok = any(a[0] == "eq" and a[2] == ("c", 0) and a[1][0] == "bin" and a[1][1] == "and" and a[1][3] == ("c", PAUSE) for a in lv)
    rep.check(ok, "C16.pause", tag + ".wait-PAUSE-cleared", "PAUSED is cleared only after PAUSE was observed cleared", "helper clears PAUSED without waiting for the requester to clear PAUSE", [clr[0].where()])
    # parked with nothing in private hands: work taken off the shared queue (the splice's exchanges) is run to completion before
    # the helper can acknowledge PAUSED again - the fork child rebuilds its helpers from the *shared* queues only, a batch sitting
    # on the stack of a thread that does not exist in the child is lost (and rcu_barrier() in the child returns without it)
    qf = ("call_rcu_data.cbs_head", "call_rcu_data.cbs_tail", "urcu_workqueue.cbs_head", "urcu_workqueue.cbs_tail")
    taken = [e.inst for e in pat.accesses(h, None, ("xchg",)) if any(x in qf for x in pat.full_ap_fields(e.ap))]
    if taken:
        loops = [c for c in h.sccs() if orr[0].blk.id in c]
        if loops:
            hdrs = set(pat.scc_entries(h, max(loops, key=len)))
            hit2, par2 = h.reach(taken, orr, avoid=lambda i: i.blk.id in hdrs and i.pos == 0)
            rep.check(hit2 is None, "C16.pause", tag + ".parks-empty-handed", "between taking work off the shared queue and the next PAUSED acknowledgement the helper goes round its main loop (the batch is run first)",
                      "the helper can acknowledge PAUSED while holding a privately spliced batch: those callbacks are lost in a fork child", [taken[0].where(), orr[0].where()])
    g = any(a[0] == "ne" and a[2] == ("c", 0) and a[1][0] == "bin" and a[1][1] == "and" and a[1][3] == ("c", PAUSE) for a in pat.dom_leaf_atoms(h, orr[0]))
    rep.check(g, "C16.pause", tag + ".PAUSED-iff-PAUSE", "PAUSED is set only in response to PAUSE", "PAUSED set without a PAUSE request", [orr[0].where()])


def rule_child(ctx, rep, rid="C16.child", callrcu_only=False):
    FLG = c03.flags(ctx)
    for fl in ALL:
        F = FL[fl]
        c = ctx.fn(F.lib, F.pfx + "_call_rcu_after_fork_child")
        rep.touch(c)
        joins = pat.calls(c, "pthread_join")
        rep.check(not joins, rid, fl + ".no-join", "the child never joins helper threads (they do not exist after fork)", "after_fork_child joins a thread that does not exist in the child: it blocks forever / fails",
                  [j.where() for j in joins[:1]])
        fr = [x for x in pat.calls(c, "free") if pat.from_fn(x, "_call_rcu_data_free")]
        if not fr:
            rep.bad(rid, fl + ".frees-stale", "stale helpers are not freed in the child", [c.name])
            continue
        st = [s for s in pat.stores(c, "call_rcu_data.flags") if ir.const_of(c, s.args[0]) == FLG.STOPPED]
        rep.must_pass(rid, fl + ".STOPPED≺free", c, [c.entry()], fr, lambda i: i in st, include_start=True,
                      what="each stale helper is marked STOPPED before being freed (no waiting for a thread that does not exist)")
        # the per-CPU helper array and its length word are one piece of state: `length != 0` means `array allocated` to alloc_cpu_call_rcu_data(),
        # so whoever drops the array resets the length - or the child can never create / look up a per-CPU helper again
        m_ = ctx.mod(F.lib, "perfn")
        lenrd = any(l for g_ in m_.defined() for l in pat.loads(g_, glob="cpus_array_len"))
        nul = [s_ for s_ in pat.stores(c, glob="per_cpu_call_rcu_data") if ir.const_of(c, s_.args[0]) == 0 or ir.expr(c, s_.args[0], 2) == ("null",)]
        if nul and lenrd:
            z = [s_ for s_ in pat.stores(c, glob="cpus_array_len") if ir.const_of(c, s_.args[0]) == 0]
            if not z:
                rep.bad(rid, fl + ".percpu-array-and-length", "the child frees and clears per_cpu_call_rcu_data but leaves cpus_array_len set: alloc_cpu_call_rcu_data() takes the array for allocated - "
                        "create_all_cpu_call_rcu_data() / set_cpu_call_rcu_data() fail and get_cpu_call_rcu_data() finds nothing in the child for ever", [nul[0].where()])
            else:
                okp = all(c.reach([c.entry()], [n_], avoid=lambda i: i in z, include_start=True)[0] is None or c.reach([n_], None, avoid=lambda i: i in z, stop_at_exit=True)[0] is None for n_ in nul)
                rep.check(okp, rid, fl + ".percpu-array-and-length", "cpus_array_len is reset on every path that drops the per-CPU array", "a path drops the per-CPU array without resetting cpus_array_len", [nul[0].where()])
        dn = [s for s in pat.stores(c, glob="default_call_rcu_data") if ir.const_of(c, s.args[0]) == 0]
        gd = pat.calls(c, F.pfx + "_get_default_call_rcu_data")
        if not dn or not gd:
            rep.bad(rid, fl + ".new-default", "the child does not create a fresh default helper", [c.name])
        else:
            rep.must_pass(rid, fl + ".reset≺new-default≺free", c, dn, fr, lambda i: i in gd, what="a new default helper exists before stale helpers (and their leftover callbacks) are disposed of")
            rep.must_pass(rid, fl + ".reset-first", c, [c.entry()], gd, lambda i: i in dn, include_start=True, what="the inherited default pointer is reset before a new helper is created")
        if dn:
            # the rebuild is skipped only when no helper exists at all (call_rcu_data_list empty): helpers created explicitly
            # (create_call_rcu_data, per-thread / per-CPU) exist without a default helper - their callbacks must still be adopted
            empt = []
            for b in c.blocks:
                for s_ in b.succ:
                    for a in ir.edge_atoms(c, b.id, s_):
                        if a[0] == "eq" and {a[1][0], a[2][0]} == {"addr", "load"} and all(x[1].startswith("@call_rcu_data_list") for x in (a[1], a[2])):
                            empt.append((b.id, s_))
            rep.must_take_edge(rid, fl + ".skip-only-when-no-helper", c, [c.entry()], None, empt, to_exit=True, include_start=True, avoid=lambda i: i in dn,
                               what="the child returns without rebuilding only when call_rcu_data_list is empty")
        tl = [s for s in pat.stores(c, glob="thread_call_rcu_data") if ir.const_of(c, s.args[0]) == 0]
        pc = [s for s in pat.stores(c, glob="per_cpu_call_rcu_data") if ir.const_of(c, s.args[0]) == 0]
        rep.check(bool(tl) and bool(pc), rid, fl + ".reset-tls-percpu", "per-thread and per-CPU helper pointers are reset", "stale per-thread / per-CPU helper pointers survive in the child", [c.name])
        g = any(a[0] == "ne" and any(x[0] == "load" and x[1] == "@default_call_rcu_data" for x in (a[1], a[2])) for a in pat.dom_leaf_atoms(c, st[0])) if st else False
        rep.check(g, rid, fl + ".keeps-new-default", "the new default helper is not freed", "the freshly created default helper is freed too", [fr[0].where()])
    if callrcu_only:
        return
    # bp prune
    m = ctx.mod("bp", "perfn")
    p = m.fn("urcu_bp_prune_registry")
    if p is None:
        raise Broken("urcu_bp_prune_registry vanished")
    rep.touch(p)
    cl = pat.calls(p, "cleanup_thread")
    pat.require(cl, "prune: cleanup_thread")
    for x in cl:
        lv = pat.dom_leaf_atoms(p, x)
        keep = any(a[0] == "ne" and any(z[0] == "call" and z[1] == "pthread_self" for z in (a[1], a[2])) and any(z[0] == "load" and z[1].endswith("urcu_bp_reader.tid") for z in (a[1], a[2])) for a in lv)
        al = any(a[0] == "ne" and a[2] == ("c", 0) and a[1][0] == "load" and a[1][1].endswith("urcu_bp_reader.alloc") for a in lv)
        def _peq(a, pol):
            # pthread_equal(reader->tid, pthread_self()) compared with 0
            if a[0] != pol or a[2] != ("c", 0) or a[1][0] != "call" or a[1][1] != "pthread_equal":
                return False
            ex = [ir.expr(p, v) for v in p.insts[a[1][2]].args[:2]]
            return any(z[0] == "call" and z[1] == "pthread_self" for z in ex) and any(z[0] == "load" and z[1].endswith("urcu_bp_reader.tid") for z in ex)
        keep = keep or any(_peq(a, "eq") for a in lv)
        inv = any(a[0] == "eq" and any(z[0] == "call" and z[1] == "pthread_self" for z in (a[1], a[2])) and any(z[0] == "load" and z[1].endswith("urcu_bp_reader.tid") for z in (a[1], a[2])) for a in lv) \
            or any(_peq(a, "ne") for a in lv)
        if inv:
            rep.bad("C16.bp", "prune.keeps-self", "the fork child cleans up exactly the slot whose tid is its own and keeps every other thread's: its own reader state is released (and handed to the next "
                    "thread that registers) while it may be inside a critical section, and the stale slots of threads that do not exist in the child stay in the registry", [x.where()])
        elif keep and al:
            rep.ok("C16.bp", "prune.keeps-self", "only allocated slots of other threads are cleaned")
        elif not any(pat.atom_mentions(a, lambda e: e[0] == "call" and e[1] in ("pthread_self", "pthread_equal")) for a in lv) or not al:
            rep.bad("C16.bp", "prune.keeps-self", "prune does not spare the calling thread's slot / cleans unallocated slots", [x.where()])
        else:
            rep.unk("C16.bp", "prune.keeps-self", "the test that spares the caller's slot is not in a form this rule recognises")
    # loop bounds are loop-invariant: the bound field is not written inside the loop (cleanup_thread decrements `used`)
    written = set()
    cf = m.fn("cleanup_thread")
    for g_ in [p] + ([cf] if cf else []):
        for s in g_.all_insts():
            if s.op == "store" and pat.last_field(s.d["ap"]):
                written.add(pat.last_field(s.d["ap"]))
    n = 0
    for comp in p.sccs():
        for b in comp:
            for s_ in p.blocks[b].succ:
                if s_ in comp:
                    for a in ir.edge_atoms(p, b, s_):
                        if a[0] in ("ult", "ule", "ugt", "uge") and a[2][0] == "load":
                            fld = a[2][1].split(".")[-2] + "." + a[2][1].split(".")[-1] if "." in a[2][1] else a[2][1]
                            n += 1
                            rep.check(fld not in written, "C16.bp", "prune.bound-invariant", "slot loop runs to %s, which the loop does not modify" % fld,
                                      "slot loop is bounded by %s, which cleanup_thread modifies while iterating: the scan stops early and stale reader slots survive in the child" % fld,
                                      [p.blocks[b].insts[-1].where()])
                            rep.check(fld == "registry_chunk.capacity", "C16.bp", "prune.bound-capacity", "every slot of the chunk is examined (bound = capacity)",
                                      "slot loop bound is %s, not the chunk capacity: allocated slots beyond it are never examined" % fld, [p.blocks[b].insts[-1].where()])
    pat.require(n >= 1, "prune: slot loop bound not recognised")
    # ... and the slot loop is `for (i = 0; i < capacity; i++)`: starts at slot 0, stays while i < capacity, advances by one - a scan that starts at 1
    # (or steps by 2) leaves stale reader slots of threads that do not exist in the child, and the child's grace periods wait for them forever
    k = 0
    for comp in p.sccs():
        for b in comp:
            for s_ in p.blocks[b].succ:
                if s_ not in comp:
                    continue
                for a in ir.edge_atoms(p, b, s_):
                    if a[0] in ("ult", "ule", "ugt", "uge", "ne", "slt", "sle") and a[1][0] == "phi" and a[2][0] == "load" and a[2][1].endswith("registry_chunk.capacity"):
                        if s_ not in _natural_loop(p, p.insts[a[1][1]]):
                            continue        # the edge leaves the slot loop (and stays in the enclosing chunk loop)
                        k += 1
                        where = [p.blocks[b].insts[-1].where()]
                        rep.check(a[0] in ("ult", "slt", "ne"), "C16.bp", "prune.slots.stay-while-below-capacity", "the slot loop continues while index < capacity",
                                  "the slot loop continues while index %s capacity: %s" % (a[0], "it reads one slot past the chunk" if a[0] in ("ule", "sle") else "it does not visit the chunk's slots"), where)
                        ph = p.insts[a[1][1]]
                        inits = [ir.const_of(p, v) for v, blk in ph.d["inc"] if not p.bdom(ph.blk.id, blk)]       # entered from outside the (inner) loop
                        steps = [ir.expr(p, v, 3) for v, blk in ph.d["inc"] if p.bdom(ph.blk.id, blk)]          # back edges
                        rep.check(inits == [0], "C16.bp", "prune.slots.from-0", "the slot loop starts at slot 0", "the slot loop starts at %s: earlier slots are never pruned - a stale reader of a thread that does not exist in the child "
                                  "blocks the child's synchronize_rcu() forever" % inits, where)
                        okstep = all(e[0] == "bin" and e[1] == "add" and e[3] == ("c", 1) and e[2] == ("phi", ph.id) for e in steps) and bool(steps)
                        if okstep:
                            rep.ok("C16.bp", "prune.slots.step-1", "the slot index advances by one")
                        elif all(e[0] == "bin" and e[1] in ("add", "sub") and e[3][0] == "c" and e[2] == ("phi", ph.id) for e in steps) and steps:
                            rep.bad("C16.bp", "prune.slots.step-1", "the slot index advances by %s: slots are skipped (or the scan runs backwards out of the chunk)" % [ir.expr_str(e) for e in steps], where)
                        else:
                            rep.unk("C16.bp", "prune.slots.step-1", "slot index update not recognised: %s" % [ir.expr_str(e) for e in steps])
    pat.require(k >= 1, "prune: slot loop shape (index phi compared with capacity) not recognised")
    c = ctx.fn("bp", "urcu_bp_after_fork_child")
    pr = [i for i in c.all_insts() if pat.from_fn(i, "urcu_bp_prune_registry")]
    ul = pat.mutex_calls(c, "pthread_mutex_unlock", "rcu_registry_lock")
    pat.require(pr and ul, "bp after_fork_child anatomy")
    back, _ = c.reach(ul, pr)
    rep.check(back is None, "C16.bp", "child.prune-before-unlock", "the registry is pruned before the locks are released", "registry pruned after unlocking", [ul[0].where()])
    # workqueue worker re-creation
    m = ctx.mod("cds", "perfn")
    w = m.fn("urcu_workqueue_create_worker")
    if w is None:
        raise Broken("urcu_workqueue_create_worker vanished")
    if not any(i.op == "call" and i.callee == "pthread_create" for i in w.all_insts()):
        wf = ctx.mod("cds", "flat").fn("urcu_workqueue_create_worker")      # thread start extracted into a static helper: decide on the flattened entry point
        if wf is not None:
            w = wf
    rep.touch(w)
    pc = pat.calls(w, "pthread_create")
    fs = [s for s in pat.stores(w, "urcu_workqueue.flags")]
    ts = [s for s in pat.stores(w, "urcu_workqueue.tid") if ir.const_of(w, s.args[0]) == 0]
    pat.require(pc, "create_worker: pthread_create")
    rep.check(bool(fs) and bool(ts), "C16.wq", "create_worker.clears-state", "PAUSE/PAUSED and tid are cleared before the worker is (re)created", "worker re-created with stale PAUSE/PAUSED/tid", [pc[0].where()])
    if fs:
        rep.must_pass("C16.wq", "create_worker.clear≺create", w, [w.entry()], pc, lambda i: i in fs, include_start=True, what="flags cleared before pthread_create")
        # which bits: exactly the pause handshake bits (derived from their writers)
        fm = ctx.mod("cds", "flat")
        wt = fm.fn("workqueue_thread")
        pw = fm.fn("urcu_workqueue_pause_worker")
        po = sorted(set(ir.const_of(pw, e.val) for e in pat.accesses(pw, "urcu_workqueue.flags", ("rmw",)) if e.rop == "or"))
        wo = sorted(set(ir.const_of(wt, e.val) for e in pat.accesses(wt, "urcu_workqueue.flags", ("rmw",)) if e.rop == "or"))
        pat.require(len(po) == 1, "workqueue PAUSE writer")
        PAUSE = po[0]
        paused = [x for x in wo if wt.reach([e.inst for e in pat.accesses(wt, "urcu_workqueue.flags", ("rmw",)) if e.rop == "or" and ir.const_of(wt, e.val) == x],
                                            [e.inst for e in pat.accesses(wt, "urcu_workqueue.flags", ("rmw",)) if e.rop == "and"])[0] is not None]
        pat.require(len(paused) == 1, "workqueue PAUSED bit")
        PAUSED = paused[0]
        cleared = 0
        okshape = True
        for s_ in fs:
            e = ir.expr(w, s_.args[0], 8)
            keep = 0xffffffff

            def walk(x):
                nonlocal keep, okshape
                if x[0] == "bin" and x[1] == "and" and x[3][0] == "c":
                    keep &= (x[3][1] & 0xffffffff)
                    walk(x[2])
                elif x[0] == "load" and x[1].endswith("urcu_workqueue.flags"):
                    pass
                else:
                    okshape = False
            walk(e)
            cleared |= (~keep) & 0xffffffff
        rep.check(okshape and cleared == (PAUSE | PAUSED), "C16.wq", "create_worker.clears-PAUSE+PAUSED", "exactly PAUSE (0x%x) and PAUSED (0x%x) are cleared before the worker is re-created" % (PAUSE, PAUSED),
                  "create_worker clears bits 0x%x, expected PAUSE|PAUSED = 0x%x: a stale %s bit survives in the child (its next fork no longer waits for the worker / never resumes)"
                  % (cleared, PAUSE | PAUSED, "PAUSED" if not cleared & PAUSED else "PAUSE" if not cleared & PAUSE else "other"), [fs[0].where()])


def rule_bp_handoff(ctx, rep):
    n0 = len(rep.results)
    c19.rule_bp(ctx, rep)
    keep = []
    for r in rep.results[n0:]:
        if "fork" in r["instance"]:
            r["rule"] = "C16.handoff"
            r["key"] = r["key"].replace("C19.bp", "C16.handoff")
            keep.append(r)
    del rep.results[n0:]
    rep.results += keep
    pat.require(keep, "bp fork hand-off instances vanished")


def rule_hooks(ctx, rep):
    """The hash table's fork hooks (registered through urcu_register_rculfhash_atfork) bracket the fork like the call_rcu
    handlers themselves: before_fork / after_fork_parent / after_fork_child each invoke their hook on *every* returning
    path on which a hook is registered.  A handler that skips its hook on some path leaves the resize work queue paused,
    its nesting counter raised and cds_lfht_fork_mutex held in that process."""
    for fl in ALL:
        F = FL[fl]
        for suffix, field in (("call_rcu_before_fork", "before_fork"), ("call_rcu_after_fork_parent", "after_fork_parent"), ("call_rcu_after_fork_child", "after_fork_child")):
            f = ctx.fn(F.lib, F.pfx + "_" + suffix)
            rep.touch(f)
            hooks = [i for i in f.all_insts() if i.op == "icall" and (lambda e: e[0] == "load" and e[1].endswith("urcu_atfork." + field))(ir.expr(f, i.d["fp"]))]
            pat.require(hooks, "%s: no call through urcu_atfork.%s" % (f.name, field))
            pat.require(pat.loads(f, glob="registered_rculfhash_atfork"), "%s: registered_rculfhash_atfork is not consulted" % f.name)
            # edges on which it is *known* that no hook is registered (leaf atoms: the false edge of `atfork && x` is not one of them)
            none = []
            for b in f.blocks:
                t = b.insts[-1]
                if t.op != "br" or len(b.succ) != 2 or b.succ[0] == b.succ[1]:
                    continue
                e = ir.expr(f, t.args[0], 8)
                for k, s_ in enumerate(t.d["succ"]):
                    lv = []
                    pat.leaf_atoms(e if e[0] in ("icmp", "bin", "select") else ("icmp", "ne", e, ("c", 0)), k == 0, lv)
                    if any(a[0] == "eq" and a[2] == ("c", 0) and a[1][0] == "load" and a[1][1] == "@registered_rculfhash_atfork" for a in lv):
                        none.append((b.id, s_))
            rep.must_take_edge("C16.hooks", "%s.%s.every-return" % (fl, field), f, [f.entry()], None, none, to_exit=True, include_start=True, avoid=lambda i: i in hooks,
                               what="every returning path invokes urcu_atfork.%s unless no hash-table fork hook is registered" % field)
            for h in hooks:
                pr = ir.expr(f, h.args[0], 4) if h.args else None
                rep.check(pr is not None and pr[0] == "load" and pr[1].endswith("urcu_atfork.priv"), "C16.hooks", "%s.%s.priv" % (fl, field), "hook receives the registered private pointer",
                          "hook called with %s" % ir.expr_str(pr), [h.where()])
    # the three hooks themselves pair up: nesting counter ++ in before, -- in both after handlers, same guard constant
    m = ctx.mod("cds", "flat")
    for name, op in (("cds_lfht_before_fork", "inc"), ("cds_lfht_after_fork_parent", "dec"), ("cds_lfht_after_fork_child", "dec")):
        f = m.fn(name)
        pat.require(f is not None, name + " vanished")
        rep.touch(f)
        st = [s_ for s_ in f.all_insts() if s_.op == "store" and pat.base_global(s_.d["ap"]) == "cds_lfht_workqueue_atfork_nesting"]
        pat.require(st, "%s: nesting counter update" % name)
        for s_ in st:
            e = ir.expr(f, s_.args[0], 4)
            want = 1 if op == "inc" else -1
            ok = e[0] == "bin" and e[1] == "add" and e[3] == ("c", want) and e[2][0] == "load" and e[2][1] == "@cds_lfht_workqueue_atfork_nesting"
            rep.check(ok, "C16.hooks", name + ".nesting", "nesting counter %s by one" % ("raised" if want == 1 else "lowered"), "nesting counter set to %s" % ir.expr_str(e), [s_.where()])
        rep.must_pass("C16.hooks", name + ".nesting.every-return", f, [f.entry()], None, lambda i: i in st, to_exit=True, include_start=True, what="the nesting counter is updated on every returning path")


def rule_bp_mask(ctx, rep):
    """bp: saved_fork_signal_mask is shared by every thread that forks; it is written and read only while rcu_gp_lock and
    rcu_registry_lock are held (before_fork stores it after taking them, the after_fork handlers copy it to a local before
    releasing them).  Accessed outside the locks, a second forking thread overwrites the mask the first one will restore."""
    m = ctx.mod("bp", "flat")
    need = {"@rcu_gp_lock", "@rcu_registry_lock"}
    n = 0
    for name in ("urcu_bp_before_fork", "urcu_bp_after_fork_parent", "urcu_bp_after_fork_child"):
        f = m.fn(name)
        pat.require(f is not None, name + " vanished")
        rep.touch(f)
        entry, _exit = c19.BP_HANDOFF[name]
        must = lockset.compute(f, entry=entry)
        for i in f.all_insts():
            touches = False
            if i.op in ("load", "store") and pat.base_global(i.d["ap"]) == "saved_fork_signal_mask":
                touches = True
            if i.op == "call" and any(ap and pat.base_global(ap) == "saved_fork_signal_mask" for ap in i.d.get("aps", [])):
                touches = True
            if not touches:
                continue
            n += 1
            held = set(must.get(i.id, ()))
            rep.check(need <= held, "C16.bpmask", "%s@%d" % (name, i.line), "saved_fork_signal_mask accessed with both fork locks held",
                      "saved_fork_signal_mask accessed holding only %s: two threads forking concurrently restore each other's signal mask" % sorted(held - {lockset.SIGBLOCKED}), [i.where()])
    pat.require(n >= 3, "bp: only %d accesses to saved_fork_signal_mask found" % n)


def rule_fork_vs_free(ctx, rep):
    """call_rcu_before_fork() waits, with call_rcu_mutex held, for every helper on call_rcu_data_list to acknowledge PAUSED.  A helper that is being
    retired acknowledges STOPPED instead and exits; that is harmless only if retiring (setting STOP ... unlinking) is serialised with the fork
    handler by the same mutex, or if the handler's wait also ends on STOPPED.  Today neither holds (known finding, DESIGN Section 4, 5.)."""
    for fl in ALL:
        F = FL[fl]
        FLG = c03.flags(ctx)
        b = ctx.fn(F.lib, F.pfx + "_call_rcu_before_fork")
        fr = ctx.fn(F.lib, F.pfx + "_call_rcu_data_free")
        if b is None or fr is None:
            raise Broken("%s: before_fork / call_rcu_data_free roots" % fl)
        rep.touch(b)
        rep.touch(fr)
        stop = [e.inst for e in pat.accesses(fr, "call_rcu_data.flags", ("rmw",)) if e.rop == "or" and ir.const_of(fr, e.val) == FLG.STOP]
        pat.require(stop, "%s: call_rcu_data_free does not set STOP" % fl)
        must = lockset.compute(fr)
        unserialised = [i for i in stop if "@call_rcu_mutex" not in must.get(i.id, ())]
        leave = [(t, s_, a) for t, s_, a in pat.branch_edges_on(b, lambda a: a[0] == "ne" and a[2] == ("c", 0) and a[1][0] == "bin" and a[1][1] == "and" and a[1][3][0] == "c"
                                                              and (a[1][3][1] & FLG.PAUSED) and pat.is_load_expr(a[1][2], "call_rcu_data.flags"))]
        if not leave:
            rep.unk("C16.forkfree", fl + ".before_fork-vs-concurrent-free", "the wait for PAUSED in before_fork is not in a shape this rule recognises")
            continue
        blind = [(t, s_, a) for t, s_, a in leave if not (a[1][3][1] & FLG.STOPPED)]
        stopped_too = pat.branch_edges_on(b, lambda a: a[0] == "ne" and a[2] == ("c", 0) and a[1][0] == "bin" and a[1][1] == "and" and a[1][3][0] == "c" and (a[1][3][1] & FLG.STOPPED))
        ok = not unserialised or not blind or bool(stopped_too)
        rep.check(ok, "C16.forkfree", fl + ".before_fork-vs-concurrent-free", "a helper retired concurrently with the fork handler cannot keep it waiting (STOP is set under call_rcu_mutex, or the wait also ends on STOPPED)",
                  "call_rcu_data_free() sets STOP without call_rcu_mutex and unlinks the helper only after it stopped, while call_rcu_before_fork() (mutex held) waits for PAUSED alone: a helper "
                  "that honours STOP first exits with STOPPED, never PAUSED - before_fork polls for ever and the freeing thread blocks on the mutex", [unserialised[0].where() if unserialised else fr.name, leave[0][0].where()])


def rule_child_handover(ctx, rep):
    """The child merges every inherited queue into its fresh default helper through _call_rcu_data_free(): the hand-over rules
    of C03 (leftovers spliced under call_rcu_mutex, the helper that *received* them is woken afterwards) are what makes
    `callbacks queued at fork time run exactly once in the child` - the new helper may already be asleep on an empty queue."""
    n0 = len(rep.results)
    c03.rule_handover(ctx, rep)
    keep = []
    for r in rep.results[n0:]:
        if any(k in r["instance"] for k in ("wake-default", "splice", "STOPPED")):
            r = dict(r)
            r["key"] = r["key"].replace(r["rule"], "C16.handover")
            r["rule"] = "C16.handover"
            keep.append(r)
    del rep.results[n0:]
    rep.results += keep
    pat.require(keep, "hand-over instances vanished")


def rule_hookreg(ctx, rep):
    """Registration of the hash table's fork hooks is serialised with the fork bracket by call_rcu_mutex: before_fork keeps
    the mutex from its read of registered_rculfhash_atfork until after_fork_parent has read it again, so both sides of a fork see
    the same registration and the hooks run as a matched pair (nesting counter, fork mutex, worker pause/resume).  Every write of
    the registration pointer / refcount, and the reads in before_fork and after_fork_parent, hold call_rcu_mutex."""
    for fl in ALL:
        F = FL[fl]
        m = ctx.mod(F.lib, "flat")
        n = 0
        for f in m.defined():
            acc = []
            for i in f.all_insts():
                if i.op not in ("load", "store", "rmw", "cmpxchg", "asm"):
                    continue
                e = mm.effect_of(i)
                if e is None or e.ap is None or ir.ap_fields(e.ap):
                    continue
                if pat.base_global(e.ap) in ("registered_rculfhash_atfork", "registered_rculfhash_atfork_refcount"):
                    acc.append(i)
            if not acc:
                continue
            rep.touch(f)
            entry = frozenset(["@call_rcu_mutex"]) if f.name.endswith("_call_rcu_after_fork_parent") else frozenset()
            must = lockset.compute(f, entry=entry)
            for i in acc:
                if f.name.endswith("_call_rcu_after_fork_child") and i.op == "load":
                    continue        # the child is single-threaded; it reads after having released the inherited mutex
                if i.op == "load" and not (f.name.endswith("_call_rcu_before_fork") or f.name.endswith("_call_rcu_after_fork_parent")):
                    continue        # lock-free "already registered?" fast path: only the fork bracket's reads and all writes need the mutex
                n += 1
                kind = "written" if i.op != "load" else "read"
                rep.check("@call_rcu_mutex" in must.get(i.id, ()), "C16.hookreg", "%s.%s@%d" % (fl, f.name, i.line), "registration state %s under call_rcu_mutex" % kind,
                          "%s %s without call_rcu_mutex: a registration landing between before_fork and after_fork makes the two sides of a fork disagree "
                          "(after-hook without before-hook: nesting counter goes negative, the child never re-creates the resize worker)" % (pat.base_global(mm.effect_of(i).ap), kind), [i.where()])
        pat.require(n >= 3, "%s: only %d accesses to the hook registration found" % (fl, n))


def rule_wq_requester(ctx, rep):
    """Work queue (hash-table resize worker), requester side of the fork bracket: pause = set PAUSE, (full barrier), wake the
    worker, poll until PAUSED; resume = clear PAUSE only, poll until PAUSED is cleared.  Mirrors C16.pause for the call_rcu helpers."""
    m = ctx.mod("cds", "perfn")
    pw, rw = m.fn("urcu_workqueue_pause_worker"), m.fn("urcu_workqueue_resume_worker")
    if pw is None or rw is None:
        raise Broken("work queue pause/resume vanished")
    rep.touch(pw)
    rep.touch(rw)
    ors = [e for e in pat.accesses(pw, "urcu_workqueue.flags", ("rmw",)) if e.rop == "or"]
    pat.require(len(ors) == 1, "pause_worker: one `or` on flags")
    PAUSE = ir.const_of(pw, ors[0].val)
    def _wakes(c, depth=3):
        if mm.is_futex(c, mm.FUTEX_WAKE):
            return True
        if c.op == "call" and c.callee in ("futex_noasync", "futex_async", "compat_futex_noasync", "compat_futex_async") and len(c.args) > 1 and ir.const_of(c.fn, c.args[1]) == mm.FUTEX_WAKE:
            return True
        g = m.fn(c.callee) if c.op == "call" and c.callee else None
        if g is None or not g.blocks or depth == 0 or g.name.startswith("urcu_workqueue_"):
            return False
        return any(x.op == "call" and _wakes(x, depth - 1) for x in g.all_insts())
    wk = [c for c in pw.all_insts() if c.op == "call" and _wakes(c)]      # the waking helper, by what it does
    pat.require(wk, "pause_worker: no FUTEX_WAKE of the worker")
    rep.must_pass("C16.wqreq", "pause.PAUSE≺barrier≺wake", pw, [ors[0].inst], wk, lambda i: mm.is_compiler(i, pw.mod) and i is not ors[0].inst, what=">=compiler barrier between requesting PAUSE and waking the worker")
    paused_edges = [(t.blk.id, s_, a) for t, s_, a in pat.branch_edges_on(pw, lambda a: a[0] in ("eq", "ne") and a[2] == ("c", 0) and a[1][0] == "bin" and a[1][1] == "and" and a[1][2][0] == "load" and a[1][2][1].endswith("urcu_workqueue.flags"))]
    pat.require(paused_edges, "pause_worker: wait on PAUSED")
    PAUSED = paused_edges[0][2][1][3][1]
    rep.check(PAUSED != PAUSE and PAUSED & (PAUSED - 1) == 0, "C16.wqreq", "pause.waits-PAUSED", "pause polls a distinct acknowledgement bit (PAUSED=%#x, PAUSE=%#x)" % (PAUSED, PAUSE),
              "pause_worker waits on %#x, the bit it set itself" % PAUSED, [pw.name])
    leave = [(b, s_) for b, s_, a in paused_edges if a[0] == "ne"]
    rep.must_take_edge("C16.wqreq", "pause.returns-only-PAUSED", pw, wk, None, leave, to_exit=True, include_start=False, what="pause_worker returns only after observing PAUSED")
    ands = [e for e in pat.accesses(rw, "urcu_workqueue.flags", ("rmw",)) if e.rop == "and"]
    pat.require(len(ands) == 1, "resume_worker: one `and` on flags")
    msk = ir.const_of(rw, ands[0].val)
    rep.check(msk is not None and (~msk & 0xffffffff) == PAUSE or (msk is not None and (~msk) == PAUSE), "C16.wqreq", "resume.clears-PAUSE-only", "resume clears exactly PAUSE", "resume clears %s" % (hex(~msk & 0xffffffff) if msk is not None else None), [ands[0].inst.where()])
    cl = [(t.blk.id, s_) for t, s_, a in pat.branch_edges_on(rw, lambda a: a[0] == "eq" and a[2] == ("c", 0) and a[1][0] == "bin" and a[1][1] == "and" and a[1][3] == ("c", PAUSED))]
    rep.must_take_edge("C16.wqreq", "resume.returns-only-unPAUSED", rw, [ands[0].inst], None, cl, to_exit=True, include_start=False, what="resume_worker returns only after the worker cleared PAUSED")


META["explanation"] += " " + "Also (rounds 10-11): the parent clears exactly PAUSE and waits for PAUSED to drop, wait-loop polarity in before_fork / after_fork_parent, the helper re-registers after resume, bp's prune loop visits slots 0..capacity-1 in steps of one."

META["explanation"] += " " + 'Also (round 12): the per-CPU helper array and its length word are reset together in the child.'

META["explanation"] += " " + 'Also (round 13): PAUSE is set before the helper / worker is woken (call_rcu_before_fork, urcu_workqueue_pause_worker), with a full barrier in between; only the RT-flag edge may skip the wake-up.'

META["explanation"] += " " + 'Also (round 14): every listed helper is asked and waited for in before_fork; pause_worker returns only along PAUSED; the compatibility-name tables agree with their targets (sa/aliases.py); known finding C16.forkfree (before_fork vs concurrent call_rcu_data_free).'

RULES = [
    ("C16.handoff", rule_handoff),
    ("C16.handoff", rule_bp_handoff),
    ("C16.pause", rule_pause),
    ("C16.aliases", lambda c, r: __import__("sa.aliases", fromlist=["x"]).rule_aliasmap(c, r, "C16.aliases")),   # the legacy spellings of the fork handlers (rcu_bp_after_fork_child, call_rcu_after_fork_child_bp, ...) reach the handler of the same name
    ("C16.child", rule_child),
    ("C16.forkfree", rule_fork_vs_free),
    ("C16.hooks", rule_hooks),
    ("C16.wqreq", rule_wq_requester),
    ("C16.hookreg", rule_hookreg),
    ("C16.handover", rule_child_handover),
    ("C16.bpmask", rule_bp_mask),
    ("C16.slot", lambda c, r: c15.rule_slot(c, r, "C16.slot")),   # the fork child prunes other threads' slots through cleanup_thread
    ("C16.wq", lambda c, r: __import__("sa.rules.wq", fromlist=["x"]).rule_workqueue(c, r, "C16.wq")),   # the work queue that executes resizes / deferred destroys
    ("C16.bpowner", lambda c, r: c15.rule_bp_owner(c, r, "C16.bpowner")),   # the child keeps the slot whose tid is its own
    ("C16.forkhooks", lambda c, r: __import__("sa.rules.lfht2", fromlist=["x"]).rule_lfht_forkhooks(c, r, "C16.forkhooks")),
    ("C16.workcb", lambda c, r: __import__("sa.rules.lfht2", fromlist=["x"]).rule_workcb(c, r, "C16.workcb")),
    ("C16.listtrav", lambda c, r: __import__("sa.rules.c15", fromlist=["x"]).rule_listtrav(c, r, "C16.listtrav")),   # the fork handlers visit every helper / registry chunk with these macros
]
FLOORS = {}
