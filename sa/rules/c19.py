"""C19 — read-side critical sections are safe inside signal handlers (memb, mb, bp) (structural part)."""
from .. import ir, mm, pat, paths, lockset
from ..core import Broken
from ..flavors import FL, PARITY
from . import c01, c17

META = {
    "explanation": "Reader operations (read_lock, read_unlock, read_ongoing) of memb, mb and bp (registered path) reach only async-signal-safe externals and take no mutex; each performs, per "
                   "path, exactly one plain store to the thread's reader word whose value derives from one earlier load of that word (±COUNT) or from gp.ctr, and no read-modify-write on it "
                   "(a handler interrupting anywhere sees and restores a consistent nesting count); the reader-side wake-up uses the async-signal-safe futex wrapper; in urcu-bp every "
                   "acquisition of rcu_registry_lock / rcu_gp_lock happens with all signals blocked and the mask is restored only after the locks are released (register, unregister, "
                   "synchronize_rcu, fork handlers), and urcu_bp_register re-checks the TLS reader pointer after blocking signals.",
    "not_decided": "per-instruction interruption semantics (that a handler at every instruction boundary leaves the state intact)",
}

META["explanation"] += " " + "Also: every mutex taken on the lazy-registration path (including the library initialiser's) is taken with all signals blocked."
SAFE_EXTERNALS = {"syscall", "__errno_location", "poll", "abort", "__assert_fail", "llvm.lifetime.start.p0i8", "llvm.lifetime.end.p0i8"}


def rule_safe(ctx, rep):
    for fl in PARITY:
        F = FL[fl]
        for op in ("read_lock", "read_unlock", "read_ongoing"):
            f = ctx.fn(F.lib, "%s_%s" % (F.pfx, op))
            rep.touch(f)
            eok = pat.block_edge_filter(c17.registered_edges(f)) if fl == "bp" else None
            bad = []
            for i in c17.reachable_insts(f, eok):
                if i.op == "call":
                    g = f.mod.fn(i.callee)
                    if g is None and i.callee not in SAFE_EXTERNALS:
                        bad.append(i)
                    if g is not None:
                        # defined callee: must itself be free of unsafe externals
                        for j in g.all_insts():
                            if j.op == "call" and f.mod.fn(j.callee) is None and j.callee not in SAFE_EXTERNALS:
                                bad.append(i)
                                break
                if i.op == "icall":
                    bad.append(i)
            rep.check(not bad, "C19.safe", "%s.%s" % (fl, op), "only async-signal-safe externals reachable (%s)" % sorted(set(i.callee for i in c17.reachable_insts(f, eok) if i.op == "call")),
                      "%s reaches %s, which is not async-signal-safe" % (op, sorted(set(getattr(b, "callee", "?") or "indirect call" for b in bad))), [b.where() for b in bad[:2]])


def rule_once(ctx, rep):
    for fl in PARITY:
        F = FL[fl]
        own = c01.own_ctr(F)
        for op in ("read_lock", "read_unlock"):
            f = ctx.fn(F.lib, "%s_%s" % (F.pfx, op))
            rep.touch(f)
            eok = pat.block_edge_filter(c17.registered_edges(f)) if fl == "bp" else None
            rm = [e for e in pat.accesses(f, F.rfield, ("rmw", "cmpxchg", "xchg"), pred=own)]
            rep.check(not rm, "C19.once", "%s.%s.no-rmw" % (fl, op), "the reader word is never the target of a read-modify-write", "reader word updated by an atomic RMW (%s): a handler between read and write is not the issue, but the plain-store discipline is the documented contract" % (rm[0].kind if rm else ""),
                      [e.inst.where() for e in rm])
            sts = [e.inst for e in pat.accesses(f, F.rfield, ("store",), pred=own)]
            lds = [e.inst for e in pat.accesses(f, F.rfield, ("load",), pred=own)]
            pat.require(sts and lds, "%s.%s: reader word accesses" % (fl, op))
            # per path: exactly one store
            for s in sts:
                hit, _ = f.reach([s], [x for x in sts], edge_ok=eok)
                rep.check(hit is None, "C19.once", "%s.%s.one-store@%d" % (fl, op, s.line), "no second store to the reader word on any path", "two stores to the reader word on one path: a handler in between observes an intermediate nesting state", [s.where()])
                e = ir.expr(f, s.args[0])
                ok = (e[0] == "load" and e[1].endswith(F.gpctr)) or (e[0] == "bin" and e[1] in ("add", "sub") and e[3][0] == "c" and e[2][0] == "load" and e[2][3] in [l.id for l in lds])
                rep.check(ok, "C19.once", "%s.%s.derived@%d" % (fl, op, s.line), "stored value = gp.ctr snapshot or (one earlier load of the word) ± COUNT", "stored value %s is not derived from a single load of the reader word" % ir.expr_str(e), [s.where()])
            rep.check(len(lds) == 1 or all(f.reach([a], [b], edge_ok=eok)[0] is None for a in lds for b in lds if a is not b), "C19.once", "%s.%s.one-load" % (fl, op),
                      "the reader word is loaded once per path", "the reader word is loaded twice on a path: the two reads can straddle a signal handler", [l.where() for l in lds])


def rule_async(ctx, rep):
    for fl in ("memb", "mb"):
        F = FL[fl]
        m = ctx.mod(F.lib, "perfn")
        g = m.fn("urcu_common_wake_up_gp")
        if g is None:
            raise Broken("%s: urcu_common_wake_up_gp vanished" % fl)
        rep.touch(g)
        cs = [c for c in g.calls() if c.callee.startswith("futex")]
        rep.check(bool(cs) and all(c.callee == "futex_async" for c in cs), "C19.async", fl, "reader-side wake-up goes through futex_async (the fallback takes no mutex)",
                  "reader-side wake-up uses %s: its ENOSYS fallback is not async-signal-safe" % sorted(set(c.callee for c in cs)), [c.where() for c in cs])
    m = ctx.mod("memb", "perfn")
    g = m.fn("compat_futex_async")
    if g is None:
        raise Broken("compat_futex_async vanished")
    rep.touch(g)
    mu = [c for c in g.calls() if c.callee.startswith("pthread_mutex") or c.callee.startswith("pthread_cond")]
    rep.check(not mu, "C19.async", "compat_futex_async.no-mutex", "the async fallback takes no mutex / condition variable", "compat_futex_async uses %s" % sorted(set(c.callee for c in mu)), [c.where() for c in mu[:1]])


BP_HANDOFF = {  # function -> (entry lockset, exit lockset)
    "urcu_bp_before_fork": (frozenset(), frozenset(["@rcu_gp_lock", "@rcu_registry_lock", lockset.SIGBLOCKED])),
    "urcu_bp_after_fork_parent": (frozenset(["@rcu_gp_lock", "@rcu_registry_lock", lockset.SIGBLOCKED]), frozenset()),
    "urcu_bp_after_fork_child": (frozenset(["@rcu_gp_lock", "@rcu_registry_lock", lockset.SIGBLOCKED]), frozenset()),
}


def rule_bp(ctx, rep):
    m = ctx.mod("bp", "flat")
    roots = ["urcu_bp_register", "urcu_bp_synchronize_rcu", "urcu_bp_thread_exit_notifier", "urcu_bp_before_fork", "urcu_bp_after_fork_parent", "urcu_bp_after_fork_child"]
    n = 0
    for name in roots:
        f = m.fn(name)
        if f is None:
            raise Broken("bp: %s vanished" % name)
        rep.touch(f)
        entry, exit_ = BP_HANDOFF.get(name, (frozenset(), frozenset()))
        must = lockset.compute(f, entry=entry)
        may = lockset.may_compute(f, entry=entry)
        for lk in ("rcu_registry_lock", "rcu_gp_lock"):
            for c in pat.mutex_calls(f, "pthread_mutex_lock", lk):
                n += 1
                rep.check(lockset.SIGBLOCKED in must.get(c.id, ()), "C19.bp", "%s.%s.blocked-at-lock@%d" % (name, lk, c.line), "all signals are blocked when %s is taken" % lk,
                          "%s is acquired with signals unblocked: a handler running rcu_read_lock() on this (unregistered) thread would self-deadlock on it" % lk, [c.where()])
        if name == "urcu_bp_register":
            # the lazy registration path is what a handler's rcu_read_lock() re-enters on a not-yet-registered thread:
            # *every* mutex it takes (registry lock, init_lock of the library constructor, ...) must be taken with signals blocked
            for c in f.calls("pthread_mutex_lock"):
                lk = lockset.lock_name(c)
                if lk in ("@rcu_registry_lock", "@rcu_gp_lock"):
                    continue
                n += 1
                rep.check(lockset.SIGBLOCKED in must.get(c.id, ()), "C19.bp", "%s.%s.blocked-at-lock" % (name, lk.lstrip("@")), "all signals are blocked when %s is taken on the registration path" % lk,
                          "%s is acquired on the lazy-registration path with signals unblocked: a handler whose rcu_read_lock() re-enters urcu_bp_register() on this thread "
                          "blocks forever on the non-recursive mutex" % lk, [c.where()])
        # the thread's TLS reader pointer decides whether a handler's rcu_read_lock() registers: it changes only while signals
        # are blocked, together with the slot it refers to (set after the slot is linked, cleared when the slot is released)
        for s_ in pat.stores(f, glob="urcu_bp_reader"):
            n += 1
            rep.check(lockset.SIGBLOCKED in must.get(s_.id, ()), "C19.bp", "%s.tls-update-blocked@%d" % (name, s_.line), "the TLS reader pointer is updated with all signals blocked",
                      "URCU_TLS(urcu_bp_reader) is written with signals unblocked: a handler running in between sees a pointer that disagrees with the registry "
                      "(stale slot no grace period scans, or double registration)", [s_.where()])
        # the set that is blocked is *all* signals, built right here: a thread-local object filled by a sigfillset() that dominates the
        # call - not a shared object whose content depends on some initialiser having already run on this path
        for c in pat.calls(f, "pthread_sigmask"):
            if ir.const_of(f, c.args[0]) != 0 or ir.const_of(f, c.args[1]) == 0:
                continue
            n += 1
            ap = c.d["aps"][1]
            inst = "%s.blocks-full-local-set@%d" % (name, c.line)
            if ap is None:
                rep.unk("C19.bp", inst, "cannot tell which set is blocked")
                continue
            if pat.base_global(ap):
                fills = [x for fn_ in m.defined() for x in fn_.calls("sigfillset") if x.d["aps"][0] and pat.base_global(x.d["aps"][0]) == pat.base_global(ap) and f.name == fn_.name and f.dominates(x, c)]
                rep.check(bool(fills), "C19.bp", inst, "blocks a set filled on this very path",
                          "blocks the shared object %s, which no sigfillset() on this path fills: when the path runs before the initialiser that fills it (a thread "
                          "registering from a constructor, or a fork hook before the first registration) the set is empty, no signal is blocked, and a handler's "
                          "rcu_read_lock() re-enters the registry lock" % pat.base_global(ap), [c.where()])
                continue
            fills = [x for x in f.calls("sigfillset") if x.d["aps"][0] and x.d["aps"][0]["base"] == ap["base"] and x.d["aps"][0]["steps"] == ap["steps"] and f.dominates(x, c)]
            empt = [x for x in f.all_insts() if x.op == "call" and x.callee in ("sigemptyset", "sigdelset") and x.d["aps"][0] and x.d["aps"][0]["base"] == ap["base"]]
            if fills and not empt:
                rep.ok("C19.bp", inst, "blocks a local set filled by a dominating sigfillset()")
            elif not fills and ap["base"][0] == "i" and not any(x.op == "call" and x.d.get("aps") and any(a and a["base"] == ap["base"] for a in x.d["aps"]) for x in f.all_insts() if x.id != c.id):
                rep.bad("C19.bp", inst, "blocks a local set nothing fills: the set of signals blocked around the registry lock is indeterminate", [c.where()])
            elif empt:
                rep.bad("C19.bp", inst, "the set blocked around the registry/gp lock has signals removed (%s): a handler for such a signal still runs inside the critical section" % empt[0].callee, [empt[0].where(), c.where()])
            else:
                rep.unk("C19.bp", inst, "the set blocked is not filled by a dominating sigfillset() in this function")
        for c in pat.calls(f, "pthread_sigmask"):
            if ir.const_of(f, c.args[0]) == 2:
                held = [x for x in may.get(c.id, ()) if x in ("@rcu_registry_lock", "@rcu_gp_lock") or (name == "urcu_bp_register" and x != lockset.SIGBLOCKED)]
                rep.check(not held, "C19.bp", "%s.restore-after-unlock@%d" % (name, c.line), "the signal mask is restored only after the locks are released",
                          "the signal mask is restored while %s may still be held: a pending signal is delivered inside the critical section" % held, [c.where()])
        for r in f.rets():
            if r.id in must:
                ok = must[r.id] == exit_ and may.get(r.id) == exit_
                rep.check(ok, "C19.bp", "%s.exit-state" % name, "returns with lock/mask state %s" % (sorted(exit_) or "released, mask restored"),
                          "returns with lock/mask state must=%s may=%s, expected %s" % (sorted(must[r.id]), sorted(may.get(r.id, ())), sorted(exit_)), [r.where()])
    pat.require(n >= 7, "bp: only %d lock acquisitions found" % n)
    # register re-checks the TLS pointer after blocking signals
    f = m.fn("urcu_bp_register")
    blk = [c for c in pat.calls(f, "pthread_sigmask") if ir.const_of(f, c.args[0]) == 0]
    adds = [s for s in pat.stores(f, glob="urcu_bp_reader")]
    pat.require(blk and adds, "bp register: anatomy")
    for s in adds:
        lv = pat.dom_leaf_atoms(f, s)
        ok = False
        for a in lv:
            if a[0] == "eq" and a[2] == ("c", 0) and a[1][0] == "load" and a[1][1] == "@urcu_bp_reader":
                ld = f.insts[a[1][3]]
                if any(f.dominates(b, ld) for b in blk):
                    ok = True
        rep.check(ok, "C19.bp", "register.recheck-after-block", "the TLS reader pointer is re-tested after signals were blocked, before add_thread",
                  "add_thread is not guarded by a re-test of the TLS reader pointer made after blocking signals: a handler that registered the thread in between is registered twice", [s.where()])
    # the saved mask is what after_fork restores
    for name in ("urcu_bp_after_fork_parent", "urcu_bp_after_fork_child"):
        f = m.fn(name)
        rs = [c for c in pat.calls(f, "pthread_sigmask") if ir.const_of(f, c.args[0]) == 2]
        pat.require(rs, "%s: mask restore" % name)
        src = [i for i in f.all_insts() if (i.op == "load" and pat.base_global(i.d["ap"]) == "saved_fork_signal_mask") or (i.op == "call" and i.callee.startswith("llvm.memcpy") and any(ap and pat.base_global(ap) == "saved_fork_signal_mask" for ap in i.d["aps"]))]
        rep.check(bool(src), "C19.bp", name + ".restores-saved-mask", "restores the mask saved by before_fork", "does not restore saved_fork_signal_mask", [rs[0].where()])


def rule_helpers(ctx, rep):
    """Threads the library creates itself (call_rcu helpers, the defer reclaimer, the hash table's resize worker and its per-partition
    helpers) never run an application signal handler: they are created while the creator has *all* signals blocked, so they start with
    a full mask - before they have registered as readers a handler's read-side section on them would be invisible to grace periods
    (README, `Interaction with signal handlers`).  Blocking only inside the new thread leaves its first instructions exposed."""
    n = 0
    for lib in ("memb", "mb", "qsbr", "bp", "cds"):
        m = ctx.mod(lib, "perfn")
        for f in m.defined():
            pcs = [i for i in f.all_insts() if i.op == "call" and i.callee == "pthread_create"]
            if not pcs:
                continue
            rep.touch(f)
            # helpers that block signals on behalf of their caller (all their returns are reached with the mask raised, the set filled by
            # sigfillset there) count as the blocking step
            summ = {}
            for h in m.defined():
                if h is f or not any(i.op == "call" and i.callee == "pthread_sigmask" for i in h.all_insts()):
                    continue
                mh = lockset.compute(h)
                rets = [r for r in h.rets() if r.id in mh]
                if rets and all(lockset.SIGBLOCKED in mh[r.id] for r in rets) and any(i.op == "call" and i.callee == "sigfillset" for i in h.all_insts()):
                    summ[h.name] = ((lockset.SIGBLOCKED,), ())
            must = lockset.compute(f, summaries=summ)
            for c in pcs:
                n += 1
                inst = "%s.%s@%d" % (lib, f.srcname, c.line)
                if not rep.check(lockset.SIGBLOCKED in must.get(c.id, ()), "C19.helpers", inst + ".created-masked", "the thread is created while the creator has signals blocked (it inherits the full mask)",
                                 "pthread_create() runs with the creator's ordinary signal mask: the new library thread can take an application signal before it has blocked signals / registered - "
                                 "a handler's rcu_read_lock() section on it is not waited for by any grace period", [c.where()]):
                    continue
                blk = [b for b in f.all_insts() if b.op == "call" and b.callee == "pthread_sigmask" and ir.const_of(f, b.args[0]) == 0 and f.dominates(b, c)]
                if not blk and any(x.op == "call" and x.callee in summ and f.dominates(x, c) for x in f.all_insts()):
                    rep.ok("C19.helpers", inst + ".full-set", "signals are blocked by a helper that fills the set with sigfillset()")
                for b in blk[-1:]:
                    ap = b.d["aps"][1]
                    fills = [x for x in f.calls("sigfillset") if ap is not None and x.d["aps"][0] and x.d["aps"][0]["base"] == ap["base"] and f.dominates(x, b)]
                    cut = [x for x in f.all_insts() if x.op == "call" and x.callee in ("sigemptyset", "sigdelset") and ap is not None and x.d["aps"][0] and x.d["aps"][0]["base"] == ap["base"]]
                    if fills and not cut:
                        rep.ok("C19.helpers", inst + ".full-set", "the set blocked around pthread_create is filled by sigfillset()")
                    elif cut:
                        rep.bad("C19.helpers", inst + ".full-set", "the set blocked around pthread_create has signals removed (%s): the new thread can run a handler for them" % cut[0].callee, [cut[0].where()])
                    else:
                        rep.unk("C19.helpers", inst + ".full-set", "the set blocked around pthread_create is not filled by a dominating sigfillset() in this function")
    pat.require(n >= 9, "only %d pthread_create sites found in the libraries" % n)
    # ... and the creator gets back exactly the mask it had: SIG_SETMASK of the set saved by the blocking call.  SIG_UNBLOCK of the full set (or
    # any other `restore`) unblocks signals the application had blocked on purpose - e.g. until it has registered the thread as a reader
    for lib in ("memb", "mb", "qsbr", "bp", "cds"):
        m = ctx.mod(lib, "perfn")
        for f in m.defined():
            sm = [i for i in f.all_insts() if i.op == "call" and i.callee == "pthread_sigmask"]
            if not sm:
                continue
            rep.touch(f)
            for c in sm:
                how = ir.const_of(f, c.args[0])
                inst = "%s.%s@%d" % (lib, f.srcname, c.line)
                if how == 1:
                    rep.bad("C19.helpers", inst + ".no-unblock", "pthread_sigmask(SIG_UNBLOCK, ...) in the library: signals the caller had blocked before entering the library are delivered inside / after the call - "
                            "a handler that uses RCU then runs on a thread the application was still keeping it away from (not yet registered)", [c.where()])
                elif how == 2:
                    # the set restored is one a SIG_BLOCK call of this function saved (its third argument), or - fork handlers - a saved global
                    sv = c.d["aps"][1]
                    savers = [b for b in sm if ir.const_of(f, b.args[0]) == 0 and b.d["aps"][2] is not None and sv is not None and b.d["aps"][2]["base"] == sv["base"] and b.d["aps"][2]["steps"] == sv["steps"]]
                    from_global = sv is not None and (pat.base_global(sv) is not None or sv["base"][0] == "a")
                    copied = sv is not None and any(i.op == "call" and i.callee.startswith("llvm.memcpy") and i.d["aps"][0] and i.d["aps"][0]["base"] == sv["base"] for i in f.all_insts())
                    handed = sv is not None and any(i.op == "call" and i.callee != "pthread_sigmask" and m.fn(i.callee) is not None and any(a_ is not None and a_["base"] == sv["base"] for a_ in i.d.get("aps", []))
                                                    and f.dominates(i, c) for i in f.all_insts())       # saved by a helper that received its address
                    if savers or from_global or copied or handed:
                        rep.ok("C19.helpers", inst + ".restores-saved-mask", "SIG_SETMASK restores a mask saved earlier")
                    else:
                        rep.unk("C19.helpers", inst + ".restores-saved-mask", "the set given to SIG_SETMASK is not one this function saved with its SIG_BLOCK call")


def rule_eintr(ctx, rep):
    """a handler interrupting synchronize_rcu()/rcu_barrier() makes their futex waits return EINTR: every wait re-checks
    its word before proceeding (shared with C02/C03/C04.waitloop)"""
    from .. import waitloop
    n = 0
    for fl in ("memb", "mb", "bp"):
        F = FL[fl]
        m = ctx.mod(F.lib, "perfn")
        for g in m.defined():
            ws = waitloop.wait_sites(g)
            if not ws or g.srcname in ("futex_async", "futex_noasync", "futex", "compat_futex_async", "compat_futex_noasync"):
                continue
            for k, w in enumerate(ws):
                n += 1
                waitloop.check(rep, "C19.eintr", "%s.%s.site%d" % (fl, g.srcname, k), g, w)
    pat.require(n >= 6, "only %d futex waits found" % n)


META["explanation"] += " " + 'Also (rounds 10-11): the set blocked around the registry / gp locks is a local filled by a dominating sigfillset(); every pthread_create of the libraries runs with all signals blocked in the creator.'

META["explanation"] += " " + 'Also (round 12): no SIG_UNBLOCK in the library; SIG_SETMASK restores a mask saved by the function (or a helper it handed the address to); nesting rules shared from C01.'

RULES = [
    ("C19.eintr", rule_eintr),
    ("C19.safe", rule_safe),
    ("C19.once", rule_once),
    ("C19.async", rule_async),
    ("C19.bp", rule_bp),
    ("C19.helpers", rule_helpers),
    ("C19.const", lambda c, r: pat.shared(__import__("sa.rules.c01", fromlist=["x"]).rule_const, "C19.const", lambda x: any(k in x["instance"] for k in ("read_lock", "read_unlock", "read_ongoing")) or x["status"] != "pass")(c, r)),   # nesting mask / count constants: a handler nests at any depth
    ("C19.nest", lambda c, r: pat.shared(__import__("sa.rules.c01", fromlist=["x"]).rule_rlock, "C19.nest", lambda x: "every-path" in x["instance"] or "nested-increment" in x["instance"] or x["status"] != "pass")(c, r)),   # a handler's lock / unlock pair, nested inside the interrupted section or not, leaves the nesting count as it found it only if each call moves it by exactly one level
    ("C19.nest", lambda c, r: pat.shared(__import__("sa.rules.c01", fromlist=["x"]).rule_runlock, "C19.nest", lambda x: "every-path" in x["instance"] or x["status"] != "pass")(c, r)),
]
FLOORS = {}
