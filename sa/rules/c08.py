"""C08 — hash table: sequential behaviour equals a reference multimap for all inputs (mostly N/A).
Only four structural clauses of its anchors are decided; functional equality is not."""
from . import lfht, c09

META = {
    "explanation": "Input-universal functional equality with a reference multimap is NOT decidable by static analysis and is not claimed. Decided structural clauses of its anchors: parameter validation "
                   "(power-of-two, non-zero) before any allocation and pow2+clamp of the initial size; every traversal/count/destroy function classifies a node as stored by the same predicate "
                   "on ->next; bucket selection and bucket reverse hashes (hash & (size-1), bit_reverse(index)); per-allocator alloc/free symmetry and complete mm tables; exactness of the bit-reversal table; "
                   "identical-hash chain placement of bucket nodes in _cds_lfht_add; atomic-step shapes of replace / unique add / del (shared with C06, C07), which are visible sequentially too.",
    "not_decided": "equality with a reference multimap for all operation sequences and inputs (input-universal: not applicable to this family)",
    "level_text": "Only necessary structural conditions are decided; the behavioural statement itself is declared not applicable to static analysis.",
}

META["explanation"] += " " + 'Also: clamp / power-of-two typestate of every resize_target store, iterator continuation discipline, emptiness walks classify every loaded word (destroy succeeds iff empty).'


META["explanation"] += " " + "Also (rounds 11-12): allocator discipline (only the default cds_lfht_alloc hooks call libc's allocator), whole-table walks start at bucket 0, destroy releases nothing before delete_bucket succeeded, create_bucket loop bounds."

META["explanation"] += " " + 'Also (round 14): a refused destroy leaves the caller as it found it - cds_lfht_is_empty releases the read lock / online state on every path.'

RULES = [
    ("C08.valid", lambda c, r: lfht.rule_valid(c, r, "C08.valid")),
    ("C08.class", lambda c, r: lfht.rule_class(c, r, "C08.class")),
    ("C08.bucket", lambda c, r: lfht.rule_bucket(c, r, "C08.bucket")),
    ("C08.chain", lambda c, r: lfht.rule_chain(c, r, "C08.chain")),
    ("C08.tables", lambda c, r: lfht.rule_mm(c, r, "C08.tables")),
    ("C08.newparams", lambda c, r: lfht.rule_newparams(c, r, "C08.newparams")),
    ("C08.rev", lambda c, r: lfht.rule_rev(c, r, "C08.rev")),
    ("C08.replace", lambda c, r: lfht.rule_replace(c, r, "C08.replace")),
    ("C08.unique", lambda c, r: lfht.rule_unique(c, r, "C08.unique")),
    ("C08.del", lambda c, r: lfht.rule_del(c, r, "C08.del")),
    ("C08.iter", lambda c, r: lfht.rule_iter(c, r, "C08.iter")),
    ("C08.bounds", lambda c, r: c09.rule_pow2(c, r, "C08")),
    ("C08.emptywalk", lambda c, r: lfht.rule_emptywalk(c, r, "C08.emptywalk")),
    ("C08.wqguard", lambda c, r: lfht.rule_wqguard(c, r, "C08.wqguard")),
    ("C08.bucketat", lambda c, r: lfht.rule_bucketat(c, r, "C08.bucketat")),
    ("C08.partition", lambda c, r: c09.rule_partition(c, r, "C08.partition")),
    ("C08.online", lambda c, r: lfht.rule_online(c, r, "C08.online")),   # destroy of a non-empty auto-resize table is refused (-EPERM) and leaves the caller as it found it: the emptiness check gives back the read-side lock / online state it took
    ("C08.mmapargs", lambda c, r: lfht.rule_mmapargs(c, r, "C08.mmapargs")),
    ("C08.addskel", lambda c, r: __import__("sa.rules.lfht2", fromlist=["x"]).rule_addskel(c, r, "C08.addskel")),
    ("C08.entry", lambda c, r: __import__("sa.rules.lfht2", fromlist=["x"]).rule_entry(c, r, "C08.entry")),
    ("C08.count_nodes", lambda c, r: __import__("sa.rules.lfht2", fromlist=["x"]).rule_count_nodes(c, r, "C08.count_nodes")),
    ("C08.del", lambda c, r: __import__("sa.rules.lfht2", fromlist=["x"]).rule_del(c, r, "C08.del")),
    ("C08.levels", lambda c, r: __import__("sa.rules.lfht2", fromlist=["x"]).rule_levels(c, r, "C08.levels")),
    ("C08.delbucket", lambda c, r: __import__("sa.rules.lfht2", fromlist=["x"]).rule_delete_bucket(c, r, "C08.delbucket")),
    ("C08.addprev", lambda c, r: __import__("sa.rules.lfht2", fromlist=["x"]).rule_addprev(c, r, "C08.addprev")),
    ("C08.partloops", lambda c, r: __import__("sa.rules.lfht2", fromlist=["x"]).rule_partloops(c, r, "C08.partloops")),
    ("C08.createbucket", lambda c, r: __import__("sa.rules.lfht2", fromlist=["x"]).rule_createbucket(c, r, "C08.createbucket")),
    ("C08.newfields", lambda c, r: __import__("sa.rules.lfht2", fromlist=["x"]).rule_newfields(c, r, "C08.newfields")),
    ("C08.destroy2", lambda c, r: __import__("sa.rules.lfht2", fromlist=["x"]).rule_destroy2(c, r, "C08.destroy2")),
    ("C08.explicit_resize", lambda c, r: __import__("sa.rules.lfht2", fromlist=["x"]).rule_explicit_resize(c, r, "C08.explicit_resize")),
    ("C08.count_approx", lambda c, r: __import__("sa.rules.lfht2", fromlist=["x"]).rule_count_approx(c, r, "C08.count_approx")),
    ("C08.mmcases", lambda c, r: __import__("sa.rules.lfht2", fromlist=["x"]).rule_mm_cases(c, r, "C08.mmcases")),
    ("C08.addreplace", lambda c, r: __import__("sa.rules.lfht2", fromlist=["x"]).rule_addreplace(c, r, "C08.addreplace")),   # what add_replace returns: NULL iff own node inserted, the old node only after a successful replace, retry otherwise
    ("C08.walkstart", lambda c, r: __import__("sa.rules.lfht2", fromlist=["x"]).rule_walkstart(c, r, "C08.walkstart")),   # whole-table walks start at bucket 0
    ("C08.rhinit", lambda c, r: __import__("sa.rules.lfht2", fromlist=["x"]).rule_rhinit(c, r, "C08.rhinit")),   # node->reverse_hash = bit_reverse_ulong(hash) before linking, in every entry point
    ("C08.alloc", lambda c, r: __import__("sa.rules.lfht2", fromlist=["x"]).rule_allocdiscipline(c, r, "C08.alloc")),   # memory of a table goes through its cds_lfht_alloc only
]
FLOORS = {}
