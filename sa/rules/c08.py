"""C08 — hash table: sequential behaviour equals a reference multimap for all inputs (mostly N/A).
Only four structural clauses of its anchors are decided; functional equality is not."""
from . import lfht

META = {
    "explanation": "Input-universal functional equality with a reference multimap is NOT decidable by static analysis and is not claimed. Decided structural clauses of its anchors: parameter validation "
                   "(power-of-two, non-zero) before any allocation and pow2+clamp of the initial size; every traversal/count/destroy function classifies a node as stored by the same predicate "
                   "on ->next; bucket selection and bucket reverse hashes (hash & (size-1), bit_reverse(index)); per-allocator alloc/free symmetry and complete mm tables; exactness of the bit-reversal table; "
                   "identical-hash chain placement of bucket nodes in _cds_lfht_add; atomic-step shapes of replace / unique add / del (shared with C06, C07), which are visible sequentially too.",
    "not_decided": "equality with a reference multimap for all operation sequences and inputs (input-universal: not applicable to this family)",
    "level_text": "Only necessary structural conditions are decided; the behavioural statement itself is declared not applicable to static analysis.",
}


def rule_chain(ctx, rep):
    """bucket node is linked before any node of identical reverse hash: the early exit of the
    insertion scan for bucket_flag compares reverse hashes of iter and node (not the raw hash)"""
    from .. import ir, pat
    a = lfht.fn(ctx, "_cds_lfht_add")
    rep.touch(a)
    found = 0
    for b in a.blocks:
        t = b.insts[-1]
        if t.op != "br" or len(b.succ) != 2:
            continue
        e = ir.expr(a, t.args[0], 8)
        lv = []
        pat.leaf_atoms(e if e[0] in ("icmp", "bin", "select") else ("icmp", "ne", e, ("c", 0)), True, lv)
        if any(x[0] == "ne" and x[1] == ("arg", 7) and x[2] == ("c", 0) for x in lv) and len(lv) >= 2:
            found += 1
            cmpv = [x for x in lv if x[0] == "eq" and x[1][0] == "load" and x[1][1].endswith(lfht.RH)]
            ok = bool(cmpv) and all(x[2][0] == "load" and x[2][1].endswith(lfht.RH) and x[2][1].startswith("arg5") for x in cmpv)
            rep.check(ok, "C08.chain", "add.bucket-first-in-chain", "a bucket node is inserted before nodes whose reverse hash equals its own reverse hash",
                      "bucket placement compares iter->reverse_hash with %s instead of node->reverse_hash: after a grow, nodes whose hash equals the new bucket index are linked before their bucket and become invisible to lookups"
                      % (ir.expr_str(cmpv[0][2]) if cmpv else "nothing"), [t.where()])
    pat.require(found >= 1, "_cds_lfht_add: bucket_flag early-exit test not found")


RULES = [
    ("C08.valid", lambda c, r: lfht.rule_valid(c, r, "C08.valid")),
    ("C08.class", lambda c, r: lfht.rule_class(c, r, "C08.class")),
    ("C08.bucket", lambda c, r: lfht.rule_bucket(c, r, "C08.bucket")),
    ("C08.chain", rule_chain),
    ("C08.tables", lambda c, r: lfht.rule_mm(c, r, "C08.tables")),
    ("C08.rev", lambda c, r: lfht.rule_rev(c, r, "C08.rev")),
    ("C08.replace", lambda c, r: lfht.rule_replace(c, r, "C08.replace")),
    ("C08.unique", lambda c, r: lfht.rule_unique(c, r, "C08.unique")),
    ("C08.del", lambda c, r: lfht.rule_del(c, r, "C08.del")),
]
FLOORS = {}
