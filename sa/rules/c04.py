"""C04 — rcu_barrier() returns only after all previously queued callbacks have run (partial)."""
from .. import ir, mm, pat, paths, lockset, waitloop
from ..core import Broken
from ..flavors import FL, ALL
from . import c01, c03

META = {
    "explanation": "All-paths rules over every flavor's rcu_barrier(), _rcu_barrier_complete() and the helper hand-over: counting helpers and queueing one completion marker on each "
                   "happen inside one uninterrupted call_rcu_mutex section (and a helper leaves the list only after its leftover callbacks were handed over, in the same section); "
                   "reference count = markers + 1 and barrier_count = markers; store-buffering pair between the waiter (futex dec, FULL, test barrier_count) and the last "
                   "completer (sub_return FULL, test futex, reset, wake); wait-loop shape and re-test of barrier_count after every wake-up; no access to the completion "
                   "after the reference is dropped; qsbr caller offline for the duration; only _call_rcu and the hand-over splice enqueue on helper queues (FIFO precondition).",
    "not_decided": "that every earlier callback has finished at return, as a property of histories",
}


def _fields(ap):
    return pat.full_ap_fields(ap)


def rule_cs(ctx, rep):
    for fl in ALL:
        F = FL[fl]
        f = ctx.fn(F.lib, F.pfx + "_barrier")
        rep.touch(f)
        ls = lockset.compute(f)
        walks = [i for i in f.all_insts() if i.op == "load" and ("@call_rcu_data_list" in ir.ap_str(f, i.d["ap"]) or pat.last_field(i.d["ap"]) == "cds_list_head.next" and "call_rcu_data.list" in ir.ap_str(f, i.d["ap"], 4))]
        enq = [e.inst for e in pat.accesses(f, None, ("xchg",)) if "call_rcu_data.cbs_tail" in _fields(e.ap)]
        if not enq:
            rep.bad("C04.cs", fl + ".markers", "rcu_barrier queues no completion marker", [f.name])
            continue
        pat.require(len(walks) >= 2, "%s: list traversals not found in rcu_barrier" % fl)
        bad = [i for i in walks + enq if "@call_rcu_mutex" not in ls.get(i.id, ())]
        rep.check(not bad, "C04.cs", fl + ".under-mutex", "%d list reads and %d marker enqueues all under call_rcu_mutex" % (len(walks), len(enq)),
                  "helper list walked / marker queued without call_rcu_mutex", [b.where() for b in bad[:2]])
        ul = pat.mutex_calls(f, "pthread_mutex_unlock", "call_rcu_mutex")
        first = min(walks, key=lambda i: i.id)
        hit, _ = f.reach([first], enq, avoid=lambda i: i in ul)
        hit_any, par = f.reach([first], enq, avoid=None)
        # every path from the counting walk to a marker enqueue must not pass an unlock
        blocked, par2 = f.reach(ul, enq)
        rep.check(blocked is None, "C04.cs", fl + ".one-section", "counting and marker queueing share one call_rcu_mutex section",
                  "call_rcu_mutex is released between counting the helpers and queueing the markers: a helper created or freed in between makes the count wrong", [u.where() for u in ul[:1]])
        # markers carry _rcu_barrier_complete
        # markers carry the completion callback: whatever its name, the function that counts barrier_count down
        mk = marker_cb(ctx, fl)
        fs = [s for s in pat.stores(f, "rcu_head.func") if ir.expr(f, s.args[0]) == ("fn", mk.name)]
        rep.check(bool(fs), "C04.cs", fl + ".marker-func", "markers run the completion callback %s (the function that counts barrier_count down)" % mk.name,
                  "marker callback is not the function that counts barrier_count down (%s)" % mk.name, [enq[0].where()])


def marker_cb(ctx, fl):
    """the completion callback of rcu_barrier's markers, identified by what it does (the only function besides rcu_barrier
    itself that decrements call_rcu_completion.barrier_count), not by its name"""
    F = FL[fl]
    m = ctx.mod(F.lib, "flat")
    c = [g for g in m.defined() if g.name != F.pfx + "_barrier" and pat.accesses(g, "call_rcu_completion.barrier_count", ("rmw",))]
    if len(c) != 1:
        raise Broken("%s: completion callback not identified (%s decrement barrier_count)" % (fl, [g.name for g in c]))
    return c[0]


def rule_count(ctx, rep):
    for fl in ALL:
        F = FL[fl]
        f = ctx.fn(F.lib, F.pfx + "_barrier")
        rep.touch(f)
        refs = [s for s in f.all_insts() if s.op == "store" and "call_rcu_completion.ref" in _fields(s.d["ap"])]
        bcs = pat.stores(f, "call_rcu_completion.barrier_count")
        pat.require(refs and bcs, "%s: refcount / barrier_count initialisation not found" % fl)
        for s in bcs:
            e = ir.expr(f, s.args[0])
            for r in refs:
                re_ = ir.expr(f, r.args[0])
                ok = re_[0] == "bin" and re_[1] == "add" and re_[3] == ("c", 1) and re_[2] == e
                rep.check(ok, "C04.count", fl + ".ref=count+1", "reference count = barrier_count + 1 (one per marker plus the waiter)",
                          "reference count %s vs barrier_count %s: completion freed early or leaked" % (ir.expr_str(re_), ir.expr_str(e)), [r.where(), s.where()])
            # count is a phi incremented once per element of the walked list
            ok2 = e[0] == "phi"
            if ok2:
                ph = f.insts[e[1]]
                incs = [ir.expr(f, x[0]) for x in ph.d["inc"]]
                ok2 = ("c", 0) in incs and any(x[0] == "bin" and x[1] == "add" and x[3] == ("c", 1) and x[2] == ("phi", ph.id) for x in incs)
            rep.check(ok2, "C04.count", fl + ".count-per-helper", "barrier_count counts one per list element", "barrier_count is not a per-helper count: %s" % ir.expr_str(e), [s.where()])
        # both walks use the same list head
        enq = [e.inst for e in pat.accesses(f, None, ("xchg",)) if "call_rcu_data.cbs_tail" in _fields(e.ap)]
        rep.must_pass("C04.count", fl + ".init≺markers", f, [f.entry()], enq, lambda i: i in bcs, include_start=True, what="barrier_count is set before any marker can complete")
        # each marker knows its completion before it is queued, and is queued with the completing callback
        links = [s_ for s_ in pat.stores(f, "call_rcu_completion_work.completion")]
        if not links:
            rep.bad("C04.count", fl + ".marker-linked", "the marker work item is queued without a pointer to the completion it reports to (the callback dereferences an unset pointer / never counts down)", [f.name])
        else:
            rep.must_pass("C04.count", fl + ".marker-linked", f, [f.entry()], enq, lambda i: i in links, include_start=True, what="work->completion is set before the marker is queued")
            fs = [s_ for s_ in pat.stores(f, "rcu_head.func")]
            okf = bool(fs) and all(ir.expr(f, s_.args[0])[0] == "fn" for s_ in fs)
            names = sorted(set(ir.expr(f, s_.args[0])[1] for s_ in fs if ir.expr(f, s_.args[0])[0] == "fn"))
            mods = f.mod
            cbs = [mods.fn(n_) for n_ in names]
            dec_ok = bool(cbs) and all(c_ is not None and any(e_.ap is not None and pat.last_field(e_.ap) == "call_rcu_completion.barrier_count" for e_ in pat.accesses(c_, None, ("rmw", "xchg"))) for c_ in cbs)
            rep.check(okf and dec_ok, "C04.count", fl + ".marker-fn", "the marker's callback (%s) counts barrier_count down" % names, "markers are queued with %s, which does not count barrier_count down: rcu_barrier never returns" % names, [s_.where() for s_ in fs[:1]])


def rule_sb(ctx, rep):
    for fl in ALL:
        F = FL[fl]
        f = ctx.fn(F.lib, F.pfx + "_barrier")
        rep.touch(f)
        dec = [e.inst for e in pat.accesses(f, "call_rcu_completion.futex", ("rmw",)) if pat.is_decrement(f, e)]
        bl = pat.loads(f, "call_rcu_completion.barrier_count")
        waits = [i for i in f.all_insts() if mm.is_futex(i, mm.FUTEX_WAIT) and pat.last_field(i.d["aps"][1]) == "call_rcu_completion.futex"]
        if not (dec and bl and waits):
            rep.bad("C04.sb", fl + ".waiter", "rcu_barrier lacks futex announce / barrier_count test / wait", [f.name])
            continue
        rep.must_pass("C04.sb", fl + ".dec≺FULL≺test", f, dec, bl, lambda i: mm.is_full(i) and i not in dec, what="FULL between announcing sleep and testing barrier_count (store→load)")
        rep.must_pass("C04.sb", fl + ".announce≺wait", f, [f.entry()], waits, lambda i: i in dec, include_start=True, what="sleep only after announcing it")
        rep.must_pass("C04.sb", fl + ".test≺wait", f, dec, waits, lambda i: i in bl, what="barrier_count re-tested between every announcement and sleep")
        # leaves the loop only along barrier_count == 0
        put = [e.inst for e in pat.accesses(f, None, ("rmw",)) if "call_rcu_completion.ref" in _fields(e.ap)]
        pat.require(put, "%s: urcu_ref_put not found in rcu_barrier" % fl)
        zero_edges = [(t.blk.id, s) for t, s, a in pat.branch_edges_on(f, lambda a: a[0] == "eq" and a[2] == ("c", 0) and a[1][0] == "load" and a[1][1].endswith("call_rcu_completion.barrier_count"))]
        rep.must_take_edge("C04.sb", fl + ".exit-only-when-zero", f, dec, put, zero_edges, include_start=False,
                           what="the waiter drops its reference only after observing barrier_count == 0 (a spurious wake-up re-enters the loop)")
        # completer
        m = ctx.mod(F.lib, "flat")
        c = marker_cb(ctx, fl)
        rep.touch(c)
        sub = [e.inst for e in pat.accesses(c, "call_rcu_completion.barrier_count", ("rmw",))]
        fl_ld = pat.loads(c, "call_rcu_completion.futex")
        wk = [i for i in c.all_insts() if mm.is_futex(i, mm.FUTEX_WAKE)]
        if not (sub and fl_ld and wk):
            rep.bad("C04.sb", fl + ".completer", "_rcu_barrier_complete lacks sub_return / futex test / wake", [c.name])
            continue
        rep.check(all(mm.is_full(x) for x in sub), "C04.sb", fl + ".sub-full", "barrier_count decrement is FULL", "barrier_count decrement is not a FULL barrier", [x.where() for x in sub])
        e = mm.effect_of(sub[0])
        rep.check(e.rop == "xadd" and ir.const_of(c, e.val) == -1, "C04.sb", fl + ".sub-one", "decrements by exactly one", "decrement is %s %s" % (e.rop, ir.const_of(c, e.val)), [sub[0].where()])
        # wake only by the last completer (result == 0)
        for w in wk:
            g = any(a[0] == "eq" and a[2] == ("c", 0) and ir.expr_contains(a[1], lambda x: x[0] == "asm" and x[2] == sub[0].id) for a in pat.dom_leaf_atoms(c, w))
            rep.check(g, "C04.sb", fl + ".last-wakes", "only the completer that brings barrier_count to 0 wakes the waiter", "wake-up not guarded by barrier_count reaching 0", [w.where()])


def rule_ref(ctx, rep):
    for fl in ALL:
        F = FL[fl]
        m = ctx.mod(F.lib, "flat")
        c = marker_cb(ctx, fl)
        rep.touch(c)
        put = [e.inst for e in pat.accesses(c, None, ("rmw",)) if "call_rcu_completion.ref" in _fields(e.ap)]
        pat.require(put, "%s: urcu_ref_put not found in _rcu_barrier_complete" % fl)
        base = mm.effect_of(put[0]).ap["base"]
        after = c.reachable_set(put)
        # accesses through `completion` after put, other than the free of the releasing path
        bad = []
        for i in c.all_insts():
            if i.id not in after:
                continue
            if i.op in ("load", "store") and i.d["ap"]["base"] == base:
                bad.append(i)
            if i.op == "asm" and any(ap is not None and ap["base"] == base for ap in i.d["aps"]):
                bad.append(i)
            if mm.is_futex(i) and i.d["aps"][1] is not None and i.d["aps"][1]["base"] == base:
                bad.append(i)
        rep.check(not bad, "C04.ref", fl + ".complete.no-use-after-put", "completion is not touched after its reference is dropped",
                  "completion accessed after urcu_ref_put (the waiter may already have freed it)", [b.where() for b in bad[:2]])
        frw = [x for x in pat.calls(c, "free") if x.d["aps"][0] and "call_rcu_completion_work" in ir.ap_str(c, x.d["aps"][0], 3) or (x.d["aps"][0] and x.d["aps"][0]["base"] == ["a", 0])]
        wl = pat.loads(c, "call_rcu_completion_work.completion")
        if frw and wl:
            back, _ = c.reach(frw, wl)
            rep.check(back is None, "C04.ref", fl + ".complete.work-read-before-free", "work->completion is read before free(work)", "work read after free(work)", [frw[0].where()])
        f = ctx.fn(F.lib, F.pfx + "_barrier")
        put = [e.inst for e in pat.accesses(f, None, ("rmw",)) if "call_rcu_completion.ref" in _fields(e.ap)]
        if not put:
            rep.bad("C04.ref", fl + ".barrier.drops-its-reference", "rcu_barrier never drops its own reference on the completion (count starts at helpers + 1): the completion object is never freed - "
                    "and with the count off by one no marker is the last one", [f.name])
            continue
        base = mm.effect_of(put[0]).ap["base"]
        after = f.reachable_set(put)
        bad = [i for i in f.all_insts() if i.id in after and i.op in ("load", "store") and i.d["ap"]["base"] == base]
        rep.check(not bad, "C04.ref", fl + ".barrier.no-use-after-put", "rcu_barrier does not touch the completion after dropping its reference",
                  "rcu_barrier accesses the completion after urcu_ref_put", [b.where() for b in bad[:2]])


def rule_urcuref(ctx, rep, rid="C04.urcuref"):
    """urcu_ref (witness/ref.c), the count that decides who frees the completion object: put = one atomic decrement by 1, the
    release callback runs exactly for the caller that brought the count to 0, on the object itself; get = CAS loop installing
    old + 1 that succeeds only when the CAS returned the expected value and retries with the value returned; init = 1."""
    m = ctx.mod("w_ref", "flat")
    f = m.fn("w_ref_put")
    if f is None:
        raise Broken("witness w_ref_put missing")
    rep.touch(f)
    dec = [e for e in pat.accesses(f, "urcu_ref.refcount", ("rmw",))]
    ic = [i for i in f.all_insts() if i.op == "icall"]
    if len(dec) != 1 or not pat.is_decrement(f, dec[0]) or dec[0].ap["base"] != ["a", 0]:
        rep.bad(rid, "put.decrement", "urcu_ref_put is not a single atomic decrement by one of ref->refcount (%s)" % [(e.rop, ir.const_of(f, e.val)) for e in dec], [f.name])
    else:
        rep.ok(rid, "put.decrement", "one atomic decrement by 1", [dec[0].inst.where()])
        if not ic:
            rep.bad(rid, "put.release", "urcu_ref_put never calls the release function: the last reference leaks the object (rcu_barrier's completion, the marker work items)", [f.name])
        for i in ic:
            lv = pat.dom_leaf_atoms(f, i)
            zero = any(a[0] == "eq" and a[2] == ("c", 0) and ir.expr_contains(a[1], lambda z: z[0] in ("asm", "rmw") and z[-1] == dec[0].inst.id) for a in lv)
            rep.check(zero, rid, "put.release-on-zero", "release() runs exactly when the decrement brought the count to 0", "release() is not tied to the count reaching 0 (%s): the object is freed while references remain, or never" % [ir.atom_str(a) for a in lv][:3], [i.where()])
            rep.check(ir.expr(f, i.d["fp"], 2) == ("arg", 1) and ir.expr(f, i.args[0], 2) == ("arg", 0), rid, "put.release-args", "release(ref) through the caller's function", "release called as %s(%s)" % (ir.expr_str(ir.expr(f, i.d["fp"], 2)), ir.expr_str(ir.expr(f, i.args[0], 2))), [i.where()])
            rep.must_pass(rid, "put.dec≺release", f, [f.entry()], [i], lambda x: x is dec[0].inst, include_start=True, what="the count is decremented before release")
        nz = [(t.blk.id, s_) for t, s_, a in pat.branch_edges_on(f, lambda a: a[0] == "ne" and a[2] == ("c", 0) and ir.expr_contains(a[1], lambda z: z[0] in ("asm", "rmw") and z[-1] == dec[0].inst.id))]
        for b_, s_ in nz:
            hit, _ = f.reach([f.blocks[s_].insts[0]], ic, include_start=True)
            rep.check(hit is None, rid, "put.no-release-if-nonzero", "no release while references remain", "release() reachable although the count did not reach 0", [f.blocks[b_].insts[-1].where()])
    for name, stops in (("w_ref_get_safe", {0x7fffffffffffffff}), ("w_ref_get_unless_zero", {0, 0x7fffffffffffffff})):
        g = m.fn(name)
        if g is None:
            raise Broken("witness %s missing" % name)
        rep.touch(g)
        cx = [e for e in pat.accesses(g, "urcu_ref.refcount", ("cmpxchg",))]
        if len(cx) != 1:
            rep.bad(rid, name[2:] + ".cas", "%s does not update the count by one compare-and-swap" % name[2:], [g.name])
            continue
        c = cx[0]
        exp, new = ir.expr(g, c.exp, 4), ir.expr(g, c.new, 4)
        rep.check(new == ("bin", "add", exp, ("c", 1)), rid, name[2:] + ".plus-one", "installs expected + 1", "installs %s for expected %s" % (ir.expr_str(new), ir.expr_str(exp)), [c.inst.where()])
        for p_, atoms, v in paths.ret_cases(g):
            ok_cas = any(a[0] == "eq" and any(isinstance(z, tuple) and z[0] == "asm" and z[-1] == c.inst.id for z in (a[1], a[2])) for a in atoms)
            if v is not None and v[0] == "c" and v[1] != 0:
                rep.check(ok_cas, rid, name[2:] + ".true-iff-cas-succeeded", "returns true only when the CAS returned the expected value", "returns true on a path where the CAS is not known to have succeeded: the caller uses an object it holds no reference to", [g.rets()[0].where()])
            elif v == ("c", 0):
                okstop = any((a[0] == "eq" and a[2][0] == "c" and a[2][1] in stops) or (a[0] == "in" and set(a[2]) <= stops) for a in atoms) and not ok_cas
                rep.check(okstop, rid, name[2:] + ".false-only-at-limit", "returns false only at %s" % sorted(stops), "returns false on %s" % [ir.atom_str(a) for a in atoms][:3], [g.rets()[0].where()])
        # ... and at each limit it does return false: the CAS is attempted only when the expected value is known to differ from every limit
        # (a reference taken from count 0 revives an object whose release callback has already run; LONG_MAX + 1 wraps negative)
        for st_ in sorted(stops):
            ex_edges = [(t.blk.id, s_) for t, s_, a in pat.branch_edges_on(g, lambda a, st_=st_: len(a) == 3 and ((a[0] == "ne" and a[2] == ("c", st_)) or (a[0] == "notin" and st_ in a[2])))]
            excl = bool(ex_edges) and g.reach([g.entry()], [c.inst], edge_ok=pat.block_edge_filter(ex_edges), include_start=True)[0] is None
            rep.check(excl, rid, name[2:] + ".refuses-at-%s" % ("0" if st_ == 0 else "LONG_MAX"), "no CAS is attempted from the count %s" % ("0" if st_ == 0 else "LONG_MAX"),
                      "%s attempts its CAS although the count may be %s: %s" % (name[2:], "0" if st_ == 0 else "LONG_MAX", "a reference is taken on an object whose last reference is gone (release already ran / is running)" if st_ == 0 else "the count overflows"), [c.inst.where()])
        ph = g.inst_of(ir.strip_casts(g, c.exp))
        if ph is not None and ph.op == "phi":
            incs = [ir.expr(g, v_, 3) for v_, _b in ph.d["inc"]]
            okr = any(x[0] == "asm" and x[-1] == c.inst.id for x in incs) and any(x[0] == "load" for x in incs)
            rep.check(okr, rid, name[2:] + ".retry-with-returned", "a failed CAS retries with the value it returned", "the expected value of the retry is %s" % [ir.expr_str(x) for x in incs], [c.inst.where()])
        else:
            rep.bad(rid, name[2:] + ".retry-with-returned", "the CAS expects a value fixed before the loop: after one failure it can never succeed", [c.inst.where()])
    gi = m.fn("w_ref_init")
    if gi is not None:
        rep.touch(gi)
        st = [s_ for s_ in pat.stores(gi, "urcu_ref.refcount")]
        rep.check(len(st) == 1 and ir.const_of(gi, st[0].args[0]) == 1, rid, "init=1", "urcu_ref_init sets the count to 1 (the creator's reference)", "urcu_ref_init sets the count to %s" % [ir.const_of(gi, s_.args[0]) for s_ in st], [gi.name])


def rule_offline(ctx, rep):
    F = FL["qsbr"]
    f = ctx.fn("qsbr", "urcu_qsbr_barrier")
    rep.touch(f)
    own = c01.own_ctr(F)
    off = [e.inst for e in pat.accesses(f, F.rfield, ("store",), pred=own) if ir.const_of(f, e.val) == 0] + pat.calls(f, "urcu_qsbr_thread_offline")
    on = [e.inst for e in pat.accesses(f, F.rfield, ("store",), pred=own) if ir.const_of(f, e.val) != 0] + pat.calls(f, "urcu_qsbr_thread_online")
    waits = [i for i in f.all_insts() if mm.is_futex(i, mm.FUTEX_WAIT)]
    if not off or not on:
        rep.bad("C04.offline", "qsbr", "rcu_barrier never takes an online caller offline: the grace periods it waits for wait for the caller", [f.name])
        return
    online_edges = set((t.blk.id, s) for t, s, a in pat.branch_edges_on(f, lambda a: a[0] == "eq" and a[2] == ("c", 0) and a[1][0] == "load" and a[1][1].endswith(F.rfield)))
    eok = pat.block_edge_filter(online_edges)
    rep.must_pass("C04.offline", "qsbr.offline≺wait", f, [f.entry()], waits, lambda i: i in off, include_start=True, edge_ok=eok, what="an online caller goes offline before waiting")
    rep.must_pass("C04.offline", "qsbr.back-online", f, off, None, lambda i: i in on, to_exit=True, edge_ok=eok, what="a caller taken offline is online again on every return path")
    # typestate, not just order: once the caller has been put back online nothing in rcu_barrier blocks any more - neither the futex wait
    # nor call_rcu_mutex (whose holder, e.g. call_rcu_before_fork, may itself be waiting for helpers that wait for this reader)
    blocks = waits + [c for c in f.calls("pthread_mutex_lock")] + [c for c in f.calls("poll")]
    hit, par = f.reach(on, blocks, avoid=lambda i: i in off)
    rep.check(hit is None, "C04.offline", "qsbr.blocks-only-offline", "after going back online rcu_barrier reaches no mutex / futex wait",
              "rcu_barrier blocks (%s) after the caller was put back online: a grace period started by a helper waits for the caller, while the caller waits for that helper (or for the holder of "
              "call_rcu_mutex that waits for it) - rcu_barrier() never returns" % (hit.callee if hit is not None and hit.op == "call" else "futex wait"), [hit.where()] if hit is not None else [])


def rule_fifo(ctx, rep):
    for fl in ALL:
        F = FL[fl]
        m = ctx.mod(F.lib, "perfn")
        who = set()
        for g in m.defined():
            for e in pat.accesses(g, None, ("xchg", "store", "cmpxchg", "rmw")):
                fl_ = _fields(e.ap)
                if "call_rcu_data.cbs_tail" in fl_ or "call_rcu_data.cbs_head" in fl_:
                    who.add(g.name)
            for c in g.calls():
                if c.callee in ("cds_wfcq_enqueue", "_cds_wfcq_enqueue", "__cds_wfcq_splice_blocking", "___cds_wfcq_splice_blocking", "_cds_wfcq_init", "cds_wfcq_init") and any(
                        ap is not None and ("call_rcu_data.cbs_tail" in _fields(ap) or "call_rcu_data.cbs_head" in _fields(ap)) for ap in c.d["aps"]):
                    who.add(g.name)
        allowed = {"_call_rcu", "call_rcu_thread", "_call_rcu_data_free", "call_rcu_data_init"}
        rep.check(who <= allowed and "_call_rcu" in who, "C04.fifo", fl + ".who-enqueues", "helper queues are touched only by %s" % sorted(who),
                  "helper queue modified from %s" % sorted(who - allowed), sorted(who - allowed))


def rule_waitloop(ctx, rep):
    for fl in ALL:
        F = FL[fl]
        m = ctx.mod(F.lib, "perfn")
        g = m.fn("call_rcu_completion_wait")
        if g is None:
            raise Broken("%s: call_rcu_completion_wait vanished" % fl)
        ws = waitloop.wait_sites(g)
        if not ws:
            rep.bad("C04.waitloop", fl, "call_rcu_completion_wait no longer sleeps on its futex", [g.name])
        for k, w in enumerate(ws):
            waitloop.check(rep, "C04.waitloop", "%s.site%d" % (fl, k), g, w)


def rule_listcs(ctx, rep):
    """a helper leaves call_rcu_data_list only after its leftover callbacks were handed over, in one section (shared with C03.handover)"""
    class Sub:
        pass
    n0 = len(rep.results)
    c03.rule_handover(ctx, rep)
    keep = [r for r in rep.results[n0:] if r["rule"].startswith("C04.")]
    for r in rep.results[n0:]:
        if any(k in r["instance"] for k in ("wake-default", ".qlen", "splice-under-mutex", ".splice")) and not r["rule"].startswith("C04."):
            r = dict(r)
            r["rule"] = "C04.handover"
            r["key"] = r["key"].replace("C03.handover", "C04.handover")
            keep.append(r)
    del rep.results[n0:]
    rep.results += keep
    if not keep:
        raise Broken("hand-over rules produced no C04 instance")


def rule_wake(ctx, rep):
    """call_rcu_completion_wake_up: reset the completion's futex word before FUTEX_WAKE, only when it is -1 (all flavors)"""
    for fl in ALL:
        F = FL[fl]
        waitloop.check_wakers(rep, "C04.wake", fl, ctx.mod(F.lib, "perfn"), lambda name, ap: name == "call_rcu_completion.futex")


LIST_PRIMS = ("cds_list_add", "cds_list_add_tail", "__cds_list_del", "cds_list_del", "cds_list_splice", "cds_list_move")


def rule_listwho(ctx, rep):
    """rcu_barrier() finds the helpers through call_rcu_data_list: a helper is on the list from before it can receive a
    callback.  T8: the list is extended only by call_rcu_data_init (under call_rcu_mutex, before the helper pointer is published
    and before its thread exists) and shortened only by _call_rcu_data_free; T2: in call_rcu_data_init the list insertion precedes
    the publication of the helper and the creation of its thread."""
    for fl in ALL:
        F = FL[fl]
        m = ctx.mod(F.lib, "flat")
        adders, removers = {}, {}
        for f in m.defined():
            for i in f.all_insts():
                if i.op != "store":
                    continue
                ch = i.scope_chain
                if ch[0] not in LIST_PRIMS:
                    continue
                where = next((c for c in ch if c not in LIST_PRIMS), ch[-1])
                aps = ir.ap_str(f, i.d["ap"])
                val = ir.expr_str(ir.expr(f, i.args[0], 3))
                if "call_rcu_data_list" in aps or "call_rcu_data_list" in val:
                    (adders if ch[0] in ("cds_list_add", "cds_list_add_tail") else removers).setdefault(where, []).append(i)
                    rep.touch(f)
        pat.require(adders, "%s: no insertion into call_rcu_data_list found" % fl)
        extra = sorted(set(adders) - {"call_rcu_data_init"})
        still_there = any("call_rcu_data_init" in i.scope_chain for f_ in m.defined() for i in f_.all_insts())
        if extra and "call_rcu_data_init" not in adders and not still_there:
            raise Broken("%s: call_rcu_data_list is extended by %s and call_rcu_data_init no longer does: renamed? table needs re-confirmation" % (fl, extra))
        rep.check(not extra, "C04.who", fl + ".list-extended-by", "helpers are put on call_rcu_data_list only by call_rcu_data_init",
                  "call_rcu_data_list is also extended in %s: a helper that links itself later can already hold callbacks that rcu_barrier() does not see" % extra,
                  [adders[x][0].where() for x in extra][:2])
        for root in (F.pfx + "_create_call_rcu_data", F.pfx + "_get_default_call_rcu_data"):
            f = m.fn(root)
            if f is None:
                continue
            ins = [i for i in f.all_insts() if i.op == "store" and i.scope_chain[0] in ("cds_list_add",) and "call_rcu_data_init" in i.scope_chain]
            pc = [c for c in f.calls("pthread_create") if "call_rcu_data_init" in c.scope_chain]
            pub = [s_ for s_ in f.all_insts() if s_.op == "store" and s_.scope_chain[0] == "call_rcu_data_init" and s_.d["order"] in ("release", "seq_cst")]
            if not ins or not pc:
                continue
            rep.must_pass("C04.who", "%s.%s.listed≺thread" % (fl, root), f, [f.entry()], pc, lambda i: i in ins, include_start=True,
                          what="the helper is on call_rcu_data_list before its thread is created")
            if pub:
                rep.must_pass("C04.who", "%s.%s.listed≺published" % (fl, root), f, [f.entry()], pub, lambda i: i in ins, include_start=True,
                              what="the helper is on call_rcu_data_list before its pointer is published to callers")


def rule_parked(ctx, rep):
    """rcu_barrier() in a fork child only sees what the inherited *shared* queues hold (shared with C16.pause): a helper never
    acknowledges PAUSED while it holds a privately spliced batch."""
    from . import c16
    n0 = len(rep.results)
    c16.rule_pause(ctx, rep)
    keep = []
    for r in rep.results[n0:]:
        if "parks-empty-handed" in r["instance"] and "workqueue" not in r["instance"]:
            r = dict(r)
            r["key"] = r["key"].replace(r["rule"], "C04.parked")
            r["rule"] = "C04.parked"
            keep.append(r)
    del rep.results[n0:]
    rep.results += keep
    pat.require(keep, "parks-empty-handed instances vanished")


META["explanation"] += " " + 'Also (rounds 10-11): wake-up order of the helper / completion futex (reset before FUTEX_WAKE), and after the caller is put back online rcu_barrier reaches no mutex lock, poll or futex wait.'

META["explanation"] += " " + 'Also (round 12): fork-child rebuild of helpers (shared from C16); urcu_ref never attempts its CAS from a limit value.'

META["explanation"] += " " + 'Also (round 14): before_fork asks and waits for every listed helper, whatever its queue holds (shared from C16.pause).'

RULES = [
    ("C04.cs", rule_cs),
    ("C04.cs", rule_listcs),
    ("C04.count", rule_count),
    ("C04.sb", rule_sb),
    ("C04.waitloop", rule_waitloop),
    ("C04.ref", rule_ref),
    ("C04.urcuref", rule_urcuref),
    ("C04.offline", rule_offline),
    ("C04.fifo", rule_fifo),
    ("C04.wake", rule_wake),
    ("C04.who", rule_listwho),
    ("C04.parked", rule_parked),
    ("C04.wakeorder", lambda c, r: pat.shared(__import__("sa.rules.c03", fromlist=["x"]).rule_enq, "C04.wakeorder", lambda x: ("reset≺wake" in x["instance"] or "FULL≺test" in x["instance"] or "enqueue≺" in x["instance"]) or x["status"] != "pass")(c, r)),   # the barrier's marker callbacks and its completion are delivered through these wake-ups: word reset before FUTEX_WAKE, or a helper/barrier that re-arms in between sleeps forever
    ("C04.pause", lambda c, r: pat.shared(__import__("sa.rules.c16", fromlist=["x"]).rule_pause, "C04.pause", lambda x: "before." in x["instance"] or x["status"] != "pass")(c, r)),   # rcu_barrier() in a fork child: a helper that was not parked across fork() leaves its spliced-out batch and its reader registration behind
    ("C04.child", lambda c, r: __import__("sa.rules.c16", fromlist=["x"]).rule_child(c, r, "C04.child", callrcu_only=True)),   # rcu_barrier() in a fork child: every inherited helper (default or not) is replaced by a live one or emptied, or the barrier waits on a thread that does not exist
]
FLOORS = {}
