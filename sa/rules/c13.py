"""C13 — defer_rcu(): calls run once, in order, exact arguments, after a grace period (partial)."""
from .. import ir, mm, pat, paths, lockset, waitloop
from ..core import Broken
from ..flavors import FL, ALL
from ..regpair import check_regpair

META = {
    "explanation": "Sibling agreement between the defer-queue encoder (_defer_rcu) and decoder (rcu_defer_barrier_queue): three forms, their guards, "
                   "the constants DQ_FCT_BIT / DQ_FCT_MARK and slots per form; ring capacity arithmetic (flush threshold vs. maximum slots per call); "
                   "head snapshot ≺ synchronize_rcu ≺ invocation and who may invoke through last_fct_out; ring publish/consume ordering and the "
                   "store-buffering pair with the reclaimer's futex; reclaimer wait-loop shape; locksets; register/unregister typestate "
                   "(fields asserted at registration are re-established by unregistration); unregister flush order.",
    "not_decided": "exactly-once / in-order execution as a property of histories",
}


def _defer_fns(ctx, fl):
    F = FL[fl]
    return F, dict(rcu=ctx.fn(F.lib, F.pfx + "_defer_rcu"), barrier=ctx.fn(F.lib, F.pfx + "_defer_barrier"),
                   bthread=ctx.fn(F.lib, F.pfx + "_defer_barrier_thread"), reg=ctx.fn(F.lib, F.pfx + "_defer_register_thread"),
                   unreg=ctx.fn(F.lib, F.pfx + "_defer_unregister_thread"))


def is_ring_slot(ap):
    """access to q[...] of a defer queue: base is a load of <x>.defer_queue.q, indexed"""
    if not ap or not ap["steps"]:
        return False
    b = ap["base"]
    return "[" in ap["steps"][-1] and b[0] == "i"


def ring_accesses(f, kind):
    out = []
    for i in f.all_insts():
        if i.op != kind:
            continue
        ap = i.d["ap"]
        if not is_ring_slot(ap):
            continue
        bi = f.insts[ap["base"][1]]
        if bi.op == "load" and pat.last_field(bi.d["ap"]) == "defer_queue.q":
            out.append(i)
    return out


def leaves_false(e, out):
    """icmp leaves that must be false when boolean expression e is false"""
    if e[0] == "icmp" and e[1] in ("ne", "eq") and e[3] == ("c", 0) and e[2][0] in ("select", "bin", "icmp") and _boolish(e[2]):
        if e[1] == "ne":
            return leaves_false(e[2], out)
        out.append(("?", e))
        return
    if e[0] == "select" and e[2][0] == "c" and e[2][1] != 0:
        leaves_false(e[1], out)
        leaves_false(e[3], out)
        return
    if e[0] == "bin" and e[1] == "or":
        leaves_false(e[2], out)
        leaves_false(e[3], out)
        return
    out.append(e)


def _boolish(e):
    if e[0] == "icmp":
        return True
    if e[0] == "select":
        return all(x[0] == "c" or _boolish(x) for x in (e[2], e[3]))
    if e[0] == "bin" and e[1] in ("or", "and", "xor"):
        return _boolish(e[2]) and (_boolish(e[3]) or e[3][0] == "c")
    return False


def rule_codec(ctx, rep):
    for fl in ALL:
        F, fn = _defer_fns(ctx, fl)
        f = fn["rcu"]
        rep.touch(f)
        ring_st = ring_accesses(f, "store")
        pat.require(len(ring_st) >= 4, "%s: fewer than 4 ring stores in %s" % (fl, f.name))
        head_st = pat.stores(f, "defer_queue.head")
        pat.require(head_st, "%s: no head store in %s" % (fl, f.name))
        forms = {}
        BIT = MARK = None
        stop = lambda blk: any(i in head_st for i in blk.insts)
        for p in paths.enum_paths(f, stop=stop):
            if not stop(f.blocks[p[-1]]):
                continue
            atoms = paths.path_atoms(f, p)
            sts = [i for b in p for i in f.blocks[b].insts if i in ring_st]
            vals = [paths.expr_on_path(f, s.args[0], p) for s in sts]
            false_leaves = []
            for a in atoms:
                # reconstruct boolean expr of the atom when it is "X eq 0" on a boolish X
                if a[0] == "eq" and a[2] == ("c", 0):
                    leaves_false(a[1], false_leaves)
                elif a[0] in ("ne",) and a[2] == ("c", 0):
                    # a conjunction known TRUE (`!BIT(x) && x != MARK`) says the same as its negated leaves being false
                    tl = []
                    if a[1][0] in ("select", "bin", "icmp") and _boolish(a[1]):
                        pat.leaf_atoms(("icmp", "ne", a[1], ("c", 0)), True, tl)
                    for x in tl:
                        if len(x) == 3 and x[0] in ("eq", "ne"):
                            false_leaves.append(("icmp", "ne" if x[0] == "eq" else "eq", x[1], x[2]))
                elif a[0] in NEGP:
                    false_leaves.append(("icmp", NEGP[a[0]], a[1], a[2]))
            forms.setdefault(len(vals), []).append((p, vals, false_leaves, atoms))
        rep.check(set(forms) == {1, 2, 3}, "C13.codec", fl + ".enc.forms", "encoder has the three forms (1, 2, 3 ring slots)",
                  "encoder paths store %s ring slots, expected exactly {1,2,3}" % sorted(forms), [f.name])
        for n, lst in sorted(forms.items()):
            for p, vals, fl_leaves, atoms in lst:
                site = [f.blocks[p[-1]].insts[-1].where()]
                lv = set(_leaf_key(x) for x in fl_leaves)
                if n == 1:
                    ok = vals[0] == ("arg", 1)
                    need = {("and1", 1), ("eqc", 1)}
                    got = set(k[:2] for k in lv if k[0] in ("and1", "eqc"))
                    marks = [k[2] for k in lv if k[0] == "eqc" and k[1] == 1]
                    rep.check(ok and need <= got, "C13.codec", "%s.enc.bare-data" % fl, "bare data slot only when !(p & BIT) and p != MARK and fct unchanged",
                              "data word is stored bare on a path where %s is not excluded: the decoder would take it for a function word / mark" % sorted(need - got), site)
                    if marks:
                        MARK = marks[0]
                    def _lf(x):
                        return len(x) == 4 and x[0] == "icmp" and any(y == ("arg", 0) for y in (x[2], x[3])) and any(isinstance(y, tuple) and y[0] == "load" and y[1].endswith("defer_queue.last_fct_in") for y in (x[2], x[3]))
                    # leaves known FALSE on this path: `last_fct_in != fct` false = same function; `last_fct_in == fct` false = different
                    same = any(_lf(x) and x[1] == "ne" for x in fl_leaves) or any(a[0] == "eq" and any(y == ("arg", 0) for y in a[1:]) and any(isinstance(y, tuple) and y[0] == "load" and y[1].endswith("defer_queue.last_fct_in") for y in a[1:]) for a in atoms)
                    diff = any(_lf(x) and x[1] == "eq" for x in fl_leaves) or any(a[0] == "ne" and any(y == ("arg", 0) for y in a[1:]) and any(isinstance(y, tuple) and y[0] == "load" and y[1].endswith("defer_queue.last_fct_in") for y in a[1:]) for a in atoms)
                    if same or diff:
                        rep.check(same and not diff, "C13.codec", "%s.enc.bare-data-same-fct" % fl, "a bare data slot is written only when the function equals the one last encoded",
                                  "a bare data word is written on the path where last_fct_in != fct: the decoder invokes the *previous* function with this argument", site)
                    else:
                        rep.unk("C13.codec", "%s.enc.bare-data-same-fct" % fl, "the bare-data path does not test last_fct_in against fct in a form this rule recognises")
                elif n == 2:
                    v0 = vals[0]
                    ok = v0[0] == "bin" and v0[1] == "or" and v0[2] == ("arg", 0) and v0[3][0] == "c" and vals[1] == ("arg", 1)
                    if ok:
                        BIT = v0[3][1]
                    need = {("and1", 0), ("eqc", 0)}
                    got = set(k[:2] for k in lv if k[0] in ("and1", "eqc"))
                    rep.check(ok and need <= got, "C13.codec", "%s.enc.tagged-fct" % fl, "tagged function word (fct|BIT), then data; only when !(fct & BIT) and fct != MARK",
                              "2-slot form stores %s / guard misses %s" % ([ir.expr_str(v) for v in vals], sorted(need - got)), site)
                elif n == 3:
                    ok = vals[0][0] == "c" and vals[1] == ("arg", 0) and vals[2] == ("arg", 1)
                    rep.check(ok, "C13.codec", "%s.enc.mark-form" % fl, "MARK, raw function word, data", "3-slot form stores %s" % [ir.expr_str(v) for v in vals], site)
                    if ok:
                        m3 = vals[0][1]
                        if MARK is not None:
                            rep.check(m3 == MARK, "C13.codec", fl + ".enc.mark-const", "MARK stored == MARK tested (%d)" % MARK, "MARK stored %d != MARK tested %d" % (m3, MARK), site)
                        MARK = m3
        if BIT is not None and MARK is not None:
            rep.check(MARK == ~BIT, "C13.codec", fl + ".const", "DQ_FCT_MARK == ~DQ_FCT_BIT (%d, %d)" % (MARK, BIT), "DQ_FCT_MARK %d != ~DQ_FCT_BIT %d" % (MARK, BIT), [f.name])
        # decoder
        m = ctx.mod(F.lib, "perfn")
        d = m.fn("rcu_defer_barrier_queue")
        if d is None:
            raise Broken("%s: rcu_defer_barrier_queue vanished" % fl)
        rep.touch(d)
        ics = [i for i in d.all_insts() if i.op == "icall"]
        pat.require(len(ics) == 1, "%s: decoder has %d indirect calls" % (fl, len(ics)))
        ic = ics[0]
        rl = ring_accesses(d, "load")
        hdr = ic.blk.id
        # loop header = target of icall block's back edge
        hb = [s for s in ic.blk.succ]
        pat.require(len(hb) == 1, "decoder loop shape")
        header = hb[0]
        body_entry = [s for s in d.blocks[header].succ if d.reach([d.blocks[s].insts[0]], [ic], include_start=True)[0] is not None]
        pat.require(len(body_entry) == 1, "decoder loop body entry")
        dforms = {}
        for p in paths.enum_paths(d, start_blk=body_entry[0], stop=lambda b: b.id == hdr):
            if p[-1] != hdr:
                continue
            atoms = paths.path_atoms(d, p)
            lds = [i for b in p for i in d.blocks[b].insts if i in rl]
            fst = [i for b in p for i in d.blocks[b].insts if i.op == "store" and pat.last_field(i.d["ap"]) == "defer_queue.last_fct_out"]
            dforms[len(lds)] = (p, atoms, lds, fst)
        rep.check(set(dforms) == {1, 2, 3}, "C13.codec", fl + ".dec.forms", "decoder consumes 1, 2 or 3 slots per call", "decoder paths consume %s slots" % sorted(dforms), [d.name])
        if set(dforms) == {1, 2, 3}:
            first = dforms[1][2][0]
            isfirst = lambda e: e[0] == "load" and e[3] == first.id
            # form 2: (p & BIT) != 0 ; fct = p & ~BIT
            p2, a2, l2, s2 = dforms[2]
            g2 = [a for a in a2 if a[0] == "ne" and a[2] == ("c", 0) and a[1][0] == "bin" and a[1][1] == "and" and isfirst(a[1][2])]
            okg = bool(g2) and (BIT is None or g2[0][1][3] == ("c", BIT))
            okm = len(s2) == 1 and (lambda v: v[0] == "bin" and v[1] == "and" and isfirst(v[2]) and (BIT is None or v[3] == ("c", ~BIT)))(ir.expr(d, s2[0].args[0]))
            rep.check(okg and okm, "C13.codec", fl + ".dec.tagged-fct", "2-slot form iff (word & BIT); function = word & ~BIT",
                      "decoder's tagged-function form disagrees with the encoder (guard ok=%s, mask ok=%s)" % (okg, okm), [s2[0].where()] if s2 else [d.name])
            p3, a3, l3, s3 = dforms[3]
            g3 = [a for a in a3 if a[0] == "eq" and isfirst(a[1]) and a[2][0] == "c"]
            ok3 = bool(g3) and (MARK is None or g3[0][2][1] == MARK) and len(s3) == 1 and (lambda v: v[0] == "load" and v[3] == l3[1].id)(ir.expr(d, s3[0].args[0]))
            rep.check(ok3, "C13.codec", fl + ".dec.mark-form", "3-slot form iff word == MARK; function = next word, data = third word",
                      "decoder's MARK form disagrees with the encoder", [d.blocks[p3[-1]].insts[0].where()])
            p1, a1, l1, s1 = dforms[1]
            rep.check(not s1, "C13.codec", fl + ".dec.bare-data", "1-slot form leaves last_fct_out unchanged", "1-slot form rewrites last_fct_out", [d.name])
            # argument passed = last ring load on each path; callee = load last_fct_out
            fp = ir.expr(d, ic.d["fp"])
            rep.check(fp[0] == "load" and fp[1].endswith("defer_queue.last_fct_out"), "C13.codec", fl + ".dec.callee", "callee is last_fct_out",
                      "callee is %s" % ir.expr_str(fp), [ic.where()])
            for n, (p, atoms, lds, fst) in dforms.items():
                arg = paths.expr_on_path(d, ic.args[0], p + [])
                rep.check(arg[0] == "load" and arg[3] == lds[-1].id, "C13.codec", "%s.dec.arg.form%d" % (fl, n), "argument is the last slot read",
                          "argument passed is %s, not the last slot read" % ir.expr_str(arg), [ic.where()])


NEGP = {"ult": "uge", "uge": "ult", "ugt": "ule", "ule": "ugt", "slt": "sge", "sge": "slt", "sgt": "sle", "sle": "sgt"}


def _leaf_key(e):
    """classify a false leaf: ('and1', argno) for (arg & 1) != 0 ; ('eqc', argno, const) for arg == const ; ('fctne',) ..."""
    if e[0] == "icmp":
        pred, a, b = e[1], e[2], e[3]
        if pred == "ne" and b == ("c", 0) and a[0] == "bin" and a[1] == "and" and a[2][0] == "arg" and a[3][0] == "c":
            return ("and1", a[2][1], a[3][1])
        if pred == "eq" and a[0] == "arg" and b[0] == "c":
            return ("eqc", a[1], b[1])
        if pred == "ne" and ((a[0] == "load" and b[0] == "arg") or (b[0] == "load" and a[0] == "arg")):
            return ("fctne",)
    return ("other", str(e)[:60])


def rule_cap(ctx, rep):
    """ring capacity: flush threshold leaves room for the largest form"""
    for fl in ALL:
        F, fn = _defer_fns(ctx, fl)
        f = fn["rcu"]
        rep.touch(f)
        flush = pat.calls(f, F.pfx + "_defer_barrier_thread")
        if not flush:
            rep.bad("C13.cap", fl + ".flush", "defer_rcu never flushes a full queue", [f.name])
            continue
        q = ctx.fn(F.lib, F.pfx + "_defer_register_thread")
        mall = pat.calls(q, "malloc")
        pat.require(mall, "%s: ring allocation not found" % fl)
        size_bytes = ir.const_of(q, mall[0].args[0])
        pat.require(size_bytes, "%s: ring allocation size not constant" % fl)
        SIZE = size_bytes // 8
        thr = None
        for t, s, a in pat.branch_edges_on(f, lambda a: a[0] in ("uge", "ugt") and a[2][0] == "c" and a[1][0] == "bin" and a[1][1] == "sub"):
            if f.bdom(s, flush[0].blk.id) or s == flush[0].blk.id:
                thr = a[2][1] + (1 if a[0] == "ugt" else 0)
        if thr is None:
            raise Broken("%s: flush threshold test (head - tail >= C) not recognised" % fl)
        maxslots = 0
        ring_st = ring_accesses(f, "store")
        head_st = pat.stores(f, "defer_queue.head")
        stop = lambda blk: any(i in head_st for i in blk.insts)
        for p in paths.enum_paths(f, stop=stop):
            if stop(f.blocks[p[-1]]):
                maxslots = max(maxslots, len([i for b in p for i in f.blocks[b].insts if i in ring_st]))
        rep.check(maxslots <= SIZE - (thr - 1), "C13.cap", fl + ".room", "ring size %d, flush at >= %d entries, largest form %d slots: fits" % (SIZE, thr, maxslots),
                  "ring size %d, flush only at >= %d entries, but one call can store %d slots: the oldest unprocessed entries are overwritten" % (SIZE, thr, maxslots), [flush[0].where()])
        # masks
        masks = set()
        for s in ring_st:
            ap = s.d["ap"]
        rep.must_pass("C13.cap", fl + ".flush-before-encode", f, [f.entry()], ring_st, lambda i: i in flush, include_start=True,
                      edge_ok=_not_below_threshold(f, thr), what="when head - tail >= threshold the queue is flushed before any slot is written")


def _not_below_threshold(f, thr):
    blocked = set()
    for t, s, a in pat.branch_edges_on(f, lambda a: ((a[0] == "ult" and a[2] == ("c", thr)) or (a[0] == "ule" and a[2] == ("c", thr - 1))) and a[1][0] == "bin" and a[1][1] == "sub"):
        blocked.add((t.blk.id, s))
    return pat.block_edge_filter(blocked)


def rule_gp(ctx, rep):
    for fl in ALL:
        F, fn = _defer_fns(ctx, fl)
        sync = F.pfx + "_synchronize_rcu"
        for nm in ("barrier", "bthread", "unreg"):
            f = fn[nm]
            rep.touch(f)
            ics = [i for i in f.all_insts() if i.op == "icall" and ir.expr(f, i.d["fp"])[0] == "load" and ir.expr(f, i.d["fp"])[1].endswith("defer_queue.last_fct_out")]
            pat.require(ics, "%s: no callback invocation in %s" % (fl, f.name))
            syn = pat.calls(f, sync)
            if not syn:
                rep.bad("C13.gp", "%s.%s.sync" % (fl, nm), "%s invokes deferred calls without calling synchronize_rcu()" % f.name, [ics[0].where()])
                continue
            rep.must_pass("C13.gp", "%s.%s.sync≺invoke" % (fl, nm), f, [f.entry()], ics, lambda i: i in syn, include_start=True,
                          what="every path to a deferred-call invocation passes synchronize_rcu()")
            # the bound handed to the decoder was read before synchronize_rcu
            hl = pat.loads(f, "defer_queue.head")
            pat.require(hl, "%s: head snapshot not found in %s" % (fl, f.name))
            after = f.reachable_set(syn)
            late = [h for h in hl if h.id in after and not any(h.id in f.reachable_set([x]) and False for x in [])]
            # loads of head reachable after sync and not dominated... : any head load after sync that feeds the loop bound is a late snapshot
            bad = []
            for h in hl:
                if h.id in after and not any(f.dominates(h, s) for s in syn):
                    # reachable after sync; is it used as decoder bound (compared with the cursor)?
                    bad.append(h)
            rep.check(not bad, "C13.gp", "%s.%s.snapshot≺sync" % (fl, nm), "queue head is sampled before synchronize_rcu() only",
                      "queue head is (re)sampled after synchronize_rcu(): entries queued during the grace period would be invoked without their own", [b.where() for b in bad[:2]])
        # who may invoke through last_fct_out
        m = ctx.mod(F.lib, "perfn")
        who = set()
        for g in m.defined():
            for i in g.all_insts():
                if i.op == "icall":
                    e = ir.expr(g, i.d["fp"])
                    if e[0] == "load" and e[1].endswith("defer_queue.last_fct_out"):
                        who.add(g.name)
        rep.check(who == {"rcu_defer_barrier_queue"}, "C13.gp", fl + ".who-invokes", "only rcu_defer_barrier_queue invokes deferred calls",
                  "deferred calls invoked from %s" % sorted(who), sorted(who))
        callers = set(c.fn.name for c in m.callers("rcu_defer_barrier_queue"))
        rep.check(callers <= {"_rcu_defer_barrier_thread", F.pfx + "_defer_barrier"}, "C13.gp", fl + ".who-decodes", "decoder called only from the two barrier functions",
                  "decoder called from %s" % sorted(callers), sorted(callers))


def rule_ring(ctx, rep):
    for fl in ALL:
        F, fn = _defer_fns(ctx, fl)
        f = fn["rcu"]
        rep.touch(f)
        ring_st = ring_accesses(f, "store")
        head_st = pat.stores(f, "defer_queue.head")
        comp = lambda i: mm.is_compiler(i, f.mod)
        rep.must_pass("C13.ring", fl + ".slots≺head", f, ring_st, head_st, comp, what=">=compiler barrier (wmb) between writing ring slots and publishing head")
        fut = pat.loads(f, glob="defer_thread_futex")
        pat.require(fut, "%s: defer_rcu does not test defer_thread_futex" % fl)
        rep.must_pass("C13.ring", fl + ".head≺FULL≺futex", f, head_st, fut, mm.is_full, what="FULL barrier between publishing head and testing the reclaimer's futex (store→load)")
        # ... and the test is made after *every* publication: the reclaimer may have found this queue empty and gone to sleep because of another,
        # since-drained, queue - or be between its emptiness check and its sleep - whatever this thread's own queue held before; a wake-up
        # made conditional on a local snapshot (queue was empty, function changed, ...) leaves the entry pending with the reclaimer asleep
        rep.must_pass("C13.ring", fl + ".publish⇒wake-test", f, head_st, None, lambda i: i in fut, to_exit=True,
                      what="every path from publishing head to the return of defer_rcu tests the reclaimer's futex (wake_up_defer is unconditional)")
        m = ctx.mod(F.lib, "perfn")
        d = m.fn("rcu_defer_barrier_queue")
        rep.touch(d)
        rl = ring_accesses(d, "load")
        ts = pat.stores(d, "defer_queue.tail")
        ics = [i for i in d.all_insts() if i.op == "icall"]
        pat.require(rl and ts and ics, "%s: decoder anatomy" % fl)
        rep.must_pass("C13.ring", fl + ".invoke≺FULL≺tail", d, ics, ts, mm.is_full, what="FULL barrier between using ring slots and releasing them (tail store)")
        rep.must_pass("C13.ring", fl + ".bound≺slots", d, [d.entry()], rl, lambda i: mm.is_compiler(i, m) or (i.op == "load" and i.d["order"] in ("acquire", "seq_cst")),
                      include_start=True, what=">=compiler barrier (rmb) between reading the bound and reading ring slots")
        w = m.fn("wait_defer")
        if w is None:
            raise Broken("%s: wait_defer vanished" % fl)
        rep.touch(w)
        dec = pat.rmws(w, glob="defer_thread_futex")
        pat.require(dec, "%s: wait_defer does not decrement the futex" % fl)
        # the queue re-check: the helper rcu_defer_num_callbacks(), or - when it is inlined into wait_defer - the loads of the
        # registered queues' head words it performs
        nc = m.fn("rcu_defer_num_callbacks")
        qtests = pat.calls_opt(w, "rcu_defer_num_callbacks") if nc is not None else []
        if not qtests:
            nc = w
            qtests = [l for l in w.all_insts() if l.op == "load" and pat.last_field(l.d["ap"]) == "defer_queue.head"]
        tests = pat.loads(w, glob="defer_thread_stop") + qtests
        pat.require(len(tests) >= 2, "%s: wait_defer tests" % fl)
        rep.must_pass("C13.sleep", fl + ".dec≺FULL≺tests", w, dec, tests, lambda i: mm.is_full(i) and i not in dec, what="FULL barrier between announcing sleep (futex dec) and testing stop / queue heads (store→load)")
        # ... and both tests are made *after* the announcement on every path that goes on to sleep: a stop request (or an entry) that arrives
        # between an early test and the decrement finds the futex at 0, wakes nobody, and the reclaimer then sleeps with the request pending.
        # (A test made before the decrement as well is harmless; what matters is that none of the two is missing after it.)
        wsites = waitloop.wait_sites(w)
        stop_lds = pat.loads(w, glob="defer_thread_stop")
        if wsites and dec:
            rep.must_pass("C13.sleep", fl + ".announce≺stop-test≺sleep", w, dec, wsites, lambda i: i in stop_lds,
                          what="the stop flag is tested between the sleep announcement (futex dec) and the futex wait: a stop request that landed before the announcement woke nobody")
            # (when the re-check is written out in wait_defer the walk of an empty registry reads no head at all: the read of the registry list is the test)
            reg_rd = [l for l in w.all_insts() if l.op == "load" and l.d.get("ap") and pat.base_global(l.d["ap"]) == "registry_defer"]
            rep.must_pass("C13.sleep", fl + ".announce≺queue-test≺sleep", w, dec, wsites, lambda i: i in qtests or i in reg_rd,
                          what="the queue heads are tested between the sleep announcement (futex dec) and the futex wait")
        # the sleep re-check must read the word the producer publishes (queue head), not a private snapshot
        rep.touch(nc)
        pub = set(pat.last_field(s.d["ap"]) for s in head_st)
        rd = set(pat.last_field(l.d["ap"]) for l in nc.all_insts() if l.op == "load" and pat.last_field(l.d["ap"]) and pat.last_field(l.d["ap"]).startswith("defer_queue."))
        rep.check(pub <= rd, "C13.sleep", fl + ".recheck-reads-published-word", "the reclaimer's sleep re-check reads %s, the word defer_rcu publishes before testing the futex" % sorted(pub),
                  "the reclaimer decides to sleep from %s but defer_rcu publishes %s: an entry queued while the reclaimer is busy is neither seen by the re-check nor signalled (futex is 0)"
                  % (sorted(rd), sorted(pub)), [nc.name])
        used = [l for l in nc.all_insts() if l.op == "load" and pat.last_field(l.d["ap"]) == "defer_queue.head"]
        rep.check(all(l.d["order"] != "na" for l in used) and bool(used), "C13.sleep", fl + ".recheck-atomic-head", "head is read atomically by the re-check", "head read non-atomically / not at all", [nc.name])
        for k, ws in enumerate(waitloop.wait_sites(w)):
            waitloop.check(rep, "C13.sleep", "%s.wait_defer.site%d" % (fl, k), w, ws)
        pat.require(waitloop.wait_sites(w), "%s: no futex wait in wait_defer" % fl)
        # stop: store stop=1 ≺ FULL ≺ wake ≺ join
        u = fn["unreg"]
        st = pat.stores(u, glob="defer_thread_stop", pred=lambda e: ir.const_of(u, e.val) == 1)
        join = pat.calls(u, "pthread_join")
        if st and join:
            fl_ld = pat.loads(u, glob="defer_thread_futex")      # the waker's futex test (whatever the helper is called)
            pat.require(fl_ld, "%s: unregister does not test the reclaimer's futex" % fl)
            rep.must_pass("C13.sleep", fl + ".stop≺FULL≺wake", u, st, fl_ld, mm.is_full, what="FULL between stop=1 and the futex test of wake_up_defer")
            rep.must_pass("C13.sleep", fl + ".wake≺join", u, st, join, lambda i: i in fl_ld, what="reclaimer is woken before it is joined")
        else:
            raise Broken("%s: stop_defer_thread anatomy" % fl)


def _slot_index(f, i, k, path):
    """index expression of a ring access (before masking), phis resolved along the path"""
    from .. import paths as _paths
    a = ir.strip_casts(f, i.args[k], int_too=False)
    ge = f.inst_of(a)
    if ge is None or ge.op != "gep":
        return None, None
    e = _paths.expr_on_path(f, ge.args[-1], path, 10)
    if e[0] == "bin" and e[1] == "and" and e[3][0] == "c":
        return e[2], e[3][1]
    return e, None


def rule_encstate(ctx, rep):
    """encoder run-length state: whenever a function word is written to the ring (fct | FCT_BIT, or the marker followed by fct)
    the decoder switches its current function to fct, so the encoder's last_fct_in must be fct as well on that path - otherwise
    the next call with the *old* function is encoded as `same function` and the decoder invokes the wrong one"""
    for fl in ALL:
        F, fn = _defer_fns(ctx, fl)
        f = fn["rcu"]
        rep.touch(f)
        fw = [s_ for s_ in ring_accesses(f, "store") if (lambda v: v == ("arg", 0) or (v[0] == "bin" and v[1] == "or" and v[2] == ("arg", 0)))(ir.expr(f, s_.args[0], 3))]
        lf = [s_ for s_ in pat.stores(f, "defer_queue.last_fct_in") if ir.expr(f, s_.args[0], 3) == ("arg", 0)]
        head_st = pat.stores(f, "defer_queue.head")
        pat.require(len(fw) >= 2 and head_st, "%s: function-word stores of the encoder" % fl)
        if not lf:
            rep.bad("C13.encstate", fl + ".last_fct_in", "the encoder never records the function it last emitted (last_fct_in): every call re-emits the function word - or, if the field is compared but never set, none does", [fw[0].where()])
            continue
        for s_ in fw:
            before = f.reach([f.entry()], [s_], avoid=lambda i: i in lf, include_start=True)[0] is None
            after = f.reach([s_], head_st, avoid=lambda i: i in lf)[0] is None
            rep.check(before or after, "C13.encstate", fl + ".last_fct_in@%d" % s_.line, "every path that emits a function word also sets last_fct_in = fct",
                      "a function word is written to the ring on a path that leaves last_fct_in unchanged: the decoder now runs this function, the encoder still believes the previous one is current - "
                      "the next call with the previous function is queued as a bare argument and invoked with the wrong function", [s_.where()])


def rule_slots(ctx, rep):
    """Ring indexing.  Encoder (defer_rcu): on every path the words of one deferred call go to consecutive slots head, head+1,
    ... (each masked with the ring mask) and the head published afterwards is the old head plus the number of words written.
    Decoder (rcu_defer_barrier_queue): in every iteration the words are read from consecutive slots i, i+1, ... and the next
    iteration (or the tail published at the end) continues at i plus the number of words read.  A slot index that runs backwards
    or skips makes the decoder take a data word for a function pointer."""
    from .. import linear, paths as _paths
    for fl in ALL:
        F, fn = _defer_fns(ctx, fl)
        f = fn["rcu"]
        rep.touch(f)
        ring_st = ring_accesses(f, "store")
        head_st = pat.stores(f, "defer_queue.head")
        pat.require(ring_st and len(head_st) == 1, "%s: defer_rcu ring / head stores" % fl)
        hb = head_st[0].blk.id
        base = None
        bad = []
        npaths = 0
        masks = set()
        for p_ in _paths.enum_paths(f, 0, stop=lambda b: b.id == hb, limit=2048):
            if p_[-1] != hb:
                continue
            sts = [i for b in p_ for i in f.blocks[b].insts if i in ring_st]
            if not sts:
                continue
            npaths += 1
            offs = []
            for i in sts:
                e, mk = _slot_index(f, i, 1, p_)
                masks.add(mk)
                n_ = linear.norm(e) if e is not None else None
                if n_ is None:
                    raise Broken("%s: ring slot index not linear: %s" % (fl, ir.expr_str(e) if e else None))
                terms = {t: c for t, c in n_.items() if t != 1}
                if base is None:
                    base = terms
                if terms != base:
                    raise Broken("%s: ring slot indexes have different bases" % fl)
                offs.append(n_.get(1, 0))
            hv = linear.norm(_paths.expr_on_path(f, head_st[0].args[0], p_, 10))
            hoff = hv.get(1, 0) if hv is not None and {t: c for t, c in hv.items() if t != 1} == base else None
            if offs != list(range(len(offs))) or hoff != len(offs):
                bad.append((offs, hoff))
        pat.require(npaths >= 3, "%s: encoder paths" % fl)
        okbase = base is not None and list(base.values()) == [1] and list(base)[0][0] == "ld" and list(base)[0][1].endswith("defer_queue.head")
        rep.check(not bad and okbase, "C13.slots", fl + ".encode.consecutive", "on each of %d paths the words go to slots head, head+1, ... and head advances by the number of words" % npaths,
                  "encoder writes slots at offsets %s from the old head and then publishes head + %s: the decoder reads the words in a different order / a slot is skipped" % (bad[0] if bad else ("?", "?")), [ring_st[0].where()])
        rep.check(len(masks) == 1 and None not in masks and (list(masks)[0] & (list(masks)[0] + 1)) == 0, "C13.slots", fl + ".encode.mask", "every slot index is masked with the same 2^k - 1 (%s)" % sorted(masks, key=str),
                  "slot indexes are masked with %s" % sorted(masks, key=str), [ring_st[0].where()])
        # decoder
        g = fn["bthread"]
        rep.touch(g)
        lds = ring_accesses(g, "load")
        tl = pat.stores(g, "defer_queue.tail")
        pat.require(lds and tl, "%s: decoder ring loads / tail store" % fl)
        tv = ir.expr(g, tl[0].args[0], 3)
        pat.require(tv[0] == "phi", "%s: decoder position is not a loop variable" % fl)
        ph = g.insts[tv[1]]
        hdr = ph.blk.id
        comp = [c for c in g.sccs() if hdr in c]
        pat.require(comp, "%s: decoder loop" % fl)
        comp = comp[0]
        bad = []
        npaths = 0
        dmasks = set()
        back = [(v, b) for v, b in ph.d["inc"] if b in comp]
        pat.require(back, "%s: decoder back edge" % fl)
        for p_ in _paths.enum_paths(g, hdr, stop=lambda b: any(b.id == bb for _v, bb in back) , limit=2048):
            if not any(p_[-1] == bb for _v, bb in back) or any(b not in comp for b in p_):
                continue
            rd = [i for b in p_ for i in g.blocks[b].insts if i in lds]
            if not rd:
                continue
            npaths += 1
            offs = []
            for i in rd:
                e, mk = _slot_index(g, i, 0, p_)
                dmasks.add(mk)
                n_ = linear.norm(e) if e is not None else None
                if n_ is None or {t: c for t, c in n_.items() if t != 1} != {("t", "phi#%d" % ph.id): 1}:
                    raise Broken("%s: decoder slot index not of the form position + k: %s" % (fl, ir.expr_str(e) if e else None))
                offs.append(n_.get(1, 0))
            nxt = [v for v, bb in back if bb == p_[-1]][0]
            nv = linear.norm(_paths.expr_on_path(g, nxt, p_ + [hdr], 10))
            noff = nv.get(1, 0) if nv is not None and {t: c for t, c in nv.items() if t != 1} == {("t", "phi#%d" % ph.id): 1} else None
            if offs != list(range(len(offs))) or noff != len(offs):
                bad.append((offs, noff))
        pat.require(npaths >= 3, "%s: decoder paths (%d)" % (fl, npaths))
        rep.check(not bad, "C13.slots", fl + ".decode.consecutive", "in each of %d iteration shapes the words are read from slots i, i+1, ... and the position advances by the number of words read" % npaths,
                  "decoder reads slots at offsets %s from its position and continues at position + %s" % (bad[0] if bad else ("?", "?")), [lds[0].where()])
        rep.check(dmasks == masks, "C13.slots", fl + ".decode.mask", "decoder and encoder use the same ring mask", "decoder masks with %s, encoder with %s" % (sorted(dmasks, key=str), sorted(masks, key=str)), [lds[0].where()])


def rule_locks(ctx, rep):
    for fl in ALL:
        F, fn = _defer_fns(ctx, fl)
        for nm in ("barrier", "bthread", "reg", "unreg"):
            f = fn[nm]
            rep.touch(f)
            ls = lockset.compute(f)
            bad = []
            unser = []
            n = 0
            for i in f.all_insts():
                e = mm.effect_of(i) if i.op in ("store", "rmw", "cmpxchg", "asm") else None
                if e is None or e.ap is None or not e.writes():
                    continue
                fld = pat.last_field(e.ap)
                tgt = None
                if fld == "defer_queue.tail" or fld == "defer_queue.last_head" or fld == "defer_queue.last_fct_out":
                    tgt = fld
                if pat.base_global(e.ap) == "registry_defer" or (fld in ("cds_list_head.next", "cds_list_head.prev") and ("registry_defer" in ir.ap_str(f, e.ap) or "defer_queue.list" in ir.ap_str(f, e.ap))):
                    tgt = "registry_defer list"
                if tgt is None:
                    continue
                n += 1
                if i.id in ls and "@rcu_defer_mutex" not in ls[i.id]:
                    bad.append((tgt, i))
                if nm in ("reg", "unreg") and tgt == "registry_defer list" and i.id in ls and "@defer_thread_mutex" not in ls[i.id]:
                    unser.append(i)
            pat.require(n > 0, "%s: no guarded write found in %s" % (fl, f.name))
            rep.check(not bad, "C13.locks", "%s.%s" % (fl, nm), "%d writes to registry_defer / tail / last_head / last_fct_out all under rcu_defer_mutex" % n,
                      "write to %s without rcu_defer_mutex held" % (bad[0][0] if bad else ""), [b[1].where() for b in bad[:3]])
            if nm in ("reg", "unreg"):
                rep.check(not unser, "C13.locks", "%s.%s.membership-serialised" % (fl, nm), "registry_defer membership changes inside the defer_thread_mutex section that starts/stops the reclaimer",
                          "registry_defer is modified outside defer_thread_mutex: the `was empty => start` / `is empty => stop` decisions are no longer atomic with the membership change - a "
                          "register racing with the last unregister gets its freshly started reclaimer stopped (or none started): its deferred calls are never executed", [x.where() for x in unser[:3]])
            # pairing: nothing held at return
            held = [(r, ls[r.id]) for r in f.rets() if r.id in ls and ls[r.id]]
            rep.check(not held, "C13.locks", "%s.%s.released" % (fl, nm), "no lock held at return", "returns holding %s" % (sorted(held[0][1]) if held else ""), [h[0].where() for h in held[:2]])
        # lock order: defer_thread_mutex -> rcu_defer_mutex, never the reverse
        for nm in ("reg", "unreg"):
            f = fn[nm]
            ls = lockset.compute(f)
            for c in pat.mutex_calls(f, "pthread_mutex_lock", "defer_thread_mutex"):
                rep.check("@rcu_defer_mutex" not in ls.get(c.id, ()), "C13.locks", "%s.%s.order" % (fl, nm), "defer_thread_mutex taken before rcu_defer_mutex",
                          "defer_thread_mutex acquired while holding rcu_defer_mutex (lock-order inversion with register/unregister)", [c.where()])


def rule_reg(ctx, rep):
    for fl in ALL:
        F, fn = _defer_fns(ctx, fl)
        check_regpair(ctx, rep, "C13.reg", fl + ".defer", F.lib, fn["reg"].name, fn["unreg"].name)


def rule_unreg(ctx, rep):
    for fl in ALL:
        F, fn = _defer_fns(ctx, fl)
        f = fn["unreg"]
        rep.touch(f)
        dels = [i for i in f.all_insts() if pat.from_fn(i, "cds_list_del") and i.op == "store"]
        free = pat.calls(f, "free")
        ics = [i for i in f.all_insts() if i.op == "icall"]
        qnull = pat.stores(f, "defer_queue.q", pred=lambda e: ir.const_of(f, e.val) == 0)
        pat.require(dels and free and ics, "%s: unregister anatomy (list_del / flush / free)" % fl)
        rep.must_pass("C13.unreg", fl + ".flush≺free", f, [f.entry()], free, lambda i: pat.from_fn(i, "_rcu_defer_barrier_thread"), include_start=True,
                      what="own queue is flushed before the ring is freed")
        back, _ = f.reach(free, ics)
        rep.check(back is None, "C13.unreg", fl + ".no-invoke-after-free", "no deferred call is decoded after the ring was freed", "ring is read after free()", [free[0].where()])
        rep.must_pass("C13.unreg", fl + ".free≺q=NULL", f, free, None, lambda i: i in qnull, to_exit=True, what="q is reset to NULL after free (register asserts q == NULL)")
        rep.must_pass("C13.unreg", fl + ".list_del≺flush", f, [f.entry()], ics, lambda i: i in dels, include_start=True,
                      what="thread leaves registry_defer before its own flush (the reclaimer cannot pick up a freed queue)")


def rule_wake(ctx, rep):
    """wake_up_defer: reset the reclaimer's futex word before FUTEX_WAKE, only when it is -1 (all flavors)"""
    from .. import waitloop as _wl
    for fl in ALL:
        F = FL[fl]
        _wl.check_wakers(rep, "C13.wake", fl, ctx.mod(F.lib, "perfn"), lambda name, ap: name == "defer_thread_futex")


def rule_stopflag(ctx, rep):
    """The reclaimer's stop flag is owned by the thread that starts/stops it: set to 1 before waking and joining the reclaimer,
    reset to 0 only after pthread_join() returned (both under defer_thread_mutex); the reclaimer only reads it.  A reset done
    by the new reclaimer itself races with a stop request issued before it ran its first statement: the request is erased,
    the reclaimer sleeps for good and unregister hangs in pthread_join holding defer_thread_mutex."""
    for fl in ALL:
        F = FL[fl]
        m = ctx.mod(F.lib, "flat")
        writers = {}
        for f in m.defined():
            for i in pat.writes(f, glob="defer_thread_stop"):      # plain stores and atomic RMWs (IR or inline asm)
                writers.setdefault(f.name, []).append(i)
        pat.require(writers, "%s: no writer of defer_thread_stop" % fl)
        thr = [n for n in writers if n == "thr_defer" or "thr_defer" in writers[n][0].scope_chain]
        rep.check(not thr, "C13.stop", fl + ".reclaimer-read-only", "the reclaimer thread never writes its stop flag", "the reclaimer thread itself writes defer_thread_stop: a stop request issued before "
                  "the thread's first statement is erased", [writers[n][0].where() for n in thr][:2])
        for n, sts in writers.items():
            f = m.fn(n)
            rep.touch(f)
            joins = f.calls("pthread_join")
            zero = [s_ for s_ in sts if s_.op == "store" and ir.const_of(f, s_.args[0]) == 0]
            one = [s_ for s_ in sts if s_.op == "store" and ir.const_of(f, s_.args[0]) == 1]
            if joins and zero:
                rep.must_pass("C13.stop", "%s.%s.join≺reset" % (fl, n), f, [f.entry()], zero, lambda i: i in joins, include_start=True, what="the stop flag is cleared only after the reclaimer was joined")
            if joins and one:
                rep.must_pass("C13.stop", "%s.%s.set≺join" % (fl, n), f, [f.entry()], joins, lambda i: i in one, include_start=True, what="the stop flag is set before joining the reclaimer")
        allz = [s_ for sts in writers.values() for s_ in sts if s_.op == "store" and ir.const_of(s_.fn, s_.args[0]) == 0]
        rep.check(bool(allz), "C13.stop", fl + ".reset-exists", "the stop flag is reset for the next reclaimer incarnation", "defer_thread_stop is never reset: a reclaimer started later exits at once", [])


def rule_ctrl(ctx, rep):
    """Control skeleton of the defer machinery - which way each decision goes.  The reclaimer thread exits only on the stop flag and sleeps
    only when no call is queued; its loop runs a barrier after every wait; the decoder walks while position != head; the barrier entry
    points skip the grace period and the decoding only when nothing is queued (or nobody is registered); the reclaimer is started by the
    first registration and stopped by the last unregistration; the re-check sums head - tail over the registered queues."""
    for fl in ALL:
        F, fn = _defer_fns(ctx, fl)
        m = ctx.mod(F.lib, "perfn")

        def g_(name):
            x = m.fn(name)
            if x is None:
                c = [y for y in m.defined() if y.srcname == name]
                x = c[0] if c else None
            return x
        # (a) wait_defer
        w = g_("wait_defer")
        if w is None:
            raise Broken("%s: wait_defer vanished" % fl)
        rep.touch(w)
        ex = pat.calls_opt(w, "pthread_exit")
        for c in ex:
            lv = pat.dom_leaf_atoms(w, c)
            pos = any(a[0] == "ne" and a[2] == ("c", 0) and a[1][0] == "load" and a[1][1] == "@defer_thread_stop" for a in lv)
            neg = any(a[0] == "eq" and a[2] == ("c", 0) and a[1][0] == "load" and a[1][1] == "@defer_thread_stop" for a in lv)
            if pos or neg:
                rep.check(pos, "C13.ctrl", fl + ".wait_defer.exit-iff-stop", "the reclaimer thread exits only when the stop flag is set", "the reclaimer thread exits when the stop flag is *clear*: it dies at its first wait, queued calls are no longer run in the background "
                          "(and a real stop request is ignored)", [c.where()])
            else:
                rep.unk("C13.ctrl", fl + ".wait_defer.exit-iff-stop", "pthread_exit in wait_defer is not guarded by the stop flag in a form this rule recognises")
        nc = g_("rcu_defer_num_callbacks")
        ws = waitloop.wait_sites(w)
        if nc is not None and pat.calls_opt(w, nc.name):
            for k, s_ in enumerate(ws):
                lv = pat.dom_leaf_atoms(w, s_)
                z = [a for a in lv if a[1][0] == "call" and a[1][1] == nc.name and a[2] == ("c", 0)]
                if z:
                    rep.check(all(a[0] == "eq" for a in z), "C13.ctrl", fl + ".wait_defer.sleeps-iff-empty", "the reclaimer sleeps only when the re-check found no queued call",
                              "the reclaimer sleeps exactly when calls *are* queued (and spins when none is): calls queued before the announcement are run only when somebody queues another one", [s_.where()])
                else:
                    rep.unk("C13.ctrl", fl + ".wait_defer.sleeps-iff-empty", "the futex wait is not guarded by the re-check in a form this rule recognises")
            # (b) the re-check sums head - tail
            rep.touch(nc)
            r = [x for x in nc.rets() if x.args]
            e = ir.expr(nc, r[0].args[0], 8, through_phi=True) if r else None
            has = e is not None and ir.expr_contains(e, lambda z: z[0] == "bin" and z[1] == "sub" and z[2][0] == "load" and z[2][1].endswith("defer_queue.head") and z[3][0] == "load" and z[3][1].endswith("defer_queue.tail"))
            rep.check(has, "C13.ctrl", fl + ".num_callbacks.sums-head-tail", "the re-check returns the sum of head - tail over the registered queues",
                      "the re-check returns %s: queued calls are not counted, the reclaimer sleeps on a non-empty queue" % (ir.expr_str(e)[:120] if e is not None else "nothing"), [nc.name])
        # (c) decoder loop
        d = g_("rcu_defer_barrier_queue")
        rep.touch(d)
        ics = [i for i in d.all_insts() if i.op == "icall"]
        ed = pat.branch_edges_on(d, lambda a: len(a) == 3 and a[0] in ("eq", "ne") and a[1][0] == "phi" and a[2] == ("arg", 1))
        if ed and ics:
            for t, s_, a in ed:
                into = d.reach([d.blocks[s_].insts[0]], ics, avoid=lambda i, t=t: i is t, include_start=True)[0] is not None
                if into:
                    rep.check(a[0] == "ne", "C13.ctrl", fl + ".decoder.walks-while-not-head", "the decoder processes entries while position != head",
                              "the decoder enters its loop body when position == head and leaves at once otherwise: no queued call is ever invoked, yet tail is published", [t.where()])
        else:
            rep.unk("C13.ctrl", fl + ".decoder.walks-while-not-head", "decoder loop test not recognised")
        # (d) _rcu_defer_barrier_thread: skip only when head == tail
        bt = g_("_rcu_defer_barrier_thread")
        if bt is not None:
            rep.touch(bt)
            bq = pat.calls_opt(bt, d.name)
            isnum = lambda x: x[0] == "bin" and x[1] == "sub" and ir.expr_contains(x, lambda z: z[0] == "load" and z[1].endswith("defer_queue.head")) and ir.expr_contains(x, lambda z: z[0] == "load" and z[1].endswith("defer_queue.tail"))
            okE = [(t.blk.id, s_) for t, s_, a in pat.branch_edges_on(bt, lambda a: (a[0] == "eq" and a[2] == ("c", 0) and isnum(a[1])) or (a[0] == "eq" and a[1][0] == "load" and a[2][0] == "load" and {a[1][1].split(".")[-1], a[2][1].split(".")[-1]} == {"head", "tail"}))]
            if bq and okE:
                rep.must_take_edge("C13.ctrl", fl + ".barrier_thread.skips-iff-empty", bt, [bt.entry()], list(bt.rets()), okE, include_start=True, avoid=lambda i: i in bq,
                                   what="_rcu_defer_barrier_thread returns without decoding only when head == tail")
            elif bq:
                hit, _ = bt.reach([bt.entry()], list(bt.rets()), avoid=lambda i: i in bq, include_start=True)
                if hit is not None:
                    rep.bad("C13.ctrl", fl + ".barrier_thread.skips-iff-empty", "_rcu_defer_barrier_thread can return without decoding the queue on a condition other than head == tail: "
                            "rcu_defer_barrier_thread() / unregister return with the thread's calls still queued", [hit.where()])
                else:
                    rep.ok("C13.ctrl", fl + ".barrier_thread.skips-iff-empty", "_rcu_defer_barrier_thread always decodes")
        # (e) rcu_defer_barrier: skip only for an empty registry / no queued call
        b = fn["barrier"]
        pb = g_(b.name) or b
        rep.touch(pb)
        bq = pat.calls_opt(pb, d.name)
        if bq:
            def _ok(a):
                if a[0] == "ne" and a[2] == ("c", 0) and a[1][0] == "call" and a[1][1].startswith("cds_list_empty"):
                    return True
                if a[0] == "eq" and a[2] == ("c", 0) and a[1][0] == "phi":
                    e2 = ir.expr(pb, ["i", a[1][1]], 8, through_phi=True)
                    return ir.expr_contains(e2, lambda z: z[0] == "load" and (z[1].endswith("defer_queue.head") or z[1].endswith("defer_queue.last_head")))
                if a[0] == "eq" and a[2] == ("c", 0) and a[1][0] == "call" and m.fn(a[1][1]) is not None:
                    # the count comes from a helper: it is a count of queued calls if what the helper returns is built from head loads
                    h_ = m.fn(a[1][1])
                    rr = [x for x in h_.rets() if x.args]
                    return bool(rr) and ir.expr_contains(ir.expr(h_, rr[0].args[0], 8, through_phi=True), lambda z: z[0] == "load" and (z[1].endswith("defer_queue.head") or z[1].endswith("defer_queue.last_head")))
                if a[0] == "eq" and a[1][0] == "load" and a[1][1].startswith("@registry_defer") and a[2][0] == "addr" and a[2][1] == "@registry_defer":
                    return True      # inlined cds_list_empty
                return False
            okE = [(t.blk.id, s_) for t, s_, a in pat.branch_edges_on(pb, _ok)]
            # the end of the *decoding* walk over the registry (the loop that contains the decoder call) is the regular way out
            dec_loops = [c_ for c_ in pb.sccs() if any(x.blk.id in c_ for x in bq)]
            okE += [(t.blk.id, s_) for t, s_, a in pat.branch_edges_on(pb, lambda a: a[0] == "eq" and a[2][0] == "addr" and a[2][1] == "@registry_defer") if any(t.blk.id in c_ for c_ in dec_loops)]
            hit, par = pb.reach([pb.entry()], list(pb.rets()), edge_ok=pat.block_edge_filter(okE), avoid=lambda i: i in bq, include_start=True)
            if hit is None:
                rep.ok("C13.ctrl", fl + ".barrier.skips-iff-nothing-queued", "rcu_defer_barrier returns without decoding only for an empty registry or when no call is queued")
            else:
                # a violation only when the way out is the *opposite* of a recognised test (non-empty registry / calls queued); any other shape is not comparable
                def _wrong(a):
                    if a[0] == "eq" and a[2] == ("c", 0) and a[1][0] == "call" and a[1][1].startswith("cds_list_empty"):
                        return True
                    flip = ("eq",) + tuple(a[1:]) if a[0] == "ne" else None
                    return flip is not None and a[2] == ("c", 0) and _ok(flip)
                pth = pb.path_to(hit, par)
                blks = [i.blk.id for i in pth]
                wrong = [(x, y) for x, y in zip(blks, blks[1:]) if x != y and any(_wrong(a) for a in ir.edge_atoms(pb, x, y))]
                if wrong:
                    rep.bad("C13.ctrl", fl + ".barrier.skips-iff-nothing-queued", "rcu_defer_barrier returns without decoding the queues when the registry is not empty / calls are queued (and does the work when there is none): "
                            "it returns with calls queued before it still pending", [pb.blocks[wrong[0][0]].insts[-1].where()])
                else:
                    rep.unk("C13.ctrl", fl + ".barrier.skips-iff-nothing-queued", "rcu_defer_barrier has a way out without decoding that this rule cannot classify")
        # (f) reclaimer loop: a barrier after every wait
        t_ = g_("thr_defer")
        if t_ is not None:
            rep.touch(t_)
            wd = pat.calls_opt(t_, w.name)
            br = pat.calls_opt(t_, pb.name)
            if wd and br:
                hit, _ = t_.reach(wd, wd, avoid=lambda i: i in br)
                rep.check(hit is None, "C13.ctrl", fl + ".reclaimer.barrier-after-wait", "the reclaimer runs rcu_defer_barrier() after every wait", "the reclaimer can go round its loop without running the queued calls", [wd[0].where()])
            else:
                rep.bad("C13.ctrl", fl + ".reclaimer.barrier-after-wait", "the reclaimer loop does not %s" % ("wait" if not wd else "run rcu_defer_barrier(): queued calls are never executed in the background"), [t_.name])
        # (g) first registration starts the reclaimer, last unregistration stops it
        for key, callee, what in (("reg", "start_defer_thread", "started by the registration that found the registry empty"), ("unreg", "stop_defer_thread", "stopped by the unregistration that left the registry empty")):
            g = g_(fn[key].name) or fn[key]
            rep.touch(g)
            cs = pat.calls_opt(g, callee)
            if not cs:
                continue        # C13.reg / C13.unreg report the missing call
            lv = pat.dom_leaf_atoms(g, cs[0])
            emp = [a for a in lv if (a[1][0] == "call" and a[1][1].startswith("cds_list_empty") and a[2] == ("c", 0)) or (a[1][0] == "load" and a[1][1].startswith("@registry_defer") and a[2][0] == "addr")]
            if not emp:
                rep.unk("C13.ctrl", "%s.%s" % (fl, callee), "%s is not guarded by the emptiness of the registry in a form this rule recognises" % callee)
                continue
            a = emp[0]
            pos = (a[1][0] == "call" and a[0] == "ne") or (a[1][0] == "load" and a[0] == "eq")
            rep.check(pos, "C13.ctrl", "%s.%s" % (fl, callee), "the reclaimer thread is " + what,
                      "%s runs when the registry is *not* empty (and not when it is): %s" % (callee, "the first registered thread has no reclaimer - its queued calls run only on barrier / full queue; later registrations start a second reclaimer"
                                                                                               if key == "reg" else "the reclaimer is stopped while other threads still rely on it, and keeps running after the last one left"), [cs[0].where()])


def rule_tailmeaning(ctx, rep):
    """Writer / reader agreement on queue->tail.  The decoder publishes tail either after the batch's callbacks have run (tail == head then
    means `every queued call has finished`) or earlier (then it only means `slots reusable`).  The barrier entry points may decide to
    return from a read of tail made *without* rcu_defer_mutex only under the first meaning; with the second, the mutex (held by whoever
    runs the batch) is what makes them wait.  Either half alone is fine - the combination lets rcu_defer_barrier_thread() /
    rcu_defer_barrier() / unregister return while a call queued before them is still running."""
    for fl in ALL:
        F, fn = _defer_fns(ctx, fl)
        m = ctx.mod(F.lib, "perfn")
        d = m.fn("rcu_defer_barrier_queue")
        if d is None:
            raise Broken("%s: rcu_defer_barrier_queue vanished" % fl)
        rep.touch(d)
        ts = pat.stores(d, "defer_queue.tail")
        ics = [i for i in d.all_insts() if i.op == "icall"]
        pat.require(ts and ics, "%s: decoder anatomy" % fl)
        early = d.reach(ts, ics)[0] is not None          # a callback is invoked after a tail publication
        unlocked = []
        for key in ("bthread", "barrier", "unreg"):
            g = fn[key]
            rep.touch(g)
            must = lockset.compute(g)
            lds = [l for l in g.all_insts() if l.op == "load" and l.d.get("ap") and pat.last_field(l.d["ap"]) == "defer_queue.tail" and "@rcu_defer_mutex" not in must.get(l.id, ())]
            for l in lds:
                # does it decide a return that never takes the mutex?
                hit, _ = g.reach([l], None, avoid=lambda i: i.op == "call" and i.callee == "pthread_mutex_lock", stop_at_exit=True)
                if hit is not None and hit.op == "ret":
                    unlocked.append((key, l))
        if early and unlocked:
            rep.bad("C13.tailmeaning", fl, "the decoder publishes queue->tail before invoking the callback, and %s returns from a read of tail made without rcu_defer_mutex: "
                    "it can return while a call queued before it is still running in the reclaimer" % fn[unlocked[0][0]].srcname, [unlocked[0][1].where(), ts[0].where()])
        else:
            rep.ok("C13.tailmeaning", fl, "tail is %s; barrier entry points %s" % ("published before the callbacks run (slots-reusable meaning)" if early else "published after the batch's callbacks ran",
                                                                                 "read it without the mutex on a returning path" if unlocked else "read it only under rcu_defer_mutex"))


META["explanation"] += " " + 'Also (rounds 10-11): stop flag and queue heads are tested between the sleep announcement and the futex wait; writer / reader agreement on the meaning of queue->tail (published before the callbacks only if no barrier entry point returns from an unlocked read of it).'

META["explanation"] += " " + 'Also (rounds 11-12, fourth reading): control skeleton (C13.ctrl: exit / sleep polarity, decoder loop, barrier skips, reclaimer loop, start / stop of the reclaimer), bare data only for the same function, plain list.h traversal macros.'

META["explanation"] += " " + 'Also (round 13): defer_rcu tests the reclaimer futex after every publication of head - the wake-up is unconditional.'

RULES = [
    ("C13.tailmeaning", rule_tailmeaning),
    ("C13.ctrl", rule_ctrl),
    ("C13.codec", rule_codec),
    ("C13.cap", rule_cap),
    ("C13.gp", rule_gp),
    ("C13.ring", rule_ring),
    ("C13.slots", rule_slots),
    ("C13.encstate", rule_encstate),
    ("C13.locks", rule_locks),
    ("C13.reg", rule_reg),
    ("C13.unreg", rule_unreg),
    ("C13.wake", rule_wake),
    ("C13.stop", rule_stopflag),
    ("C13.listtrav", lambda c, r: __import__("sa.rules.c15", fromlist=["x"]).rule_listtrav(c, r, "C13.listtrav")),   # the registry of defer queues is walked with these macros
]
FLOORS = {}
