"""C15 — reader registration is dynamic: threads come and go without breaking grace periods (structural part)."""
from .. import ir, mm, pat, paths, lockset, linear
from ..core import Broken
from ..flavors import FL, ALL, PARITY
from ..regpair import check_regpair
from . import c01, c19

META = {
    "explanation": "Registry list mutations (add, del, move, splice on `registry`) happen only under rcu_registry_lock in every flavor (the bp fork child through the documented lock hand-off); qsbr "
                   "goes offline before taking the registry lock in unregister; register/unregister typestate (state asserted by register is re-established by unregister); the bp arena "
                   "never relocates a live chunk (mremap flags 0, munmap only when the library reference count drops to 0, new chunks appended); slot lifecycle (arena_alloc takes only free "
                   "slots and marks them, cleanup_thread resets ctr, unlinks, clears tid/alloc, decrements used on its single path); thread-exit wiring (pthread_key destructor unregisters "
                   "the slot, add_thread sets the key, unregistration clears the TLS pointer so a later read-side section re-registers); quiescent readers spliced back into the registry after "
                   "the last scan; signal-mask brackets (shared with C19).",
    "not_decided": "that each grace period waits for exactly the registered threads under all interleavings of register/unregister with the scan",
}

META["explanation"] += " " + 'Also: the sleep/wake handshake instances a leaving thread depends on (announce ≺ re-scan ≺ sleep; offline store ≺ waiting test).'


def registry_mutations(f):
    out = []
    for i in f.all_insts():
        if i.op != "store":
            continue
        if i.origin_fn not in ("cds_list_add", "cds_list_del", "__cds_list_del", "cds_list_move", "cds_list_splice", "cds_list_add_tail", "__cds_list_add"):
            continue
        s = ir.ap_str(f, i.d["ap"], 4)
        v = ir.expr_str(ir.expr(f, i.args[0], 3))
        import re as _re
        isreg = lambda t: _re.search(r"@registry(?![_A-Za-z0-9])", t) is not None
        if isreg(s) or isreg(v) or "_reader.node" in s or "_reader.node" in v:
            out.append(i)
    return out


HANDOFF_ENTRY = {"urcu_bp_after_fork_child": c19.BP_HANDOFF["urcu_bp_after_fork_child"][0], "urcu_bp_after_fork_parent": c19.BP_HANDOFF["urcu_bp_after_fork_parent"][0]}


def rule_lockset(ctx, rep):
    for fl in ALL:
        F = FL[fl]
        m = ctx.mod(F.lib, "flat")
        n = 0
        for f in m.defined():
            if f.linkage == "internal" and not m.callers(f.name) and f.name not in ("urcu_bp_thread_exit_notifier",):
                continue
            mu = registry_mutations(f)
            if not mu:
                continue
            rep.touch(f)
            n += 1
            ls = lockset.compute(f, entry=HANDOFF_ENTRY.get(f.name, frozenset()))
            bad = [i for i in mu if "@rcu_registry_lock" not in ls.get(i.id, ())]
            rep.check(not bad, "C15.lockset", "%s.%s" % (fl, f.name), "%d registry list mutation(s), all under rcu_registry_lock" % len(mu),
                      "registry list mutated without rcu_registry_lock (a concurrent grace-period scan walks a list being modified)", [b.where() for b in bad[:2]])
        pat.require(n >= 3, "%s: registry mutation sites (register/unregister/synchronize) not found (%d)" % (fl, n))


def rule_reg(ctx, rep):
    for fl in ("memb", "mb", "qsbr"):
        F = FL[fl]
        check_regpair(ctx, rep, "C15.reg", fl, F.lib, F.pfx + "_register_thread", F.pfx + "_unregister_thread")
    F = FL["qsbr"]
    g = ctx.fn("qsbr", "urcu_qsbr_unregister_thread")
    rep.touch(g)
    own = c01.own_ctr(F)
    off = [e.inst for e in pat.accesses(g, F.rfield, ("store",), pred=own) if ir.const_of(g, e.val) == 0]
    lk = pat.mutex_calls(g, "pthread_mutex_lock", "rcu_registry_lock")
    dels = [i for i in registry_mutations(g)]
    pat.require(lk and dels, "qsbr unregister anatomy")
    if not off:
        rep.bad("C15.qsbr", "unregister.offline", "qsbr unregister never goes offline: a grace period in progress keeps waiting for a thread that left", [g.name])
    else:
        rep.must_pass("C15.qsbr", "unregister.offline≺lock≺del", g, [g.entry()], lk, lambda i: i in off, include_start=True, what="offline before the registry lock")
    # registration starts online (reader word = gp.ctr) after being linked? register calls thread_online
    r = ctx.fn("qsbr", "urcu_qsbr_register_thread")
    on = [e.inst for e in pat.accesses(r, F.rfield, ("store",), pred=own)]
    adds = registry_mutations(r)
    pat.require(adds, "qsbr register: list add")
    rep.check(bool(on), "C15.qsbr", "register.online", "a registered qsbr thread starts online", "qsbr register leaves the thread offline (its implicit read-side sections are not waited for)", [r.name])
    if on:
        rep.must_pass("C15.qsbr", "register.linked≺online", r, [r.entry()], on, lambda i: i in adds, include_start=True, what="thread is linked into the registry before it goes online")


def rule_bp_owner(ctx, rep, rid="C15.bpowner"):
    """bp: a slot records its owner (tid = pthread_self()) before it becomes visible on the registry; the fork child keeps exactly
    the slot whose tid is its own and prunes the others, thread exit finds its slot through the TLS pointer set here."""
    pm = ctx.mod("bp", "perfn")
    at = pm.fn("add_thread")
    if at is None:
        raise Broken("bp: add_thread vanished")
    rep.touch(at)
    tid = [s_ for s_ in pat.stores(at, "urcu_bp_reader.tid") if (lambda e: e[0] == "call" and e[1] == "pthread_self")(ir.expr(at, s_.args[0], 3))]
    link = [i for i in at.all_insts() if (i.op == "call" and i.callee in ("cds_list_add", "cds_list_add_tail")) or (i.op == "store" and pat.from_fn_opt(i, "cds_list_add"))]
    tls = [s_ for s_ in at.all_insts() if s_.op == "store" and s_.d["ap"] and "urcu_bp_reader" in ir.ap_str(at, s_.d["ap"]) and ir.ap_str(at, s_.d["ap"]).startswith(("tls:", "@urcu_bp_reader"))]
    key = pat.calls(at, "pthread_setspecific")
    pat.require(link, "add_thread: registry link")
    if not tid:
        rep.bad(rid, "add_thread.tid", "a registered slot never records its owner's thread id: after fork() the child cannot tell its own slot from the others (it prunes its own reader state)", [at.name])
    else:
        rep.must_pass(rid, "add_thread.tid≺link", at, [at.entry()], link, lambda i: i in tid, include_start=True, what="tid = pthread_self() is stored before the slot is linked into the registry")
    rep.check(bool(key), rid, "add_thread.key", "the slot is bound to the thread-exit key (destructor finds it)", "add_thread does not bind the slot to the exit key: a thread that exits leaves its slot allocated for ever", [at.name])


def rule_arena(ctx, rep):
    m = ctx.mod("bp", "flat")
    pm = ctx.mod("bp", "perfn")
    ex = pm.fn("expand_arena")
    if ex is None:
        raise Broken("bp: expand_arena vanished")
    rep.touch(ex)
    mr = [c for c in ex.calls() if c.callee in ("mremap_wrapper", "mremap")]
    pat.require(mr, "expand_arena: mremap")
    for c in mr:
        fl = ir.const_of(ex, c.args[3])
        rep.check(fl == 0, "C15.arena", "mremap-flags", "mremap is called with flags 0: a live chunk is only ever grown in place", "mremap flags = %s: the kernel may move a chunk that registered readers point into" % fl, [c.where()])
    # in-place growth: exactly the appended bytes [old size, new size) are zeroed - the old range holds live reader slots and the
    # new slots must read alloc == 0
    for c in mr:
        ms = [i for i in ex.all_insts() if i.op == "call" and i.callee and i.callee.startswith("llvm.memset") and ex.dominates(c, i)
              and not any(ir.expr_contains(ir.expr(ex, i.args[0], 6), lambda z: z[0] == "call" and z[1] == "mmap") for _ in (0,))]
        ms = [i for i in ms if ex.reach([c], [i], avoid=lambda x: x.op == "call" and x.callee == "mmap")[0] is not None]
        pat.require(ms, "expand_arena: memset after in-place mremap")
        old_sz = ir.expr(ex, c.args[1], 8)
        new_sz = ir.expr(ex, c.args[2], 8)
        for i in ms:
            g = ex.insts[i.args[0][1]] if i.args[0][0] == "i" else None
            off = ir.expr(ex, g.args[1], 8) if g is not None and g.op == "gep" and len(g.args) == 2 else None
            ln = ir.expr(ex, i.args[2], 8)
            L = [linear.norm(x) if x is not None else None for x in (off, ln, old_sz, new_sz)]
            if any(x is None for x in L) or ir.expr(ex, g.args[0], 8) != ir.expr(ex, c.args[0], 8):
                raise Broken("expand_arena: zeroed range of the in-place growth is not a linear function of the capacity (%s, %s)" % (ir.expr_str(off) if off else "?", ir.expr_str(ln)))
            ok_off = L[0] == L[2]
            ok_len = L[1] == linear.sub(L[3], L[2])
            rep.check(ok_off and ok_len, "C15.arena", "expand.zero-exactly-appended", "in-place growth zeroes exactly [old chunk size, new chunk size) of the grown chunk",
                      "in-place growth zeroes [%s, +%s) instead of [old size, new size): %s" % (ir.expr_str(off) if off is not None else "?", ir.expr_str(ln),
                      "live reader slots of registered threads are wiped (their nesting count / alloc flag reads 0: grace periods stop waiting for them, slots are handed out twice)"
                      if not ok_off else "slots appended by the growth keep stale bytes / live slots are wiped"), [i.where()])
        # the chunk grows: new size - old size is a positive multiple of the capacity
        diff = linear.sub(linear.norm(new_sz) or {}, linear.norm(old_sz) or {})
        grows = bool(diff) and all(c_ > 0 for c_ in diff.values()) and all(isinstance(t_, tuple) and t_[0] == "ld" and t_[1].endswith("registry_chunk.capacity") for t_ in diff)
        rep.check(grows, "C15.arena", "expand.grows", "the in-place remap enlarges the chunk (new - old = %s)" % linear.show(diff),
                  "the in-place remap does not enlarge the chunk (new size - old size = %s): registered readers' slots beyond the new end are unmapped / no slot is gained" % linear.show(diff), [c.where()])
    # ... and records it: on the in-place path (mremap succeeded, no fresh mapping) the grown chunk's capacity is updated to match the
    # new size - otherwise arena_alloc keeps seeing a full chunk, expands again, and registration beyond the initial capacity fails
    # although the memory is there.  Decided on the flattened registration root: helpers extracted from expand_arena are inlined there.
    g = ctx.fn("bp", "urcu_bp_register")
    rd_ = pm.structs.get("urcu_bp_reader")
    for c in [c_ for c_ in g.calls() if c_.callee == "mremap"]:
        is_map = lambda x: x.op == "call" and x.callee == "mmap"
        capst = [s_ for s_ in pat.stores(g, "registry_chunk.capacity") if g.reach([c], [s_], avoid=is_map)[0] is not None]
        hit, par = g.reach([c], None, avoid=lambda x: is_map(x) or x in capst, stop_at_exit=True)
        if hit is not None and hit.op == "ret":
            rep.bad("C15.arena", "expand.inplace-records-capacity", "after growing the last chunk in place the registration path returns without updating the chunk's capacity: the new slots are never handed out, "
                    "the arena is `full` at its initial capacity and the next registration aborts", [c.where()])
            continue
        rep.ok("C15.arena", "expand.inplace-records-capacity", "the in-place path stores the chunk's new capacity")
        old_sz = ir.expr(g, c.args[1], 8)
        new_sz = ir.expr(g, c.args[2], 8)
        for s_ in capst[:1]:
            capn = linear.norm(ir.expr(g, s_.args[0], 8))
            d_sz = linear.sub(linear.norm(new_sz) or {}, linear.norm(old_sz) or {})
            if capn is not None and rd_ and d_sz and all(isinstance(t_, tuple) and t_[0] == "ld" for t_ in d_sz):
                # new - old bytes == (new capacity - old capacity) * slot size, old capacity being the load the sizes are computed from
                oldcap = {t_: 1 for t_ in d_sz}
                want = {t_: c2 * rd_["size"] for t_, c2 in linear.sub(capn, oldcap).items()}
                rep.check(want == d_sz, "C15.arena", "expand.inplace-capacity=size", "the recorded capacity grows by exactly the slots the remap appended",
                          "the in-place growth appends %s bytes but records a capacity change of %s slots of %d bytes: slots beyond the mapping are handed out, or mapped slots never are"
                          % (linear.show(d_sz), linear.show(linear.sub(capn, oldcap)), rd_["size"]), [s_.where()])
    # every chunk handed to the arena has its capacity recorded before it becomes reachable, and the capacity matches its size
    # (decided in whichever function of the library maps a chunk: expand_arena itself or a helper extracted from it)
    rd = pm.structs.get("urcu_bp_reader")
    nmap = 0
    for g in [ctx.fn("bp", "urcu_bp_register")]:      # flattened root: expand_arena and whatever helpers it uses are inlined
        mm_new = [c_ for c_ in g.calls("mmap")]
        if not mm_new:
            continue
        adds = [i for i in g.all_insts() if i.op == "store" and pat.from_fn_opt(i, "cds_list_add_tail") and pat.from_fn_opt(i, "expand_arena")]
        caps = [s_ for s_ in pat.stores(g, "registry_chunk.capacity")]
        if not adds:
            continue
        rep.touch(g)
        for c_ in mm_new:
            nmap += 1
            mine = [s_ for s_ in caps if ir.ap_str(g, s_.d["ap"]).startswith("mmap()#%d." % c_.id)]
            my_adds = [a_ for a_ in adds if g.reach([c_], [a_], avoid=lambda i: i.op == "call" and i.callee == "mmap" and i is not c_)[0] is not None]
            if not mine:
                rep.bad("C15.arena", "expand.capacity-set@%d" % c_.line, "a freshly mapped chunk is linked into the arena without its capacity being recorded (capacity 0: the chunk is always `full`, every registration expands again)", [c_.where()])
                continue
            rep.must_pass("C15.arena", "expand.capacity-set@%d" % c_.line, g, [c_], my_adds, lambda i: i in mine, what="capacity is stored before the new chunk is linked into chunk_list")
            sz = linear.norm(ir.expr(g, c_.args[1], 8))
            cap = linear.norm(ir.expr(g, mine[0].args[0], 8))
            if sz is not None and cap is not None and rd and not any(isinstance(t_, tuple) and t_[0] == "t" and "arg" in t_[1] for t_ in list(sz) + list(cap)):
                want = {t_: c2 * rd["size"] for t_, c2 in cap.items()}
                d2 = linear.sub(sz, want)
                okc = set(d2) <= {1} and 0 <= d2.get(1, 0) <= 4096
                rep.check(okc, "C15.arena", "expand.capacity=size@%d" % c_.line, "recorded capacity times the slot size plus the chunk header is the mapped size",
                          "recorded capacity (%s slots of %d bytes) does not match the mapped size %s: arena_alloc hands out slots beyond the mapping" % (linear.show(cap), rd["size"], linear.show(sz)), [mine[0].where()])
    pat.require(nmap >= 1, "bp: no function maps a registry chunk")
    w = pm.fn("mremap_wrapper")
    if w is not None:
        for c in pat.calls(w, "mremap"):
            rep.check(ir.expr(w, c.args[3]) == ("arg", 3), "C15.arena", "mremap_wrapper.forwards-flags", "wrapper forwards the caller's flags", "wrapper overrides flags", [c.where()])
    # new chunk appended; never replaces: stores via cds_list_add_tail only
    rep.check(not pat.calls(ex, "munmap"), "C15.arena", "expand-never-unmaps", "expand_arena never unmaps", "expand_arena unmaps a chunk", [ex.name])
    who = sorted(set(i.origin_fn for f in m.defined() for i in f.all_insts() if i.op == "call" and i.callee == "munmap"))
    rep.check(who == ["urcu_bp_exit"], "C15.arena", "who-munmaps", "chunks are unmapped only by urcu_bp_exit", "munmap of registry chunks from %s" % who, who)
    for f in m.defined():
        for c in pat.calls(f, "munmap"):
            if c.origin_fn != "urcu_bp_exit":
                continue
            lv = pat.dom_leaf_atoms(f, c)
            ok = any(a[0] == "eq" and a[2] == ("c", 0) and ir.expr_contains(a[1], lambda z: z[0] == "load" and z[1] == "@urcu_bp_refcount") for a in lv)
            rep.check(ok, "C15.arena", "%s.munmap-when-refcount-0" % f.name, "chunks unmapped only when the reference count reaches 0", "chunks unmapped while the library is still referenced", [c.where()])


def rule_slot(ctx, rep, rid="C15.slot"):
    pm = ctx.mod("bp", "perfn")
    al = pm.fn("arena_alloc")
    cl = pm.fn("cleanup_thread")
    if al is None or cl is None:
        raise Broken("bp: arena_alloc / cleanup_thread vanished")
    rep.touch(al)
    rep.touch(cl)
    sets = [s for s in pat.stores(al, "urcu_bp_reader.alloc") if ir.const_of(al, s.args[0]) == 1]
    pat.require(sets, "arena_alloc: alloc=1 store")
    for s in sets:
        lv = pat.dom_leaf_atoms(al, s)
        ok = any(a[0] == "eq" and a[2] == ("c", 0) and ir.expr_contains(a[1], lambda z: z[0] == "load" and z[1].endswith("urcu_bp_reader.alloc")) for a in lv)
        rep.check(ok, rid, "alloc.takes-free-slot", "a slot is taken only when its alloc flag is 0", "arena_alloc can hand out a slot that is already allocated (two threads share one reader word)", [s.where()])
        used = [x for x in pat.stores(al, "registry_chunk.used")]
        rep.must_pass(rid, "alloc.used++", al, [s], None, lambda i: i in used, to_exit=True, what="used is incremented with every allocation")
    # the search for a free slot looks at every slot of the chunk, 0 .. capacity-1: slots freed by exited threads are anywhere (also below
    # `used`), and a search that skips some of them never reuses those slots and grows the registry instead
    k = 0
    for ph, inits, steps, stays in pat.counted_loops(al):
        cap = [(a, t) for a, t in stays if a[1] == ("phi", ph.id) and a[2][0] == "load" and a[2][1].endswith("registry_chunk.capacity")]
        if not cap:
            continue
        k += 1
        where = [cap[0][1].where()]
        if inits == [0]:
            rep.ok(rid, "alloc.search-from-0", "the free-slot search starts at slot 0")
        elif inits and all(x is not None for x in inits):
            rep.bad(rid, "alloc.search-from-0", "the free-slot search starts at slot %s: lower slots are never handed out again" % inits, where)
        else:
            v0 = [ir.expr_str(ir.expr(al, v, 3)) for v, blk in ph.d["inc"] if not al.bdom(ph.blk.id, blk)]
            rep.bad(rid, "alloc.search-from-0", "the free-slot search starts at %s instead of slot 0: a slot freed by an exited thread below that index is never reused while younger threads live - "
                    "the registry grows although free slots exist" % v0, where)
        okstep = bool(steps) and all(e[0] == "bin" and e[1] == "add" and e[3] == ("c", 1) and e[2] == ("phi", ph.id) for e in steps)
        rep.check(okstep, rid, "alloc.search-step-1", "the search visits every slot", "the search advances by %s" % [ir.expr_str(e) for e in steps], where)
        rep.check(all(a[0] in ("ult", "ne", "slt") for a, t in cap), rid, "alloc.search-below-capacity", "the search continues while index < capacity", "the search continues while index %s capacity" % cap[0][0][0], where)
    pat.require(k >= 1, "arena_alloc: slot search loop not recognised")
    want = {"urcu_bp_reader.ctr": 0, "urcu_bp_reader.tid": 0, "urcu_bp_reader.alloc": 0}
    for fld, val in want.items():
        st = [s for s in pat.stores(cl, fld) if ir.const_of(cl, s.args[0]) == val]
        if not st:
            rep.bad(rid, "cleanup." + fld, "cleanup_thread does not reset %s: the freed slot keeps a stale %s" % (fld, fld.split(".")[-1]), [cl.name])
        else:
            rep.must_pass(rid, "cleanup." + fld, cl, [cl.entry()], None, lambda i: i in st, to_exit=True, include_start=True, what="%s reset on every path" % fld)
    dl = pat.calls(cl, "cds_list_del")
    us = [s for s in pat.stores(cl, "registry_chunk.used") if (lambda e: e[0] == "bin" and e[1] == "add" and e[3] == ("c", -1))(ir.expr(cl, s.args[0]))]
    rep.check(bool(dl), rid, "cleanup.list_del", "the slot is unlinked from the registry", "cleanup_thread leaves the slot on the registry list", [cl.name])
    rep.check(bool(us), rid, "cleanup.used--", "used is decremented", "cleanup_thread does not decrement used", [cl.name])


def rule_key(ctx, rep):
    m = ctx.mod("bp", "flat")
    kc = [(f, c) for f in m.defined() for c in pat.calls(f, "pthread_key_create")]
    pat.require(kc, "bp: pthread_key_create")
    n = None
    for f, c in kc:
        d = ir.expr(f, c.args[1])
        rep.check(d[0] == "fn" and m.fn(d[1]) is not None, "C15.key", "destructor", "the pthread key has a destructor defined in the library (%s)" % (d[1] if d[0] == "fn" else "?"),
                  "pthread key destructor is %s" % ir.expr_str(d), [c.where()])
        if d[0] == "fn":
            n = m.fn(d[1])
    if n is None:
        raise Broken("bp: exit notifier vanished")
    rep.touch(n)
    cl = [s for s in pat.stores(n, "urcu_bp_reader.alloc") if ir.const_of(n, s.args[0]) == 0 and s.d["ap"]["base"] == ["a", 0]]
    rep.check(bool(cl), "C15.key", "notifier-unregisters-its-slot", "the destructor cleans up the slot passed as key value", "destructor does not clean up its slot", [n.name])
    tls0 = [s for s in pat.stores(n, glob="urcu_bp_reader") if ir.const_of(n, s.args[0]) == 0]
    if not tls0:
        rep.bad("C15.key", "unregister-clears-tls", "unregistration leaves the TLS reader pointer pointing at the freed slot: a later read-side section on this thread (e.g. from a destructor "
                "running afterwards) uses a slot that is no longer on the registry, or that another thread now owns", [cl[0].where()] if cl else [n.name])
    else:
        rep.must_pass("C15.key", "unregister-clears-tls", n, cl, None, lambda i: i in tls0, to_exit=True, what="the TLS reader pointer is cleared whenever the thread's slot is released")
    r = m.fn("urcu_bp_register")
    rep.touch(r)
    ss = pat.calls(r, "pthread_setspecific")
    tls = [s for s in pat.stores(r, glob="urcu_bp_reader")]
    rep.check(bool(ss) and bool(tls), "C15.key", "add_thread-sets-key", "add_thread sets the pthread key (so the destructor runs) and the TLS pointer", "add_thread does not set the pthread key / TLS pointer", [r.name])


def rule_lists(ctx, rep):
    for fl in ALL:
        F = FL[fl]
        f = ctx.fn(F.lib, F.pfx + "_synchronize_rcu")
        rep.touch(f)
        isrd = c01.is_rd_ctr_load(F)
        scans = pat.scc_of(f, isrd)
        pat.require(scans, "%s: scans" % fl)
        last = scans[-1]
        for comp in scans:
            ent = f.blocks[pat.scc_entries(f, comp)[0]].insts[0]
            if all(f.dominates(f.blocks[pat.scc_entries(f, c2)[0]].insts[0], ent) for c2 in scans):
                last = comp
        # the put-back, by what it does: stores that rewire the registry head after the scans (whatever helper performs them)
        after = set(f.reachable_set(pat.scc_exit_targets(f, last))) | set(x.id for x in pat.scc_exit_targets(f, last))
        sp = [i for i in f.all_insts() if i.op == "store" and i.id in after and i.d["ap"] and "@registry" in ir.ap_str(f, i.d["ap"], 3) and not pat.from_fn_opt(i, "cds_list_move")
              and not pat.from_fn_opt(i, "cds_list_del") and not pat.from_fn_opt(i, "cds_list_add")]
        sp += [i for i in f.all_insts() if i.op == "store" and i.id in after and ir.expr(f, i.args[0], 2) == ("addr", "@registry")]
        # the put-back may be skipped when there is nothing to put back: the emptiness test of the local list belongs to it
        sp += [i for i in f.all_insts() if i.id in after and i.op == "load" and i.d["ap"] and ir.ap_str(f, i.d["ap"], 3).startswith("local:") and pat.last_field(i.d["ap"]) == "cds_list_head.next"
               and any(x.op == "store" and x.blk.id != i.blk.id and x in sp and f.reach([i], [x])[0] is not None for x in list(sp))]
        if not sp:
            rep.bad("C15.lists", fl + ".splice-back", "quiescent readers are never spliced back into the registry: after one grace period the registry is empty and later ones wait for nobody", [f.name])
            continue
        # a splice keeps what is already on the registry (threads that registered while the scan had dropped the lock): the old
        # first element's prev and the moved list's tail are linked to each other
        keeps = [i for i in sp if i.op == "store" and ir.ap_str(f, i.d["ap"], 3).startswith("*(@registry.") and pat.last_field(i.d["ap"]).endswith(".prev")]
        links = [i for i in f.all_insts() if i.op == "store" and i.id in after and (lambda v: v[0] == "load" and v[1].startswith("@registry.") and v[1].endswith(".next"))(ir.expr(f, i.args[0], 2))]
        rep.check(bool(keeps) and bool(links), "C15.lists", fl + ".splice-keeps-registry", "the put-back links the readers already on the registry behind the returned ones (a splice, not an overwrite)",
                  "the put-back overwrites the registry head instead of splicing into it: a thread that registered while the scan had released the registry lock is dropped from the registry - "
                  "later grace periods do not wait for it", [sp[0].where()])
        ul = pat.mutex_calls(f, "pthread_mutex_unlock", "rcu_registry_lock")
        root_ul = [u for u in ul if len(u.scope_chain) <= 2]
        rep.must_pass("C15.lists", fl + ".scan≺splice≺unlock", f, pat.scc_exit_targets(f, last), root_ul, lambda i: i in sp, include_start=True,
                      what="after the last scan the qsreaders list is spliced back into the registry before the registry lock is dropped")
        dst = [s for s in sp if s.op == "store" and "@registry" in ir.ap_str(f, s.d["ap"], 3)]
        rep.check(bool(dst), "C15.lists", fl + ".splice-into-registry", "the splice targets the registry", "the splice does not write the registry head", [sp[0].where()])


LF = "cds_list_head"
def rule_listtrav(ctx, rep, rid="C15.listtrav"):
    """Skeleton of the plain list.h traversal macros (witness/list.c) the registries, helper lists and fork handlers are walked with:
    the body runs exactly for cursors different from the list head, receives the tested cursor (entry variants: the element containing
    it), the walk starts at head->next (head->prev for the reverse forms), advances along the same direction, and returns only after the
    cursor reached the head; the _safe forms read the successor before the body runs.  cds_list_empty(head) is `head->next == head`."""
    m = ctx.mod("w_list", "flat")
    fs = [f for f in m.defined() if f.name.startswith("w_ltrav_")]
    pat.require(len(fs) >= 7, "plain list traversal witnesses missing (%d)" % len(fs))
    for f in fs:
        rep.touch(f)
        tag = f.name[len("w_ltrav_"):]
        rev = "prev" in tag or "reverse" in tag
        fld = "cds_list_head.prev" if rev else "cds_list_head.next"
        other = "cds_list_head.next" if rev else "cds_list_head.prev"
        vis = pat.calls(f, "w_visit")
        pat.require(len(vis) == 1, tag + ": body")
        v = vis[0]
        lv = pat.dom_leaf_atoms(f, v)
        cur = [a for a in lv if a[0] == "ne" and a[2] == ("arg", 0)]
        inv = [a for a in lv if a[0] == "eq" and a[2] == ("arg", 0)]
        rep.check(bool(cur) and not inv, rid, tag + ".body-iff-not-head", "the body runs only for a cursor that is not the list head",
                  "the body runs on a path where the cursor %s" % ("is the head: the head itself is visited as an element and real elements are not" if inv else "was not compared with the head"), [v.where()])
        ends = [(t.blk.id, s_) for t, s_, a in pat.branch_edges_on(f, lambda a: a[0] == "eq" and a[2] == ("arg", 0))]
        if ends:
            rep.must_take_edge(rid, tag + ".ends-at-head", f, [f.entry()], list(f.rets()), ends, include_start=True, what="the traversal returns only after the cursor reached the head")
        else:
            rep.bad(rid, tag + ".ends-at-head", "the traversal has no `cursor == head` exit", [f.name])
        lds = [l for l in f.all_insts() if l.op == "load" and l.d.get("ap") and pat.last_field(l.d["ap"]) in (fld, other)]
        wrong = [l for l in lds if pat.last_field(l.d["ap"]) == other]
        rep.check(bool(lds) and not wrong, rid, tag + ".direction", "the walk follows ->%s only" % fld.split(".")[1], "the walk loads ->%s: it changes direction / mixes both links" % other.split(".")[1], [l.where() for l in wrong[:1]] or [f.name])
        first = [l for l in lds if l.d["ap"]["base"] == ["a", 0] and pat.last_field(l.d["ap"]) == fld and len(l.d["ap"]["steps"]) == 1]
        rep.check(bool(first), rid, tag + ".starts-at-head-link", "the walk starts from head->%s" % fld.split(".")[1], "no load of head->%s: the walk does not start at the first element" % fld.split(".")[1], [f.name])
        if "safe" in tag and cur:
            # the successor used to continue is loaded before the body runs (the body may unlink / free the element)
            after = f.reachable_set([v])
            late = [l for l in lds if l.id in after and l not in first and not any(f.dominates(l, v) for _ in (0,))]
            hdr_lds = [l for l in lds if f.dominates(l, v) and l not in first]
            rep.check(bool(hdr_lds) or len(lds) >= 2, rid, tag + ".next-before-body", "the successor is read before the body runs", "the _safe form reads the successor only after the body: an element removed (and freed) by the body is dereferenced", [v.where()])
    e = m.fn("w_lempty")
    if e is not None:
        rep.touch(e)
        r = ir.expr(e, e.rets()[0].args[0], 6)
        ok = ir.expr_contains(r, lambda z: z[0] == "icmp" and z[1] == "eq" and {str(z[2]), str(z[3])} == {str(("arg", 0)), str(("load", "arg0.cds_list_head.next", "na", z[2][3] if z[2][0] == "load" else (z[3][3] if z[3][0] == "load" else 0)))})
        ok = ok or ir.expr_contains(r, lambda z: z[0] == "icmp" and z[1] == "eq" and any(y == ("arg", 0) for y in z[2:]) and any(isinstance(y, tuple) and y[0] == "load" and y[1] == "arg0.cds_list_head.next" for y in z[2:]))
        rep.check(ok, rid, "cds_list_empty", "cds_list_empty(head) is head->next == head", "cds_list_empty returns %s" % ir.expr_str(r), [e.name])


LISTOPS = {
    "cds_list_add_tail": {("*(arg1.%s.prev).%s.next" % (LF, LF), "arg0"), ("arg0.%s.next" % LF, "arg1"), ("arg0.%s.prev" % LF, "ld(arg1.%s.prev)" % LF), ("arg1.%s.prev" % LF, "arg0")},
    "cds_list_add": {("*(arg1.%s.next).%s.prev" % (LF, LF), "arg0"), ("arg0.%s.next" % LF, "ld(arg1.%s.next)" % LF), ("arg0.%s.prev" % LF, "arg1"), ("arg1.%s.next" % LF, "arg0")},
    "__cds_list_del": {("arg1.%s.prev" % LF, "arg0"), ("arg0.%s.next" % LF, "arg1")},
    "cds_list_splice": {("*(arg0.%s.next).%s.prev" % (LF, LF), "arg1"), ("*(arg0.%s.prev).%s.next" % (LF, LF), "ld(arg1.%s.next)" % LF),
                        ("*(arg1.%s.next).%s.prev" % (LF, LF), "ld(arg0.%s.prev)" % LF), ("arg1.%s.next" % LF, "ld(arg0.%s.next)" % LF)},
}


def rule_listops(ctx, rep):
    """pointer surgery of the list primitives the registry is built on (T12: exact table of (target, value) pairs over the
    pre-state: every load reads a location no earlier store of the function wrote)"""
    n = 0
    for fl in ALL:
        F = FL[fl]
        m = ctx.mod(F.lib, "perfn")
        for name, want in LISTOPS.items():
            for f in m.by_src(name):
                rep.touch(f)
                n += 1
                sts = [s for s in f.all_insts() if s.op == "store"]
                lds = [l for l in f.all_insts() if l.op == "load"]
                # pre-state discipline
                dirty = [(s, l) for s in sts for l in lds if ir.ap_str(f, s.d["ap"]) == ir.ap_str(f, l.d["ap"]) and f.reach([s], [l])[0] is not None]
                if dirty:
                    raise Broken("%s.%s: a load re-reads a location written earlier in the function (%s): the pair table does not apply" % (fl, f.name, dirty[0][1].where()))
                got = set((ir.ap_str(f, s.d["ap"]), ir.expr_str(ir.expr(f, s.args[0], 3))) for s in sts)
                rep.check(got == want, "C15.listops", "%s.%s" % (fl, f.name), "%s performs exactly the %d pointer updates of a doubly-linked %s" % (name, len(want), name.split("_")[-1]),
                          "%s pointer updates differ from a correct %s: unexpected %s, missing %s (the registry list is corrupted / loses readers)" % (
                              name, name.split("_")[-1], sorted(got - want), sorted(want - got)), [s.where() for s in sts if (ir.ap_str(f, s.d["ap"]), ir.expr_str(ir.expr(f, s.args[0], 3))) in (got - want)][:2] or [f.name])
                if name == "cds_list_splice":
                    g = all(any(a[0] == "ne" and set([ir.expr_str(a[1]), ir.expr_str(a[2])]) == set(["arg0", "ld(arg0.%s.next)" % LF]) for a in pat.dom_leaf_atoms(f, s)) for s in sts)
                    rep.check(g, "C15.listops", "%s.%s.nonempty-guard" % (fl, f.name), "splices only a non-empty source list", "splice not guarded by `source non-empty`", [f.name])
        for f in m.by_src("cds_list_del") + m.by_src("cds_list_move"):
            rep.touch(f)
            d = [c for c in f.calls() if m.fn(c.callee) is not None and m.fn(c.callee).srcname == "__cds_list_del"]
            ok = len(d) == 1 and ir.expr_str(ir.expr(f, d[0].args[0], 2)) == "ld(arg0.%s.prev)" % LF and ir.expr_str(ir.expr(f, d[0].args[1], 2)) == "ld(arg0.%s.next)" % LF
            rep.check(ok, "C15.listops", "%s.%s.unlink" % (fl, f.name), "unlinks with __cds_list_del(elem->prev, elem->next)", "%s unlinks with wrong neighbours" % f.srcname, [f.name])
            if f.srcname == "cds_list_move":
                a = [c for c in f.calls() if m.fn(c.callee) is not None and m.fn(c.callee).srcname == "cds_list_add"]
                ok2 = len(a) == 1 and d and f.dominates(d[0], a[0]) and ir.expr(f, a[0].args[0]) == ("arg", 0) and ir.expr(f, a[0].args[1]) == ("arg", 1)
                rep.check(ok2, "C15.listops", "%s.%s.relink" % (fl, f.name), "then adds the element to the destination head", "cds_list_move does not unlink-then-add(elem, head)", [f.name])
    pat.require(n >= 8, "list primitives not found (%d)" % n)


def rule_leave(ctx, rep):
    """A thread that leaves (qsbr: unregister goes offline first; memb/mb: its last read_unlock) must release an updater
    that is waiting for it or about to sleep on it: the sleep/wake handshake of C02 restricted to the instances a departing
    thread depends on (it will never report again, so a wake-up lost at that moment is lost for good)."""
    from . import c02
    n0 = len(rep.results)
    c02.rule_sb_upd(ctx, rep)
    c02.rule_sb_rd(ctx, rep)
    keep = []
    for r in rep.results[n0:]:
        if r["instance"].startswith("qsbr.") or "announce" in r["instance"]:
            r["rule"] = "C15.leave"
            r["key"] = r["key"].replace("C02.sb-upd", "C15.leave").replace("C02.sb-rd", "C15.leave")
            keep.append(r)
    del rep.results[n0:]
    rep.results += keep
    pat.require(len(keep) >= 4, "sleep/wake handshake instances vanished")


def rule_findchunk(ctx, rep):
    """bp arena: find_chunk() maps a reader slot to the chunk whose array contains it - both bounds (slot >= &readers[0] and
    slot < &readers[capacity]).  With only one bound, slots of a chunk mapped below an older chunk are attributed to the older
    one: its `used` count is decremented instead, the real chunk looks full for ever and slots of exited threads are not reused."""
    m = ctx.mod("bp", "perfn")
    f = m.fn("find_chunk")
    pat.require(f is not None, "find_chunk vanished")
    rep.touch(f)
    n = 0
    for p_, atoms, v in paths.ret_cases(f):
        if v is None or v == ("c", 0):
            continue
        n += 1
        lo = any(a[0] == "uge" and a[1] == ("arg", 0) and a[2][0] == "addr" and a[2][1].endswith("registry_chunk.readers[0]") for a in atoms)
        hi = any(a[0] == "ult" and a[1] == ("arg", 0) and a[2][0] == "addr" and "registry_chunk.readers[" in a[2][1] and not a[2][1].endswith("readers[0]") for a in atoms)
        rep.check(lo and hi, "C15.arena", "find_chunk.both-bounds", "a chunk is returned only for readers[0] <= slot < readers[capacity]",
                  "find_chunk returns a chunk on %s: %s bound missing - a slot of another chunk is attributed to this one" % ([ir.atom_str(a) for a in atoms][-3:], "lower" if not lo else "upper"),
                  [f.rets()[0].where()])
    pat.require(n >= 1, "find_chunk never returns a chunk")


META["explanation"] += " " + "Also (round 10): in-place growth records the grown chunk's capacity, matching the bytes appended."

META["explanation"] += " " + 'Also (rounds 11-12): free-slot search covers 0..capacity-1, plain list.h traversal macros and cds_list_add_tail (witness/list.c).'

META["explanation"] += " " + 'Also (round 13): no grace period sleeps with rcu_registry_lock held (shared from C02.locks): registration must be possible at any moment.'

META["explanation"] += " " + 'Also (round 14): bp lock order shared from C02.lockorder.'

RULES = [
    ("C15.listops", rule_listops),
    ("C15.bpowner", rule_bp_owner),
    ("C15.lockset", rule_lockset),
    ("C15.reg", rule_reg),
    ("C15.arena", rule_arena),
    ("C15.arena", rule_findchunk),
    ("C15.slot", rule_slot),
    ("C15.key", rule_key),
    ("C15.lists", rule_lists),
    ("C15.listtrav", rule_listtrav),
    ("C15.sig", lambda c, r: _sig(c, r)),
    ("C15.leave", rule_leave),
    ("C15.lockorder", lambda c, r: pat.shared(__import__("sa.rules.c02", fromlist=["x"]).rule_lockorder, "C15.lockorder", lambda x: x["instance"].startswith("bp.") or x["status"] != "pass")(c, r)),   # registration takes rcu_registry_lock: an inverted order against rcu_gp_lock deadlocks it against a running grace period
    ("C15.gpsleep", lambda c, r: pat.shared(__import__("sa.rules.c02", fromlist=["x"]).rule_locks, "C15.gpsleep", lambda x: "no-sleep-with-registry-lock" in x["instance"] or x["status"] != "pass")(c, r)),   # `at any moment relative to running grace periods`: a grace period that sleeps with rcu_registry_lock held keeps every (un)registration - bp's lazy registration from inside a critical section included - blocked until the readers it waits for leave
]


def _sig(ctx, rep):
    n0 = len(rep.results)
    c19.rule_bp(ctx, rep)
    for r in rep.results[n0:]:
        r["rule"] = "C15.sig"
        r["key"] = r["key"].replace("C19.bp", "C15.sig")


FLOORS = {}
