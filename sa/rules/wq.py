"""Work queue (src/workqueue.c): the thread that executes hash-table resizes and deferred destroys.  It is a sibling of the
call_rcu helper (same enqueue / sleep / wake / stop protocol, same completion barrier as rcu_barrier) and is decided by the
same rule templates, instantiated on its own fields.  Used by C09 (a queued resize is executed: enqueue ≺ wake, worker
exists, sleeps only on an empty queue), C07 / C09 (flush / destroy wait for queued work) and C16 (worker re-creation)."""
from .. import ir, mm, pat, waitloop
from ..core import Broken

WQ = "urcu_workqueue."


def _f(ctx, name):
    f = ctx.mod("cds", "flat").fn(name)
    if f is None:
        raise Broken("work queue function %s vanished" % name)
    return f


def _rt_edges(f, fld="urcu_workqueue.flags"):
    """edges taken when the RT flag is set (RT work queues poll instead of sleeping: no wake-up needed)"""
    out = set()
    for b in f.blocks:
        for s in b.succ:
            for a in ir.edge_atoms(f, b.id, s):
                if a[0] == "ne" and a[2] == ("c", 0) and a[1][0] == "bin" and a[1][1] == "and" and a[1][2][0] == "load" and a[1][2][1].endswith(fld):
                    out.add((b.id, s))
    return out


def worker_rules(rep, rid, w, S, FLAGS, FUTEX, QHEAD, QTAIL, FUNC, STOP, tag="worker"):
    """The consumer thread of a wfcqueue-based work list (work queue worker, call_rcu helper): announce ≺ FULL ≺ queue read,
    sleep only on an empty queue, private batch queue re-initialised before each splice, a grabbed batch always iterated,
    every item's function invoked, the loop left only on STOP (and STOP can be reached)."""
    # ---- B. the worker ------------------------------------------------------------------------------------------------
    rep.touch(w)
    dec = [e.inst for e in pat.accesses(w, FUTEX, ("rmw",)) if pat.is_decrement(w, e)]
    qrd = [i for i in w.all_insts() if i.op in ("load", "asm", "rmw", "cmpxchg") and (lambda e: e is not None and e.ap is not None and any(x in pat.full_ap_fields(e.ap) for x in (QHEAD, QTAIL)))(mm.effect_of(i))]
    pat.require(qrd, "worker: queue reads")
    if not dec:
        rep.bad(rid, tag + ".announce", "the worker never announces that it is about to sleep (futex dec): queue_work cannot know it has to wake it", [w.name])
    else:
        rep.must_pass(rid, tag + ".dec≺FULL≺queue", w, dec, qrd, lambda i: mm.is_full(i) and i not in dec, what="FULL between announcing sleep (futex dec) and reading the queue")
    ws = waitloop.wait_sites(w)
    if not ws:
        rep.bad(rid, tag + ".sleeps", "the worker no longer sleeps on its futex", [w.name])
    for k, s in enumerate(ws):
        waitloop.check(rep, rid, tag + ".wait%d" % k, w, s)
        # sleeps only after having seen the queue empty
        lv = pat.dom_leaf_atoms(w, s)
        emp = any(a[0] == "eq" and a[2] == ("c", 0) and a[1][0] == "load" and a[1][1].endswith("cds_wfcq_node.next") for a in lv)
        rep.check(emp, rid, tag + ".wait%d.only-when-empty" % k, "the worker sleeps only after finding its queue empty", "the worker can sleep with work queued (emptiness test missing before the futex wait)", [s.where()])
    ic = [i for i in w.all_insts() if i.op == "icall" and (lambda e: e[0] == "load" and e[1].endswith(FUNC))(ir.expr(w, i.d["fp"]))]
    rep.check(bool(ic), rid, tag + ".runs-items", "every spliced item's func is invoked", "the worker does not invoke the queued work functions", [w.name])
    # the loop is left only on STOP
    rets = w.rets()
    stop_edges = [(t.blk.id, s_) for t, s_, a in pat.branch_edges_on(w, lambda a: a[0] == "ne" and a[2] == ("c", 0) and a[1][0] == "bin" and a[1][1] == "and" and a[1][3] == ("c", STOP)
                                                                   and a[1][2][0] == "load" and a[1][2][1].endswith(FLAGS))]
    rep.must_take_edge(rid, tag + ".exits-only-on-STOP", w, [w.entry()], rets, stop_edges, include_start=True, what="the worker thread returns only after it observed STOP (%#x)" % STOP)
    if ic and stop_edges:
        # STOP is tested after the queue was drained in the same iteration: items queued before destroy are executed
        rep.must_pass(rid, tag + ".drain≺STOP-test", w, [w.entry()], [w.blocks[b].insts[-1] for b, _ in stop_edges], lambda i: i in qrd, include_start=True,
                      what="the queue is examined (spliced if non-empty) before STOP is tested")
    hit, _ = w.reach([w.entry()], list(rets), include_start=True)
    rep.check(hit is not None and bool(rets), rid, tag + ".can-exit", "the worker can leave its loop and return (destroy joins it)", "the worker thread can never return: urcu_workqueue_destroy blocks in pthread_join for ever", [w.name])
    # the private batch queue: re-initialised before every splice, and a grabbed batch is always iterated
    loc = lambda e: e is not None and e.ap is not None and ir.ap_str(w, e.ap).startswith("local:")
    app = [e.inst for e in pat.accesses(w, None, ("xchg",)) if loc(e)]
    init = [i for i in w.all_insts() if i.op == "store" and loc(mm.effect_of(i)) and any(l[0] in ("_cds_wfcq_init", "___cds_wfcq_init", "cds_wfcq_init") for l in (i.loc or ()))]
    walk = [i for i in w.all_insts() if i.op == "load" and loc(mm.effect_of(i)) and pat.last_field(i.d["ap"]) == "cds_wfcq_node.next" and "head" in ir.ap_str(w, i.d["ap"])]
    if not app:
        rep.bad(rid, tag + ".batch", "the worker does not splice its queue into a private batch queue", [w.name])
    else:
        if len(init) < 2:
            rep.bad(rid, tag + ".batch-init", "the private batch queue is not initialised (head.next = NULL, tail = head) before the splice appends to it", [app[0].where()])
        else:
            heads = [i for i in init if "head" in ir.ap_str(w, i.d["ap"])]
            tails = [i for i in init if i not in heads]
            for nm, grp in (("head", heads), ("tail", tails)):
                rep.must_pass(rid, tag + ".batch-init." + nm, w, [w.entry()], app, lambda i, grp=grp: i in grp, include_start=True, what="the private queue's %s is initialised before the splice" % nm)
                rep.must_pass(rid, tag + ".batch-reinit." + nm, w, app, app, lambda i, grp=grp: i in grp, what="the private queue's %s is re-initialised before the next splice" % nm)
        stop_tests = [w.blocks[b].insts[-1] for b, _ in stop_edges]
        if walk and stop_tests:
            # once the append happened the splice result is DEST_EMPTY / DEST_NON_EMPTY (C10.splice): edges taken only for
            # SRC_EMPTY are not continuations of a path through the append
            SRC_EMPTY = w.mod.enum("cds_wfcq_ret", "CDS_WFCQ_RET_SRC_EMPTY")
            pat.require(SRC_EMPTY is not None, "enum cds_wfcq_ret")
            infeasible = set((t.blk.id, s_) for t, s_, a in pat.branch_edges_on(w, lambda a: a[0] == "eq" and a[1][0] == "phi" and a[2] == ("c", SRC_EMPTY)))
            rep.must_pass(rid, tag + ".batch-run", w, app, stop_tests, lambda i: i in walk, edge_ok=pat.block_edge_filter(infeasible),
                          what="a grabbed batch is iterated (its items run) before the worker looks at STOP / sleeps")


def creator_inits(rep, rid, c, w, prefix, qhead, qtail, tag="create"):
    """everything of `prefix.*` the consumer thread `w` reads is initialised by the creator `c` (a store, or a whole-object memset to 0) before
    pthread_create; the queue proper: tail points at the head node, the head's dequeue lock is initialised"""
    pc = [x for x in pat.calls(c, "pthread_create")]
    if not pc:
        return
    rd = set()
    for i in w.all_insts():
        if i.op in ("load", "rmw", "cmpxchg", "xchg") and i.d.get("ap"):
            fs = [x for x in pat.full_ap_fields(i.d["ap"]) if x.startswith(prefix + ".")]
            if fs:
                rd.add(fs[0])
    pat.require(len(rd) >= 4, "%s: consumer reads only %s" % (tag, sorted(rd)))
    zero = [i for i in c.all_insts() if i.op == "call" and i.callee.startswith("llvm.memset") and ir.const_of(c, i.args[1]) == 0 and i.d["aps"][0] and not i.d["aps"][0]["steps"]]
    for fld in sorted(rd):
        sts = [x for x in c.all_insts() if x.op == "store" and x.d["ap"] and fld in pat.full_ap_fields(x.d["ap"])]
        ini = sts + zero + ([x for x in pat.calls(c, "pthread_mutex_init")] if fld == qhead else [])
        short = fld.split(".", 1)[1]
        if not ini:
            rep.bad(rid, "%s.init.%s" % (tag, short), "the consumer thread reads ->%s, which %s leaves uninitialised (malloc memory)" % (short, c.srcname), [pc[0].where()])
        else:
            rep.must_pass(rid, "%s.init.%s" % (tag, short), c, [c.entry()], pc, lambda i, ini=ini: i in ini, include_start=True, what="->%s is initialised before the consumer thread is created" % short)
    tl = [x for x in c.all_insts() if x.op == "store" and x.d["ap"] and qtail in pat.full_ap_fields(x.d["ap"])]
    good = [x for x in tl if (lambda e: e[0] == "addr" and qhead in e[1])(ir.expr(c, x.args[0], 3))]
    if not good:
        rep.bad(rid, tag + ".queue-tail", "%s never points the queue's tail at its head node: the first enqueue exchanges a NULL tail and writes through it" % c.srcname, [pc[0].where()])
    else:
        rep.must_pass(rid, tag + ".queue-tail", c, [c.entry()], pc, lambda i: i in good, include_start=True, what="tail.p = &head.node before the consumer thread is created")
    mi = pat.calls(c, "pthread_mutex_init")
    rep.check(bool(mi) and c.reach([c.entry()], pc, avoid=lambda i: i in mi, include_start=True)[0] is None, rid, tag + ".queue-lock", "the queue's dequeue lock is initialised before the consumer is created",
              "the queue's dequeue lock is not initialised before the consumer thread starts splicing under it", [pc[0].where()])


def rule_workqueue(ctx, rep, rid):
    # ---- A. urcu_workqueue_queue_work: initialise, publish, wake -------------------------------------------------
    f = _f(ctx, "urcu_workqueue_queue_work")
    rep.touch(f)
    nx = [s for s in pat.stores(f, "cds_wfcq_node.next") if ir.const_of(f, s.args[0]) == 0 and s.d["ap"]["base"] == ["a", 1]]
    fn = [s for s in pat.stores(f, "urcu_work.func") if s.d["ap"]["base"] == ["a", 1] and ir.expr(f, s.args[0]) == ("arg", 2)]
    xt = [e.inst for e in pat.accesses(f, None, ("xchg",)) if "urcu_workqueue.cbs_tail" in pat.full_ap_fields(e.ap)]
    fu = pat.loads(f, "urcu_workqueue.futex")
    if not (nx and fn and xt):
        rep.bad(rid, "queue_work.anatomy", "queue_work lacks node init / func store / tail exchange on the work queue", [f.name])
    else:
        rep.must_pass(rid, "queue_work.init≺publish", f, [f.entry()], xt, lambda i: i in nx, include_start=True, what="work->next.next = NULL before the item is published")
        rep.must_pass(rid, "queue_work.func≺publish", f, [f.entry()], xt, lambda i: i in fn, include_start=True, what="work->func = func before the item is published")
        if not fu:
            rep.bad(rid, "queue_work.wakes", "queue_work never tests the worker's futex: a sleeping worker is not woken, the queued resize / destroy is never executed", [xt[0].where()])
        else:
            rep.must_pass(rid, "queue_work.publish≺wake", f, xt, None, lambda i: i in fu, to_exit=True, edge_ok=pat.block_edge_filter(_rt_edges(f)),
                          what="after the item is published every return passes the worker's futex test (wake-up), RT work queues excepted")
            rep.must_pass(rid, "queue_work.publish≺FULL≺futex", f, xt, fu, lambda i: mm.is_full(i) and i not in xt, what="FULL barrier between the enqueue and the futex test")
            back, _ = f.reach(fu, xt)
            rep.check(back is None, rid, "queue_work.wake-last", "the wake-up test is not followed by another enqueue", "enqueue after the wake-up test", [fu[0].where()])
    w = _f(ctx, "workqueue_thread")
    stop_bits = set()
    for g in (_f(ctx, "urcu_workqueue_destroy"),):
        for e in pat.accesses(g, "urcu_workqueue.flags", ("rmw",)):
            if e.rop == "or":
                stop_bits.add(ir.const_of(g, e.val))
    pat.require(len(stop_bits) == 1, "destroy: STOP request")
    STOP = stop_bits.pop()
    worker_rules(rep, rid, w, None, "urcu_workqueue.flags", "urcu_workqueue.futex", "urcu_workqueue.cbs_head", "urcu_workqueue.cbs_tail", "urcu_work.func", STOP)
    # RT polarity (as for the call_rcu helper): queue_work skips the wake-up of an RT work queue, so only a non-RT worker may arm / sleep on the futex
    known = set()
    for g_ in ("urcu_workqueue_destroy", "urcu_workqueue_pause_worker", "workqueue_thread"):
        gg = ctx.mod("cds", "flat").fn(g_)
        if gg is not None:
            known |= set(ir.const_of(gg, e.val) for e in pat.accesses(gg, "urcu_workqueue.flags", ("rmw",)) if e.rop == "or")
    rtbits = set()
    for b in w.blocks:
        for s_ in b.succ:
            for a in ir.edge_atoms(w, b.id, s_):
                if len(a) == 3 and a[0] in ("eq", "ne") and a[2] == ("c", 0) and a[1][0] == "bin" and a[1][1] == "and" and a[1][3][0] == "c" and pat.is_load_expr(a[1][2], "urcu_workqueue.flags") and a[1][3][1] not in known:
                    rtbits.add(a[1][3][1])
    if len(rtbits) == 1:
        RT = rtbits.pop()
        from .. import waitloop as _wl
        sites = list(_wl.wait_sites(w)) + [e.inst for e in pat.accesses(w, "urcu_workqueue.futex", ("rmw",))]
        for i in sites:
            lv = [a for a in pat.dom_leaf_atoms(w, i) if len(a) == 3 and a[2] == ("c", 0) and a[1][0] == "bin" and a[1][1] == "and" and a[1][3] == ("c", RT) and pat.is_load_expr(a[1][2], "urcu_workqueue.flags")]
            if not lv:
                rep.unk(rid, "worker.futex-only-if-not-RT@%d" % i.line, "the worker's use of its futex is not guarded by the RT flag in a form this rule recognises")
            else:
                rep.check(all(a[0] == "eq" for a in lv), rid, "worker.futex-only-if-not-RT@%d" % i.line, "the worker arms / sleeps on its futex only when the work queue is not RT",
                          "the worker arms / sleeps on its futex exactly when the work queue *is* RT: queue_work never wakes an RT worker - queued work is never executed", [i.where()])
    else:
        rep.unk(rid, "worker.futex-only-if-not-RT", "RT flag bit of the work queue not identified (%s)" % sorted(rtbits))
    # ---- C. creation: the worker thread exists ----------------------------------------------------------------------------
    for name in ("urcu_workqueue_create", "urcu_workqueue_create_worker"):
        c = _f(ctx, name)
        rep.touch(c)
        pc = [x for x in pat.calls(c, "pthread_create")]
        okfn = [x for x in pc if x.args[2] and x.args[2][0] == "f" and x.args[2][1] == w.name]
        if not okfn:
            rep.bad(rid, name + ".creates-worker", "%s does not start the worker thread (pthread_create(..., %s, workqueue)): queued resizes / destroys are never executed" % (name, w.name), [c.name])
            continue
        rep.must_pass(rid, name + ".creates-worker", c, [c.entry()], None, lambda i: i in okfn, to_exit=True, include_start=True, what="every return passes pthread_create of the worker")
        arg = ir.expr(c, okfn[0].args[3], 3)
        tid = okfn[0].d["aps"][0]
        rep.check(tid is not None and pat.last_field(tid) == "urcu_workqueue.tid", rid, name + ".tid", "the thread id is recorded in workqueue->tid (joined by destroy)", "pthread_create does not record the id in workqueue->tid", [okfn[0].where()])
    # ---- C2. creation: everything the worker reads is initialised before the worker exists ---------------------------------------
    creator_inits(rep, rid, _f(ctx, "urcu_workqueue_create"), w, "urcu_workqueue", "urcu_workqueue.cbs_head", "urcu_workqueue.cbs_tail")
    # ---- D. destroy: STOP ≺ wake ≺ join ------------------------------------------------------------------------------------
    d = _f(ctx, "urcu_workqueue_destroy")
    rep.touch(d)
    st = [e.inst for e in pat.accesses(d, "urcu_workqueue.flags", ("rmw",)) if e.rop == "or"]
    jn = pat.calls(d, "pthread_join")
    dfu = pat.loads(d, "urcu_workqueue.futex")
    fr = pat.calls(d, "free")
    if not (st and jn and dfu):
        rep.bad(rid, "destroy.anatomy", "destroy lacks STOP request / wake-up / join", [d.name])
    else:
        rep.must_pass(rid, "destroy.STOP≺wake", d, [d.entry()], dfu, lambda i: i in st, include_start=True, what="STOP is requested before the worker is woken")
        rep.must_pass(rid, "destroy.wake≺join", d, st, jn, lambda i: i in dfu, edge_ok=pat.block_edge_filter(_rt_edges(d)), what="the worker is woken before it is joined")
        if fr:
            rep.must_pass(rid, "destroy.join≺free", d, [d.entry()], fr, lambda i: i in jn, include_start=True, what="the work queue is freed only after its worker was joined")
    # ---- E. completion barrier (flush) -------------------------------------------------------------------------------------
    qc = _f(ctx, "urcu_workqueue_queue_completion")
    rep.touch(qc)
    inc = [e.inst for e in pat.accesses(qc, "urcu_workqueue_completion.barrier_count", ("rmw",)) if pat.is_increment(qc, e)]
    qw = pat.calls(qc, "urcu_workqueue_queue_work")
    if not inc or not qw:
        rep.bad(rid, "queue_completion.anatomy", "queue_completion lacks barrier_count++ / queue_work", [qc.name])
    else:
        rep.must_pass(rid, "queue_completion.count≺queue", qc, [qc.entry()], qw, lambda i: i in inc, include_start=True, what="barrier_count is incremented before the marker is queued")
        cbok = ir.expr(qc, qw[0].args[2]) == ("fn", "_urcu_workqueue_wait_complete")
        rep.check(cbok, rid, "queue_completion.marker-fn", "the marker runs _urcu_workqueue_wait_complete", "marker queued with %s" % ir.expr_str(ir.expr(qc, qw[0].args[2])), [qw[0].where()])
        cs = [s for s in pat.stores(qc, "urcu_workqueue_completion_work.completion") if ir.expr(qc, s.args[0]) == ("arg", 1)]
        rep.must_pass(rid, "queue_completion.link≺queue", qc, [qc.entry()], qw, lambda i: i in cs, include_start=True, what="the marker points at its completion before it is queued")
    cb = _f(ctx, "_urcu_workqueue_wait_complete")
    rep.touch(cb)
    sub = [e for e in pat.accesses(cb, "urcu_workqueue_completion.barrier_count", ("rmw", "xchg"))]
    wk = waitloop.wake_sites(cb)
    if not sub or not wk:
        rep.bad(rid, "marker.anatomy", "the marker callback lacks the barrier_count decrement / the waiter's wake-up", [cb.name])
    else:
        for x in wk:
            lv = pat.dom_leaf_atoms(cb, x)
            g = any(a[0] == "eq" and a[2] == ("c", 0) and ir.expr_contains(a[1], lambda z: z[0] in ("asm", "rmw") and z[-1] == sub[0].inst.id) for a in lv)
            rep.check(g, rid, "marker.wakes-on-zero", "the waiter is woken by the marker that brings barrier_count to 0", "wake-up of the flush waiter is not tied to barrier_count reaching 0", [x.where()])
    wc = _f(ctx, "urcu_workqueue_wait_completion")
    rep.touch(wc)
    wdec = [e.inst for e in pat.accesses(wc, "urcu_workqueue_completion.futex", ("rmw",)) if pat.is_decrement(wc, e)]
    brd = pat.loads(wc, "urcu_workqueue_completion.barrier_count")
    if not wdec or not brd:
        rep.bad(rid, "wait_completion.anatomy", "wait_completion lacks futex dec / barrier_count read", [wc.name])
    else:
        rep.must_pass(rid, "wait_completion.dec≺FULL≺count", wc, wdec, brd, lambda i: mm.is_full(i) and i not in wdec, what="FULL between announcing sleep and reading barrier_count")
        zero = [(t.blk.id, s_) for t, s_, a in pat.branch_edges_on(wc, lambda a: a[0] == "eq" and a[2] == ("c", 0) and a[1][0] == "load" and a[1][1].endswith("urcu_workqueue_completion.barrier_count"))]
        rep.must_take_edge(rid, "wait_completion.returns-on-zero", wc, [wc.entry()], None, zero, to_exit=True, include_start=True, what="wait_completion returns only after reading barrier_count == 0")
        for k, s in enumerate(waitloop.wait_sites(wc)):
            waitloop.check(rep, rid, "wait_completion.wait%d" % k, wc, s)
    fl = _f(ctx, "urcu_workqueue_flush_queued_work")
    rep.touch(fl)
    a_ = pat.calls(fl, "urcu_workqueue_queue_completion")
    b_ = pat.calls(fl, "urcu_workqueue_wait_completion")
    if not a_ or not b_:
        rep.bad(rid, "flush.anatomy", "flush_queued_work does not queue a marker and wait for it: it returns with work still in flight (a destroyed table's worker work runs after the caller moved on)", [fl.name])
    else:
        rep.must_pass(rid, "flush.queue≺wait", fl, [fl.entry()], b_, lambda i: i in a_, include_start=True, what="the marker is queued before the wait")
        rep.must_pass(rid, "flush.waits", fl, a_, None, lambda i: i in b_, to_exit=True, what="flush returns only after wait_completion")
        same = ir.expr(fl, a_[0].args[1]) == ir.expr(fl, b_[0].args[0])
        rep.check(same, rid, "flush.same-completion", "queues and waits on the same completion", "flush waits on a different completion than the one it queued", [b_[0].where()])
