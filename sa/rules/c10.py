"""C10 — wait-free queues are FIFO: nothing lost, duplicated, reordered; splice moves all (partial)."""
from .. import ir, mm, pat, paths, lockset
from ..core import Broken

META = {
    "explanation": "Atomic-step shape rules on every compiled copy of the wfcqueue/wfqueue primitives: append = one full-barrier exchange of the tail followed by a release store linking the "
                   "old tail (result `queue was non-empty` = old tail != head node); empty() atoms; dequeue's last-node sequence (head->next cleared, cmpxchg of the tail back to the head node, on "
                   "failure wait for the successor and relink, on a non-blocking failure restore head->next before returning WOULDBLOCK) and the blocking flag handed unchanged to every wait; "
                   "splice = exchange source head->next to NULL, exchange source tail to the source head node, append to the destination; next() atoms; locked variants hold the (source) "
                   "queue's lock across the unlocked primitive.",
    "not_decided": "FIFO linearizability under all interleavings",
}

META["explanation"] += " " + 'Also: decision tables (classes of the loaded / exchanged words) of first/next/splice in blocking and non-blocking form, DEST_EMPTY/NON_EMPTY decided by the append exchange, and the for_each iteration macros (witness unit).'
META["technique"] = 'static analysis: atomic-step shape rules, decision tables over value classes of loaded words (no execution), def-use rules on results of linearising exchanges, iteration-macro witness rules over normalised LLVM IR'
LIBS = ("cds", "memb")
WOULDBLOCK = -1


def copies(ctx, name, need=True):
    out = []
    for lib in LIBS:
        for f in ctx.mod(lib, "perfn").by_src(name):
            out.append((lib, f))
    if need and not out:
        raise Broken("no compiled copy of %s" % name)
    return out


def rule_append(ctx, rep):
    for lib, f in copies(ctx, "___cds_wfcq_append"):
        rep.touch(f)
        tag = "%s.%s" % (lib, f.name)
        xs = [e for e in pat.accesses(f, None, ("xchg",)) if e.ap["base"] == ["a", 1]]
        if len(xs) != 1:
            rep.bad("C10.append", tag + ".xchg", "append must move the tail with exactly one atomic exchange (found %d)" % len(xs), [f.name])
            continue
        x = xs[0]
        rep.check(x.full and ir.expr(f, x.val) == ("arg", 3), "C10.append", tag + ".xchg", "tail := new_tail by a full-barrier xchg", "tail exchange is not a FULL xchg of new_tail", [x.inst.where()])
        st = [s for s in f.all_insts() if s.op == "store" and ir.strip_casts(f, s.d["ap"]["base"]) == ["i", x.inst.id]]
        ok = len(st) == 1 and st[0].d["order"] in ("release", "seq_cst") and ir.expr(f, st[0].args[0]) == ("arg", 2) and f.dominates(x.inst, st[0])
        rep.check(ok, "C10.append", tag + ".link", "old_tail->next := new_head by a release store after the exchange",
                  "linking store is missing, not a release, not after the exchange or not on the old tail", [s.where() for s in st] or [x.inst.where()])
        others = [s for s in f.all_insts() if s.op in ("store", "rmw", "cmpxchg") and s not in st and s is not x.inst]
        r = f.rets()[0]
        e = ir.expr(f, r.args[0]) if r.args else None
        okr = e is not None and e[0] == "icmp" and e[1] == "ne" and any(z[0] == "asm" and z[2] == x.inst.id for z in (e[2], e[3])) and any(z[0] == "addr" and z[1].startswith("arg0") for z in (e[2], e[3]))
        rep.check(okr, "C10.append", tag + ".ret", "returns old_tail != &head->node", "return value is %s" % (ir.expr_str(e) if e else None), [r.where()])
    for lib, f in copies(ctx, "_cds_wfcq_enqueue"):
        rep.touch(f)
        c = [x for x in f.calls() if f.mod.fn(x.callee) is not None and f.mod.fn(x.callee).srcname == "___cds_wfcq_append"]
        pat.require(c, "_cds_wfcq_enqueue: append call")
        for x in c:
            rep.check(ir.expr(f, x.args[2]) == ("arg", 2) and ir.expr(f, x.args[3]) == ("arg", 2), "C10.append", "%s.%s.single-node" % (lib, f.name), "enqueue appends the node as both head and tail of a 1-node chain",
                      "enqueue passes different head/tail", [x.where()])
            rep.must_pass("C10.append", "%s.%s.mb-before" % (lib, f.name), f, [f.entry()], [x], mm.is_full, include_start=True, what="FULL barrier before the enqueue's exchange")


def rule_empty(ctx, rep):
    for lib, f in copies(ctx, "_cds_wfcq_empty"):
        rep.touch(f)
        tag = "%s.%s" % (lib, f.name)
        for p, atoms, v in paths.ret_cases(f):
            atoms = paths.simplify_atoms(atoms) or []
            hn = [a for a in atoms if a[1][0] == "load" and a[1][1].startswith("arg0") and a[2] == ("c", 0)]
            if v == ("c", 0) or (v is not None and v[0] == "c" and v[1] == 0):
                continue
            # truthy / symbolic result: needs head->next == NULL on the path and value = (tail->p == &head->node)
            ok_h = any(a[0] == "eq" for a in hn)
            ok_t = v is not None and v[0] == "icmp" and v[1] == "eq" and any(z[0] == "load" and z[1].startswith("arg1") for z in (v[2], v[3])) and any(z[0] == "addr" and z[1].startswith("arg0") for z in (v[2], v[3]))
            ok_t = ok_t or (v is not None and v[0] == "c" and any(a[0] == "eq" and a[1][0] == "load" and a[1][1].startswith("arg1") for a in atoms))
            rep.check(ok_h and ok_t, "C10.empty", tag, "empty iff head->next == NULL and tail->p == &head->node", "empty() can report empty on %s" % [ir.atom_str(a) for a in atoms], [f.rets()[0].where()])
        lds = [i for i in f.all_insts() if i.op == "load"]
        rep.check(len(lds) == 2, "C10.empty", tag + ".two-loads", "tests both head->next and tail->p", "empty() reads %d words" % len(lds), [f.name])


def rule_deq(ctx, rep):
    for lib, f in copies(ctx, "___cds_wfcq_dequeue_with_state"):
        rep.touch(f)
        tag = "%s.%s" % (lib, f.name)
        m = f.mod
        syncs = [c for c in f.calls() if m.fn(c.callee) is not None and m.fn(c.callee).srcname == "___cds_wfcq_node_sync_next"]
        pat.require(len(syncs) >= 2, "dequeue: sync_next calls")
        for c in syncs:
            rep.check(ir.expr(f, c.args[1]) == ("arg", 3), "C10.deq", tag + ".blocking-flag@%d" % c.line, "the caller's blocking flag is handed unchanged to the wait for a successor",
                      "wait for the successor ignores the caller's blocking flag (passes %s): a non-blocking dequeue would wait on a suspended enqueuer" % ir.expr_str(ir.expr(f, c.args[1])), [c.where()])
        cx = [e for e in pat.accesses(f, None, ("cmpxchg",)) if e.ap["base"] == ["a", 1]]
        pat.require(len(cx) == 1, "dequeue: tail cmpxchg")
        c = cx[0]
        inits = [x for x in f.calls() if m.fn(x.callee) is not None and m.fn(x.callee).srcname == "_cds_wfcq_node_init_atomic"] + \
                [s for s in f.all_insts() if s.op == "store" and s.d["ap"]["base"] == ["a", 0] and ir.const_of(f, s.args[0]) == 0 and s.d["ap"]["steps"] and s.d["ap"]["steps"][-1] == "cds_wfcq_node.next"]
        if not inits:
            rep.bad("C10.deq", tag + ".clear-head", "head->next is not cleared before the tail is moved back to the head node: a concurrent enqueue would link after a stale first node", [c.inst.where()])
        else:
            rep.must_pass("C10.deq", tag + ".clear-head≺cmpxchg", f, [f.entry()], [c.inst], lambda i: i in inits, include_start=True, what="head->next := NULL before the cmpxchg that moves the tail back to the head node")
        okc = ir.expr(f, c.new)[0] == "addr" and ir.expr(f, c.new)[1].startswith("arg0") and ir.expr(f, c.exp)[0] == "call"
        rep.check(okc, "C10.deq", tag + ".cmpxchg-shape", "cmpxchg(tail->p, node -> &head->node)", "tail cmpxchg has unexpected operands", [c.inst.where()])
        g = any(a[0] == "eq" and a[2] == ("c", 0) and a[1][0] == "load" and a[1][1].endswith("cds_wfcq_node.next") for a in pat.dom_leaf_atoms(f, c.inst))
        rep.check(g, "C10.deq", tag + ".last-node-only", "the tail is moved back only when node->next == NULL", "tail cmpxchg not guarded by node->next == NULL", [c.inst.where()])
        sst = [i for i in f.all_insts() if i.op == "store" and i.d["ap"]["base"] == ["a", 2] and ir.const_of(f, i.args[0]) != 0]
        for s_ in sst:
            lv = pat.dom_leaf_atoms(f, s_)
            oks = any(a[0] == "eq" and any(z[0] == "asm" and z[2] == c.inst.id for z in (a[1], a[2])) for a in lv)
            rep.check(oks, "C10.deq", tag + ".state-after-success", "CDS_WFCQ_STATE_LAST is reported only when the cmpxchg emptying the queue succeeded",
                      "the `last element` state flag is set without the cmpxchg having succeeded", [s_.where()])
        hs = [s for s in f.all_insts() if s.op == "store" and s.d["ap"]["base"] == ["a", 0] and s.d["ap"]["steps"] and s.d["ap"]["steps"][-1] == "cds_wfcq_node.next"]
        # WOULDBLOCK after the head was cleared must restore head->next
        n = 0
        for p, atoms, v in paths.ret_cases(f):
            insts = [i for b in p for i in f.blocks[b].insts]
            if v == ("c", WOULDBLOCK) and any(i in inits for i in insts):
                n += 1
                k = max(insts.index(i) for i in insts if i in inits)
                rest = [i for i in insts[k + 1:] if i in hs and ir.const_of(f, i.args[0]) != 0]
                rep.check(bool(rest), "C10.deq", tag + ".wouldblock-restores-head", "a WOULDBLOCK return after head->next was cleared restores head->next = node",
                          "WOULDBLOCK is returned with head->next left NULL: the remaining node and everything enqueued after it become unreachable", [f.blocks[p[-1]].insts[-1].where()])
            if v is not None and v[0] == "call" and not any(i is c.inst for i in insts):
                # returned a node with a successor: head->next must be advanced
                rep.check(any(i in hs for i in insts), "C10.deq", tag + ".advance-head", "returning a non-last node advances head->next", "node returned without advancing head->next", [f.blocks[p[-1]].insts[-1].where()])
        pat.require(n >= 1, "dequeue: no WOULDBLOCK-after-clear path found")
        # which way each decision goes: NULL exactly when the emptiness test said empty; WOULDBLOCK exactly when a wait for a successor said
        # WOULDBLOCK in non-blocking mode; a node otherwise
        def _is_empty_call(x):
            return x[0] == "call" and m.fn(x[1]) is not None and m.fn(x[1]).srcname == "_cds_wfcq_empty"
        def _is_sync(x):
            return x[0] == "call" and m.fn(x[1]) is not None and m.fn(x[1]).srcname == "___cds_wfcq_node_sync_next"
        def _expand(atoms):
            out = []
            for a in atoms:
                if len(a) == 3 and a[0] == "ne" and a[2] == ("c", 0) and a[1][0] in ("select", "bin", "icmp"):
                    lv = []
                    pat.leaf_atoms(("icmp", "ne", a[1], ("c", 0)), True, lv)
                    out += lv or [a]
                else:
                    out.append(a)
            return out
        for p, atoms, v in paths.ret_cases(f):
            atoms = _expand(atoms)
            site = [f.blocks[p[-1]].insts[-1].where()]
            emp_t = any(a[0] == "ne" and a[2] == ("c", 0) and _is_empty_call(a[1]) for a in atoms)
            emp_f = any(a[0] == "eq" and a[2] == ("c", 0) and _is_empty_call(a[1]) for a in atoms)
            if not (emp_t or emp_f):
                continue        # emptiness test inlined / merged: not comparable here (C10.empty decides its atoms)
            if v == ("c", 0):
                rep.check(emp_t, "C10.deq", tag + ".null-iff-empty", "NULL is returned only when the emptiness test held", "NULL is returned on the path where the queue was found non-empty (and the dequeue goes on when it is empty)", site)
            elif v == ("c", WOULDBLOCK):
                wb = any(a[0] == "eq" and a[2] == ("c", WOULDBLOCK) and _is_sync(a[1]) for a in atoms)
                nb = any(a[0] == "eq" and a[1] == ("arg", 3) and a[2] == ("c", 0) for a in atoms) or not any(a[1] == ("arg", 3) for a in atoms if len(a) == 3)
                rep.check(wb and emp_f, "C10.deq", tag + ".wouldblock-iff-sync-wouldblock", "WOULDBLOCK is returned only after a wait for a successor reported WOULDBLOCK",
                          "WOULDBLOCK is returned on a path where the successor wait did *not* report it: a dequeue that had the node in hand reports failure (and one that has to wait goes on with -1 as a node)", site)
            elif v is not None:
                rep.check(emp_f, "C10.deq", tag + ".node-only-if-nonempty", "a node is returned only after the queue was found non-empty", "a node is returned although the queue was found empty", site)
                bad_wb = [a for a in atoms if a[0] == "eq" and a[2] == ("c", WOULDBLOCK) and _is_sync(a[1]) and any(b[0] == "eq" and b[1] == ("arg", 3) and b[2] == ("c", 0) for b in atoms)]
                rep.check(not bad_wb, "C10.deq", tag + ".no-node-after-wouldblock", "no node is returned after a non-blocking wait reported WOULDBLOCK", "after a non-blocking wait reported WOULDBLOCK the dequeue continues and returns / dereferences the sentinel", site)


def rule_splice(ctx, rep):
    for lib, f in copies(ctx, "___cds_wfcq_splice"):
        rep.touch(f)
        tag = "%s.%s" % (lib, f.name)
        xh = [e for e in pat.accesses(f, None, ("xchg",)) if e.ap["base"] == ["a", 2]]
        xt = [e for e in pat.accesses(f, None, ("xchg",)) if e.ap["base"] == ["a", 3]]
        ap = [c for c in f.calls() if f.mod.fn(c.callee) is not None and f.mod.fn(c.callee).srcname == "___cds_wfcq_append"]
        if not (len(xh) == 1 and len(xt) == 1 and len(ap) == 1):
            rep.bad("C10.splice", tag + ".anatomy", "splice must exchange the source head->next, exchange the source tail and append once (found %d/%d/%d)" % (len(xh), len(xt), len(ap)), [f.name])
            continue
        rep.check(ir.const_of(f, xh[0].val) == 0, "C10.splice", tag + ".head:=NULL", "source head->next exchanged with NULL", "source head exchanged with %s" % ir.expr_str(ir.expr(f, xh[0].val)), [xh[0].inst.where()])
        e = ir.expr(f, xt[0].val)
        rep.check(e[0] == "addr" and e[1].startswith("arg2"), "C10.splice", tag + ".tail:=&src-head", "source tail exchanged with &src_head->node", "source tail exchanged with %s" % ir.expr_str(e), [xt[0].inst.where()])
        rep.check(f.dominates(xh[0].inst, xt[0].inst) and f.dominates(xt[0].inst, ap[0]), "C10.splice", tag + ".order", "take head ≺ take tail ≺ append to destination", "splice steps out of order", [ap[0].where()])
        a = ap[0]
        oka = ir.expr(f, a.args[0]) == ("arg", 0) and ir.expr(f, a.args[1]) == ("arg", 1) and ir.expr(f, a.args[2])[0] == "asm" and ir.expr(f, a.args[2])[2] == xh[0].inst.id and ir.expr(f, a.args[3])[0] == "asm" and ir.expr(f, a.args[3])[2] == xt[0].inst.id
        rep.check(oka, "C10.splice", tag + ".append-args", "appends exactly the chain taken from the source (old head->next .. old tail) to the destination", "append arguments do not match the taken chain", [a.where()])
        g = any(z[0] == "ne" and z[2] == ("c", 0) and z[1][0] == "asm" and z[1][2] == xh[0].inst.id for z in pat.dom_leaf_atoms(f, xt[0].inst))
        rep.check(g, "C10.splice", tag + ".nonnull-head", "the tail is taken only after a non-NULL head->next was obtained", "tail taken although head->next was NULL", [xt[0].inst.where()])
    for lib, f in copies(ctx, "___cds_wfcq_next"):
        rep.touch(f)
        tag = "%s.%s" % (lib, f.name)
        for p, atoms, v in paths.ret_cases(f):
            if v == ("c", 0):
                ok = any(a[0] == "eq" and a[2] == ("c", 0) and a[1][0] == "load" and a[1][1].startswith("arg2") for a in atoms) and any(a[0] == "eq" and a[1][0] == "load" and a[1][1].startswith("arg1") and a[2] == ("arg", 2) for a in atoms)
                rep.check(ok, "C10.iter", tag + ".null-iff-last", "next() returns NULL only when node->next == NULL and tail->p == node", "next() returns NULL on %s" % [ir.atom_str(a) for a in atoms], [f.rets()[0].where()])


def rule_locked(ctx, rep):
    table = {"_cds_wfcq_dequeue_with_state_blocking": (0, 1, "___cds_wfcq_dequeue_with_state_blocking"), "_cds_wfcq_splice_blocking": (2, 3, "___cds_wfcq_splice_blocking")}
    for name, (ha, ta, inner) in table.items():
        cps = copies(ctx, name, need=False)
        if not cps:
            # the static-inline helper was folded into its exported wrapper: C10.exported decides the same clause on the wrapper
            exported = name[1:]
            pat.require(ctx.mod("cds", "flat").fn(exported) is not None, "neither %s nor %s is compiled" % (name, exported))
            rep.ok("C10.locked", "cds." + name + ".folded", "%s is folded into the exported %s (lock bracket decided by C10.exported)" % (name, exported), [exported])
            continue
        for lib, f in cps:
            rep.touch(f)
            tag = "%s.%s" % (lib, f.name)
            m = f.mod
            lk = [c for c in f.calls() if m.fn(c.callee) is not None and m.fn(c.callee).srcname == "_cds_wfcq_dequeue_lock"]
            ul = [c for c in f.calls() if m.fn(c.callee) is not None and m.fn(c.callee).srcname == "_cds_wfcq_dequeue_unlock"]
            wk = [c for c in f.calls() if m.fn(c.callee) is not None and m.fn(c.callee).srcname == inner]
            pat.require(wk, "%s: inner call" % name)
            if not lk or not ul:
                rep.bad("C10.locked", tag, "%s runs the dequeue-side primitive without taking the queue's dequeue lock" % name, [wk[0].where()])
                continue
            okq = all(ir.expr(f, c.args[0]) == ("arg", ha) for c in lk + ul)
            rep.check(okq, "C10.locked", tag + ".which-queue", "locks the queue that is dequeued from (argument %d)" % ha, "locks a different queue than the one being dequeued from (splice must lock the SOURCE)", [c.where() for c in lk])
            rep.must_pass("C10.locked", tag + ".lock≺work", f, [f.entry()], wk, lambda i: i in lk, include_start=True, what="lock taken before the primitive")
            rep.must_pass("C10.locked", tag + ".work≺unlock", f, wk, None, lambda i: i in ul, to_exit=True, what="unlock after the primitive on every path")
    for lib, f in copies(ctx, "_cds_wfcq_dequeue_lock"):
        rep.touch(f)
        c = pat.calls(f, "pthread_mutex_lock")
        rep.check(bool(c) and pat.last_field(c[0].d["aps"][0]) == "cds_wfcq_head.lock" and c[0].d["aps"][0]["base"] == ["a", 0], "C10.locked", "%s.%s" % (lib, f.name), "dequeue lock = head->lock",
                  "dequeue lock does not lock head->lock", [f.name])


def rule_legacy(ctx, rep):
    for lib, f in copies(ctx, "_cds_wfq_enqueue"):
        rep.touch(f)
        tag = "%s.%s" % (lib, f.name)
        xs = [e for e in pat.accesses(f, "cds_wfq_queue.tail", ("xchg",))]
        if len(xs) != 1:
            rep.bad("C10.legacy", tag + ".xchg", "legacy enqueue must exchange q->tail exactly once", [f.name])
            continue
        st = [s for s in f.all_insts() if s.op == "store" and ir.strip_casts(f, s.d["ap"]["base"]) == ["i", xs[0].inst.id]]
        rep.check(len(st) == 1 and f.dominates(xs[0].inst, st[0]) and xs[0].full, "C10.legacy", tag + ".link-after-xchg", "*old_tail := node after the full-barrier exchange", "legacy enqueue link/exchange order broken", [xs[0].inst.where()])


ENQ = {"_cds_wfq_enqueue": (1, "_cds_wfq_node_init", "cds_wfq_node.next"), "cds_wfq_enqueue": (1, "cds_wfq_node_init", "cds_wfq_node.next"),
       "_cds_wfcq_enqueue": (2, "_cds_wfcq_node_init", "cds_wfcq_node.next"), "cds_wfcq_enqueue": (2, "cds_wfcq_node_init", "cds_wfcq_node.next")}


def rule_nodeinit(ctx, rep):
    """a node handed to enqueue has next == NULL: wherever the node is not simply the caller's parameter
    (a recycled dummy, an embedded rcu_head/work item), it is (re)initialised first"""
    n = 0
    for lib in LIBS + ("qsbr", "bp", "mb"):
        m = ctx.mod(lib, "perfn")
        for f in m.defined():
            for c in f.calls():
                g = m.fn(c.callee)
                src = g.srcname if g is not None else c.callee
                if src not in ENQ:
                    continue
                argi, initfn, fld = ENQ[src]
                node = ir.strip_casts(f, c.args[argi], int_too=False)
                if node[0] == "a":
                    continue   # pass-through wrapper: the caller owns initialisation
                n += 1
                rep.touch(f)
                nap = c.d["aps"][argi]
                inits = []
                for i in f.all_insts():
                    if i.op == "call":
                        h = m.fn(i.callee)
                        hs = h.srcname if h is not None else i.callee
                        if hs in (initfn, initfn.lstrip("_"), "_" + initfn) and i.d["aps"][0] is not None and ir.ap_str(f, i.d["aps"][0]) == ir.ap_str(f, nap):
                            inits.append(i)
                    if i.op == "store" and ir.const_of(f, i.args[0]) == 0 and ir.ap_str(f, i.d["ap"]).startswith(ir.ap_str(f, nap)) and pat.last_field(i.d["ap"]) == fld:
                        inits.append(i)
                if not inits:
                    rep.bad("C10.nodeinit", "%s.%s@%d" % (lib, f.name, c.line), "node is enqueued without having its next pointer reset: a recycled node still points at an already dequeued one, "
                            "and a dequeuer racing with the enqueue follows the stale pointer (duplicates, lost nodes)", [c.where()])
                else:
                    rep.must_pass("C10.nodeinit", "%s.%s@%d" % (lib, f.name, c.line), f, [f.entry()], [c], lambda i: i in inits, include_start=True, what="node->next reset to NULL before the node is enqueued")
    pat.require(n >= 3, "in-tree enqueue sites not found (%d)" % n)


def rule_iter(ctx, rep):
    """Iteration: decision tables of __cds_wfcq_first/next_{blocking,nonblocking} over the classes of (first load of
    node->next, tail->p, re-load of node->next).  A non-NULL next is returned; NULL with tail == node is the end (NULL);
    NULL with tail != node is an enqueue in flight: wait (blocking) or WOULDBLOCK, then return the re-loaded word."""
    from .. import dtable
    m = ctx.mod("cds", "flat")
    WB = -1
    nxt = lambda blocking: {(0, "SELF", 0): {0}, (0, "SELF", "X"): {0}, (0, "X", 0): (set() if blocking else {WB}), (0, "X", "X"): {"V2"},
                            ("X", "SELF", 0): {"V0"}, ("X", "SELF", "X"): {"V0"}, ("X", "X", 0): {"V0"}, ("X", "X", "X"): {"V0"}}
    fst = lambda blocking: {(0, "SELF", 0): {0}, (0, "SELF", "X"): {0}, (0, "X", 0): (set() if blocking else {WB}), (0, "X", "X"): {"V2"},
                            ("X", "SELF", 0): (set() if blocking else {WB}), ("X", "SELF", "X"): {"V2"}, ("X", "X", 0): (set() if blocking else {WB}), ("X", "X", "X"): {"V2"}}
    # splice: classes of (source head.next, source tail->p, exchanged-out source head.next, re-loaded source tail->p,
    # exchanged-out destination tail).  The DEST_EMPTY / DEST_NON_EMPTY result is what the *append exchange* on the destination
    # tail observed (its linearisation point) - not an emptiness sample taken earlier.
    import itertools

    def spl(blocking):
        t = {}
        for a, b, c, d, e in itertools.product((0, "X"), ("SELF", "X"), (0, "X"), ("SELF", "X"), ("SELF", "X")):
            if a == 0 and b == "SELF":
                r = {2}                                   # CDS_WFCQ_RET_SRC_EMPTY (fast path)
            elif c != 0:
                r = {0} if e == "SELF" else {1}           # DEST_EMPTY iff the append found the destination tail at its head node
            elif d == "SELF":
                r = {2}                                   # nothing grabbed and the source turned out empty
            else:
                r = set() if blocking else {WB}           # enqueue in flight on the source: wait / WOULDBLOCK
            t[(a, b, c, d, e)] = r
        return t
    for name, exp in (("__cds_wfcq_splice_nonblocking", spl(False)), ("__cds_wfcq_splice_blocking", spl(True))):
        f = m.fn(name)
        pat.require(f is not None, name + " vanished")
        # def-use form of the same clause (decides even when the set of decision variables changed): DEST_EMPTY(0) /
        # DEST_NON_EMPTY(1) are returned exactly on the edges where the exchange on the destination tail returned / did not
        # return the destination's head node
        dx = [e for e in pat.accesses(f, None, ("xchg",)) if e.ap and e.ap["base"] == ["a", 1]]
        pat.require(len(dx) == 1, "%s: exchange on the destination tail" % name)
        n01 = 0
        for _p, atoms, v in paths.ret_cases(f):
            if v in (("c", 0), ("c", 1)):
                n01 += 1
                want = "eq" if v[1] == 0 else "ne"
                ok = any(a[0] == want and a[1][0] == "asm" and a[1][-1] == dx[0].inst.id and a[2][0] == "addr" and a[2][1].startswith("arg0.") for a in atoms)
                rep.check(ok, "C10.splice", "%s.ret%d-from-append" % (name, v[1]), "DEST_%s is reported iff the append exchange on the destination tail says so" % ("EMPTY" if v[1] == 0 else "NON_EMPTY"),
                          "splice returns %d on a path not decided by the value its exchange on the destination tail returned: the `destination was empty` result can disagree with the "
                          "order in which enqueues/dequeues on the destination took effect (lost or duplicate wake-up)" % v[1], [dx[0].inst.where()])
        pat.require(n01 >= 2, "%s: DEST_EMPTY / DEST_NON_EMPTY returns" % name)
        try:
            dtable.compare(rep, "C10.iter", name, f, exp, "splice result over the classes of the words it reads/exchanges")
        except Broken as e:
            if not any(r["rule"] == "C10.splice" and r["status"] == "violation" and name in r["instance"] for r in rep.results):
                raise
    for name, exp in (("__cds_wfcq_next_nonblocking", nxt(False)), ("__cds_wfcq_next_blocking", nxt(True)),
                      ("__cds_wfcq_first_nonblocking", fst(False)), ("__cds_wfcq_first_blocking", fst(True))):
        f = m.fn(name)
        pat.require(f is not None, name + " vanished")
        # def-use form (decides even when the set of decision variables changed): NULL = "end of queue" is answered only
        # after tail->p was seen equal to the node; a returned successor word was seen non-NULL
        nbad = 0
        cases = paths.ret_cases(f)
        pat.require(len(cases) >= 1, name + ": return cases")
        for _p, atoms, v in cases:
            if v == ("c", 0):
                ok = any(a[0] == "eq" and a[1][0] == "load" and a[2][0] in ("arg", "addr") for a in atoms)
                why = "returns NULL (end of queue) without having seen tail->p == node: an enqueue in flight (tail already moved, next not yet linked) is reported as the end, the iteration/dequeue loses the nodes behind it"
            elif v is not None and v[0] == "load":
                ok = any(a[0] == "ne" and a[1][0] == "load" and a[1][3] == v[3] and a[2] == ("c", 0) for a in atoms) or \
                    (any(a[0] == "eq" and a[1][0] == "load" and a[1][3] == v[3] and a[2] == ("c", 0) for a in atoms) and
                     any(a[0] == "eq" and a[1][0] == "load" and a[2][0] in ("arg", "addr") for a in atoms))
                why = "returns the loaded next pointer without having seen it non-NULL: a NULL next of an enqueue in flight is reported as the end of the queue, the nodes behind it are lost to the iteration"
            else:
                continue
            if not ok:
                nbad += 1
                rep.bad("C10.iter", name + ".end-decided-by-tail", why, [f.rets()[0].where()])
        if not nbad:
            rep.ok("C10.iter", name + ".end-decided-by-tail", "NULL only after tail->p == node; a returned successor was seen non-NULL (%d return cases)" % len(cases), [f.rets()[0].where()])
        try:
            dtable.compare(rep, "C10.iter", name, f, exp, "classes of (node->next, tail->p, re-loaded node->next)")
        except Broken:
            if not nbad:
                raise


WRAPPER_RE = r"(__)?cds_(lfs|wfs|wfcq|wfq|lfq)_\w+$"


def _twin_signature(f):
    """multiset of what a flattened function does to memory it did not allocate and which external / indirect calls it makes"""
    import collections
    import re
    sig = collections.Counter()
    for i in f.all_insts():
        if i.op == "call" and i.callee:
            c = i.callee
            if c.startswith("llvm.") and not c.startswith(("llvm.memset", "llvm.memcpy")):
                continue
            if c in ("__assert_fail", "abort", "fprintf", "strerror", "__errno_location"):
                continue
            g = f.mod.fn(c)
            if g is not None and g.blocks:
                sig[("call-defined", re.sub(r"\.\d+$", "", c))] += 1
            else:
                sig[("call", c)] += 1
        elif i.op == "icall":
            sig[("icall", re.sub(r"#\d+", "#", ir.expr_str(ir.expr(f, i.d["fp"], 3))))] += 1
        elif i.op in ("store", "rmw", "cmpxchg", "asm"):
            e = mm.effect_of(i)
            if e is None or e.ap is None or not e.writes() or (e.ap.get("base") or ["?"])[0] == "alloca":
                continue
            # named by base and byte offset: the two builds reach the same word through differently named (transparent-union) types
            off = pat.ap_offset(f.mod, e.ap)
            b = e.ap.get("base") or ["?"]
            base = "arg%d" % b[1] if b[0] == "a" else ("@" + str(b[1]) if b[0] == "g" else "ptr")
            where = "%s+%d" % (base, off) if off is not None and b[0] in ("a", "g") else re.sub(r"#\d+", "#", ir.ap_str(f, e.ap)).split(".")[-1]
            sig[("write", e.kind, getattr(e, "rop", None), where)] += 1
    return +sig


SHARED_WORDS = {
    "wfs": ("__cds_wfs_stack.head", "cds_wfs_node.next"),
    "lfs": ("__cds_lfs_stack.head", "cds_lfs_node.next"),
    "wfcq": ("cds_wfcq_node.next", "cds_wfcq_tail.p"),
    "wfq": ("cds_wfq_queue.head", "cds_wfq_queue.tail", "cds_wfq_node.next"),
    "lfq": ("cds_lfq_queue_rcu.head", "cds_lfq_queue_rcu.tail", "cds_lfq_node_rcu.next"),
}
# plain reads of a shared word that are correct, one reason each (matched on the source function the load comes from)
PLAIN_READ_OK = {
    ("_cds_lfq_destroy_rcu", "cds_lfq_node_rcu.next"): "teardown: the caller guarantees no concurrent user",
    ("___cds_wfq_dequeue_blocking", "cds_wfq_queue.head"): "the legacy queue's head is owned by the holder of the dequeue lock",
    ("_cds_wfs_push", "cds_wfs_node.next"): "assertion on the pusher's own node before it is published",
}


def rule_sharedread(ctx, rep, rid, families):
    """The words other threads write concurrently (stack head, queue head / tail, node->next) are read through CMM_LOAD_SHARED / uatomic_load /
    rcu_dereference in every API function - in the IR a volatile or atomic load, never a plain one.  The functions are static-inline twins
    compiled into optimised callers: a plain read in a poll loop (`while (cds_wfs_empty(&s))`, a dequeue retry on an empty queue) is hoisted out
    of the loop by gcc -O2 and the caller never sees the push / enqueue that has long returned."""
    m = ctx.mod("cds", "flat")
    fields = set(x for k in families for x in SHARED_WORDS[k])
    n, bad, seen = 0, [], set()
    for f in m.defined():
        for l in f.all_insts():
            if l.op != "load" or not l.d.get("ap"):
                continue
            lf = pat.last_field(l.d["ap"])
            if lf not in fields:
                continue
            rep.touch(f)
            n += 1
            seen.add(lf)
            if l.d["order"] == "na" and (l.origin_fn, lf) not in PLAIN_READ_OK and (f.name, lf) not in PLAIN_READ_OK:
                bad.append((f, l, lf))
    pat.require(n >= 3 * len(families), "%s: only %d reads of the shared words found" % (rid, n))
    for lf in sorted(fields & seen):
        b = [(f, l) for f, l, x in bad if x == lf]
        rep.check(not b, rid, "volatile-read." + lf, "every read of %s is a volatile / atomic load (frozen exceptions: %d)" % (lf, len([k for k in PLAIN_READ_OK if k[1] == lf])),
                  "%s is read with a plain load in %s: inlined into an optimised caller the read is hoisted out of a polling loop / merged with an earlier one - "
                  "the caller keeps seeing the old value after the concurrent update has returned" % (lf, sorted(set(l.origin_fn or f.name for f, l in b))[:3]), [l.where() for f, l in b[:3]])


def rule_wrappers(ctx, rep, rid, families):
    """the exported (non-LGPL) entry points of the queues / stacks against their static-inline twins (witness/wrappers.c, the
    code _LGPL_SOURCE users get): the flattened library symbol performs the same writes and the same external / indirect calls
    as the flattened inline version.  However the wrapper is written (forwarding call, one level inlined by hand), an entry
    point that drops its work leaves every application linked against the library with an operation that does nothing."""
    import re
    m = ctx.mod("cds", "flat")
    w = ctx.mod("w_wrappers", "flat")
    n = 0
    for f in m.defined():
        mt = re.match(WRAPPER_RE, f.name)
        if not mt or mt.group(2) not in families:
            continue
        n += 1
        rep.touch(f)
        t = w.fn("w_inl_" + f.name)
        if t is None:
            rep.unk(rid, "wrapper." + f.name, "exported entry point %s has no inline twin in witness/wrappers.c: not analysed" % f.name)
            continue
        a, b = _twin_signature(f), _twin_signature(t)
        if a == b:
            rep.ok(rid, "wrapper." + f.name, "same %d effect(s) as the static-inline implementation" % sum(a.values()), [f.name])
        else:
            lost, extra = b - a, a - b
            rep.bad(rid, "wrapper." + f.name, "the library symbol %s() differs from the static-inline implementation: missing %s%s - applications linked against the library (not built with _LGPL_SOURCE) get a different operation" % (
                f.name, [" ".join(str(x) for x in k if x) for k in list(lost)[:3]] or "nothing", (", additional %s" % [" ".join(str(x) for x in k if x) for k in list(extra)[:2]]) if extra else ""), [f.name])
    pat.require(n >= 5, "only %d exported entry points of %s found" % (n, families))


INIT_TABLE = {
    # entry point -> {stored location (suffix): value}; the initial state every other rule assumes
    "cds_wfcq_node_init": {"cds_wfcq_node.next": "0"},
    "cds_wfcq_init": {"node.cds_wfcq_node.next": "0", "cds_wfcq_tail.p": "&arg0.cds_wfcq_head.node"},
    "__cds_wfcq_init": {"node.cds_wfcq_node.next": "0", "cds_wfcq_tail.p": "&arg0.__cds_wfcq_head.node"},
    "cds_wfq_node_init": {"cds_wfq_node.next": "0"},
    "cds_wfq_init": {"dummy.cds_wfq_node.next": "0", "cds_wfq_queue.head": "&arg0.cds_wfq_queue.dummy", "cds_wfq_queue.tail": "&arg0.cds_wfq_queue.dummy.cds_wfq_node.next"},
    "cds_wfs_node_init": {"cds_wfs_node.next": "0"},
    "cds_wfs_init": {"cds_wfs_stack.head": "1"},
    "__cds_wfs_init": {"__cds_wfs_stack.head": "1"},
    "cds_lfs_init": {"cds_lfs_stack.head": "0"},
    "__cds_lfs_init": {"__cds_lfs_stack.head": "0"},
    "cds_lfs_init_rcu": {"cds_lfs_stack_rcu.head": "0"},
    "cds_lfq_node_init_rcu": {"cds_lfq_node_rcu.next": "0", "cds_lfq_node_rcu.dummy": "0"},
}


def rule_inits(ctx, rep, rid, names):
    """initialisers (static-inline twins in witness/wrappers.c): an empty wfcqueue is head.next = NULL with the tail pointing at
    the head node, an empty wfstack is head = END, an empty lfstack head = NULL, a fresh node has next = NULL (and, for the
    RCU queue, dummy = 0 - a node whose dummy flag is left uninitialised is taken for the queue's internal dummy and freed)."""
    w = ctx.mod("w_wrappers", "flat")
    for name in names:
        want = INIT_TABLE[name]
        g = w.fn("w_inl_" + name)
        if g is None:
            raise Broken("witness twin of %s missing" % name)
        rep.touch(g)
        got = {}
        for s_ in g.all_insts():
            if s_.op == "store" and s_.d["ap"] and s_.d["ap"]["base"][0] == "a":
                got[ir.ap_str(g, s_.d["ap"])] = ir.expr_str(ir.expr(g, s_.args[0], 3))
        miss = [k for k, v in want.items() if not any(loc.endswith(k) and val == v for loc, val in got.items())]
        rep.check(not miss, rid, "init." + name, "%s establishes %s" % (name, want), "%s does not establish %s (stores: %s)" % (name, {k: want[k] for k in miss}, got), [g.name])


def rule_wfq_legacy(ctx, rep):
    """legacy cds_wfq dequeue (___cds_wfq_dequeue_blocking): NULL exactly when only the dummy is queued (head == &dummy and
    tail == &dummy.next); otherwise the head node's successor is awaited until non-NULL, q->head advances to it, and the old head
    is returned - unless it is the dummy, which is re-initialised, re-enqueued and the dequeue repeated."""
    m = ctx.mod("cds", "flat")
    f = m.fn("___cds_wfq_dequeue_blocking")
    if f is None:
        raise Broken("___cds_wfq_dequeue_blocking vanished")
    rep.touch(f)
    dummy = lambda e: e[0] == "addr" and e[1] == "arg0.cds_wfq_queue.dummy"
    dnext = lambda e: e[0] == "addr" and e[1].startswith("arg0.cds_wfq_queue.dummy.")
    hd = lambda e: e[0] == "load" and e[1] == "arg0.cds_wfq_queue.head"
    tl = lambda e: e[0] == "load" and e[1] == "arg0.cds_wfq_queue.tail"
    adv = [s_ for s_ in pat.stores(f, "cds_wfq_queue.head")]
    nxt = [l for l in f.all_insts() if l.op == "load" and l.d["ap"] and pat.last_field(l.d["ap"]) == "cds_wfq_node.next"]
    rec = pat.calls(f, "___cds_wfq_dequeue_blocking")
    xt = [e.inst for e in pat.accesses(f, "cds_wfq_queue.tail", ("xchg",))]
    pat.require(adv and nxt, "wfq dequeue: head advance / successor load")
    # empty <=> both tests
    e_head = [(t.blk.id, s_) for t, s_, a in pat.branch_edges_on(f, lambda a: a[0] == "eq" and hd(a[1]) and dummy(a[2]))]
    e_tail = [(t.blk.id, s_) for t, s_, a in pat.branch_edges_on(f, lambda a: a[0] == "eq" and tl(a[1]) and dnext(a[2]))]
    pat.require(e_head and e_tail, "wfq dequeue: emptiness tests")
    work = adv + rec
    # a return that did not advance the head took both `empty` edges
    for edges, what in ((e_head, "head == &dummy"), (e_tail, "tail == &dummy.next")):
        rep.must_take_edge("C10.wfq", "dequeue.empty-needs-" + what.split(" ")[0], f, [f.entry()], list(f.rets()), edges, include_start=True, avoid=lambda i: i in adv,
                           what="the dequeue returns without advancing the head only after seeing " + what)
    # the successor is awaited: the head advances only after a successor load was seen non-NULL
    nonnull = [(t.blk.id, s_) for t, s_, a in pat.branch_edges_on(f, lambda a: a[0] == "ne" and a[2] == ("c", 0) and a[1][0] == "load" and a[1][1].endswith("cds_wfq_node.next"))]
    pat.require(nonnull, "wfq dequeue: successor test")
    rep.must_take_edge("C10.wfq", "dequeue.awaits-successor", f, [f.entry()], adv, nonnull, include_start=True, what="q->head advances only to a successor that was seen non-NULL")
    v = ir.expr(f, adv[0].args[0], 3)
    rep.check(v[0] == "load" and v[1].endswith("cds_wfq_node.next"), "C10.wfq", "dequeue.advance-value", "q->head := the awaited successor", "q->head := %s" % ir.expr_str(v), [adv[0].where()])
    # every return on the non-empty path passed the advance
    rets = list(f.rets())
    hit, _ = f.reach([b for b in [f.blocks[s_].insts[0] for _b, s_ in nonnull]], rets, include_start=True, avoid=lambda i: i in adv)
    rep.check(hit is None, "C10.wfq", "dequeue.always-advances", "a dequeue that found a successor advances q->head before returning", "a node can be returned without q->head moving past it: the next dequeue returns it again", [adv[0].where()])
    # dummy handling
    if not rec or not xt:
        rep.bad("C10.wfq", "dequeue.dummy-requeue", "a dequeued dummy node is not re-enqueued / the dequeue is not repeated: the dummy is handed to the caller, or the queue loses its sentinel", [f.name])
    else:
        isd = [(t.blk.id, s_) for t, s_, a in pat.branch_edges_on(f, lambda a: a[0] == "eq" and hd(a[1]) and dummy(a[2])) if t.blk.id != e_head[0][0]]
        rep.must_pass("C10.wfq", "dequeue.dummy-requeue", f, adv, rec, lambda i: i in xt, what="the dummy is re-enqueued (tail exchange) before the dequeue is repeated")
        rz = [s_ for s_ in f.all_insts() if s_.op == "store" and s_.d["ap"] and pat.last_field(s_.d["ap"]) == "cds_wfq_node.next" and ir.const_of(f, s_.args[0]) == 0]
        rep.must_pass("C10.wfq", "dequeue.dummy-reinit", f, adv, xt, lambda i: i in rz, what="the dummy's next is reset to NULL before it is re-enqueued")
        if isd:
            rep.must_take_edge("C10.wfq", "dequeue.requeue-only-dummy", f, adv, xt, isd, include_start=False, what="only the dummy node is re-enqueued by the dequeue")
            notd = [(t.blk.id, s_) for t, s_, a in pat.branch_edges_on(f, lambda a: a[0] == "ne" and hd(a[1]) and dummy(a[2])) if t.blk.id != e_head[0][0]]
            for b_, s_ in isd:
                h2, _ = f.reach([f.blocks[s_].insts[0]], rets, include_start=True, avoid=lambda i: i in rec)
                rep.check(h2 is None, "C10.wfq", "dequeue.dummy-never-returned", "the dummy node is never returned to the caller", "the dummy node can be returned to the caller", [f.blocks[b_].insts[-1].where()])


def rule_macro(ctx, rep):
    """the for_each iteration macros (witness/wfiter.c): start at first(), body iff non-NULL, step = next(cursor); _safe variants
    fetch the successor before the body and never touch the cursor afterwards"""
    from .. import itermacro
    m = ctx.mod("w_wfiter", "flat")
    table = [
        ("w_iter___cds_wfcq_for_each_blocking", "__cds_wfcq_first_blocking", "__cds_wfcq_next_blocking", 2, False, None),
        ("w_iter___cds_wfcq_for_each_blocking_safe", "__cds_wfcq_first_blocking", "__cds_wfcq_next_blocking", 2, True, None),
    ]
    for name, first, nxt, nargs, safe, lfs in table:
        f = m.fn(name)
        pat.require(f is not None, "witness %s vanished" % name)
        itermacro.check(rep, "C10.macro", f, first, nxt, nargs, safe, lfs)
    # inventory: every for_each macro of the public headers has a witness
    import re
    hdrs = {"C10.macro": ["include/urcu/wfcqueue.h"], "C11.macro": ["include/urcu/wfstack.h", "include/urcu/lfstack.h"]}["C10.macro"]
    have = set(n.replace("w_iter_", "") for n, *_ in table)
    for h in hdrs:
        for mac in re.findall(r"^#define\s+(\w*for_each\w*)\(", ctx.src(h), re.M):
            rep.check(mac in have, "C10.macro", "inventory." + mac, "iteration macro has a witness", "iteration macro %s of %s has no witness: not analysed" % (mac, h), [h])


BLOCKING_WFCQ = ["__cds_wfcq_dequeue_blocking", "__cds_wfcq_dequeue_with_state_blocking", "cds_wfcq_dequeue_blocking", "cds_wfcq_dequeue_with_state_blocking",
                 "__cds_wfcq_splice_blocking", "cds_wfcq_splice_blocking", "__cds_wfcq_first_blocking", "__cds_wfcq_next_blocking"]


def rule_blocking(ctx, rep):
    """the blocking entry points never return the non-blocking sentinel (CDS_WFCQ_WOULDBLOCK / CDS_WFCQ_RET_WOULDBLOCK = -1)"""
    m = ctx.mod("cds", "flat")
    for name in BLOCKING_WFCQ:
        f = m.fn(name)
        pat.require(f is not None, name + " vanished")
        rep.touch(f)
        bad = []
        for r in f.rets():
            if r.args:
                e = ir.expr(f, r.args[0], 8, through_phi=True)
                if ir.expr_contains(e, lambda z: z == ("c", -1)):
                    bad.append(r)
        rep.check(not bad, "C10.blocking", name + ".never-WOULDBLOCK", "never returns the WOULDBLOCK sentinel",
                  "%s can return -1 (WOULDBLOCK): the blocking variant is built with blocking=0 somewhere" % name, [b.where() for b in bad[:1]])


EXPORTED_LOCKED = {
    "C10": ["cds_wfcq_dequeue_blocking", "cds_wfcq_dequeue_with_state_blocking", "cds_wfcq_splice_blocking", "cds_wfq_dequeue_blocking"],
    "C11": ["cds_wfs_pop_blocking", "cds_wfs_pop_with_state_blocking", "cds_wfs_pop_all_blocking", "cds_lfs_pop_blocking", "cds_lfs_pop_all_blocking"],
}


def rule_exported_locked(ctx, rep, pid):
    """The exported (non-inline) locked entry points of liburcu-cds / liburcu-common take the structure's mutex themselves, as
    their documentation says: in the specialised code of each, every access to the queue / stack words happens with that mutex
    held.  A wrapper in src/*.c that forwards to the __-prefixed (caller-must-lock) primitive compiles and links alike."""
    from .. import mm as _mm
    m = ctx.mod("cds", "flat")
    for name in EXPORTED_LOCKED[pid]:
        f = m.fn(name)
        pat.require(f is not None, name + " vanished")
        rep.touch(f)
        must = lockset.compute(f)
        lk = f.calls("pthread_mutex_lock")
        if not lk:
            rep.bad(pid + ".exported", name + ".takes-lock", "%s never takes the structure's mutex although it is the self-locking variant: concurrent consumers corrupt the structure" % name, [f.name])
            continue
        bad = []
        n = 0
        for i in f.all_insts():
            if i.op == "call" and m.fn(i.callee) is not None and m.fn(i.callee).linkage == "internal":
                # a primitive that stayed a call (recursive legacy dequeue): it must be called with the mutex held
                n += 1
                if not must.get(i.id):
                    bad.append(i)
                continue
            if i.op not in ("load", "store", "rmw", "cmpxchg", "asm"):
                continue
            e = _mm.effect_of(i)
            if e is None or e.ap is None or e.kind == "fence":
                continue
            b = e.ap["base"]
            if not (b and b[0] in ("a",)):
                continue
            if (pat.last_field(e.ap) or "").endswith(".lock"):
                continue
            n += 1
            if not must.get(i.id):
                bad.append(i)
        rep.check(n > 0 and not bad, pid + ".exported", name + ".under-lock", "all %d accesses to the structure happen with its mutex held" % n,
                  "%s touches the structure without holding its mutex" % name, [b.where() for b in bad[:2]])


META["explanation"] += " " + 'Also (fifth reading): return case table of dequeue (NULL iff the emptiness test held, WOULDBLOCK iff a successor wait reported it in non-blocking mode, a node otherwise).'

META["explanation"] += " " + 'Also (round 14): shared words are read with volatile / atomic loads in every API function; no pure / const attribute on the public prototypes.'

RULES = [
    ("C10.proto", lambda c, r: __import__("sa.attrs", fromlist=["x"]).rule_nopure(c, r, "C10.proto", '^_*cds_(wfcq|wfq)_', "wfcqueue / wfqueue", 15)),   # compiler-visible contract of the public prototypes: pure / const would let an optimised caller poll once
    ("C10.nodeinit", rule_nodeinit),
    ("C10.append", rule_append),
    ("C10.empty", rule_empty),
    ("C10.deq", rule_deq),
    ("C10.splice", rule_splice),
    ("C10.locked", rule_locked),
    ("C10.legacy", rule_legacy),
    ("C10.iter", rule_iter),
    ("C10.blocking", rule_blocking),
    ("C10.exported", lambda c, r: rule_exported_locked(c, r, "C10")),
    ("C10.macro", rule_macro),
    ("C10.exported", lambda c, r: rule_wrappers(c, r, "C10.exported", ("wfcq", "wfq"))),
    ("C10.init", lambda c, r: rule_inits(c, r, "C10.init", ("cds_wfcq_node_init", "cds_wfcq_init", "__cds_wfcq_init", "cds_wfq_node_init", "cds_wfq_init"))),
    ("C10.wfq", rule_wfq_legacy),
    ("C10.sharedread", lambda c, r: rule_sharedread(c, r, "C10.sharedread", ("wfcq", "wfq"))),
]
FLOORS = {}
