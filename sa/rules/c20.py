"""C20 — uatomic ops are atomic and return the documented value for every width/operand (structural part)."""
import os
import re
import subprocess
import tempfile
from .. import ir, mm, pat
from ..core import Broken

META = {
    "explanation": "On a witness unit instantiating every uatomic operation × {1,2,4,8}-byte signed/unsigned operand (default memory orders, mixed operand widths, explicit load/store "
                   "orders): exactly one atomic effect on the unmodified pointer, of exactly the operand's width (asm mnemonic suffix / IR integer type), no plain access to the location; "
                   "read-modify-write operations are a single lock-prefixed instruction or xchg (one atomicrmw/cmpxchg in the builtins configuration), never a load/store pair; xchg, cmpxchg, "
                   "add_return, sub_return are full barriers with a memory clobber; return-value def-use (old value for xchg/cmpxchg, old value + operand for add_return, sub_return = add_return "
                   "of the negation computed at `long` width so that narrower unsigned operands are widened before being negated); load/store memory orders map as documented; 3- and 16-byte "
                   "operands fail to compile.",
    "not_decided": "instruction semantics, all operand values, absence of lost updates (trusted to the hardware and the compiler back end)",
    "trusted_base": ["x86-64 semantics of lock-prefixed instructions and xchg; LLVM atomic instruction semantics in the builtins configuration"],
}
MOD = "w_uatomic"
BITS = {"uc": 8, "sc": 8, "us": 16, "ss": 16, "ui": 32, "si": 32, "ul": 64, "sl": 64}
OPS = ("set", "read", "xchg", "cmpxchg", "add_return", "sub_return", "add", "sub", "inc", "dec", "and", "or")
RMW_OPS = {"xchg": "xchg", "cmpxchg": "cmpxchg", "add_return": "rmw", "sub_return": "rmw", "add": "rmw", "sub": "rmw", "inc": "rmw", "dec": "rmw", "and": "rmw", "or": "rmw"}
FULL_OPS = ("xchg", "cmpxchg", "add_return", "sub_return")
THOROUGH_CONFIGS = [("default", ()), ("atomic-builtins", ("-DCONFIG_RCU_USE_ATOMIC_BUILTINS=1",))]
QUICK_CONFIGS = THOROUGH_CONFIGS      # the builtins flavour of the header is a second implementation of the same interface: decided on every run
OPTIONAL_CONFIGS = ()


def W(ctx):
    return ctx.mod(MOD, "flat")


def on_ptr(f, e):
    return e is not None and e.ap is not None and e.ap["base"] == ["a", 0] and not e.ap["steps"]


def effects(f):
    out = []
    for i in f.all_insts():
        if i.op in ("load", "store", "rmw", "cmpxchg", "asm", "fence"):
            e = mm.effect_of(i)
            if e is not None:
                out.append(e)
    return out


def neg_chain(f, v):
    """instructions between the atomic's value operand and the function argument (cast-aware)"""
    out = []
    n = 0
    while v and v[0] == "i" and n < 12:
        i = f.insts[v[1]]
        out.append(i)
        if i.op == "cast":
            v = i.args[0]
        elif i.op == "bin" and i.d["bop"] == "sub" and ir.const_of(f, i.args[0]) == 0:
            v = i.args[1]
        else:
            break
        n += 1
    return out, v


def rule_ops(ctx, rep):
    m = W(ctx)
    n = 0
    for op in OPS:
        for t, bits in BITS.items():
            name = "w_%s__%s" % (op, t)
            f = m.fn(name)
            if f is None:
                raise Broken("witness function %s missing" % name)
            rep.touch(f)
            n += 1
            _check_op(rep, f, op, bits, bits, name[2:])
    for f in m.defined():
        mt = re.match(r"w_(add_return|sub_return|add|sub|and|or|set|xchg|cmpxchg)__(\w\w)__(\w\w)$", f.name)
        if mt:
            rep.touch(f)
            n += 1
            _check_op(rep, f, mt.group(1), BITS[mt.group(2)], BITS[mt.group(3)], f.name[2:])
    pat.require(n >= 96 + 20 + 40, "only %d witness functions" % n)


def _check_op(rep, f, op, bits, vbits, tag):
    effs = effects(f)
    mem = [e for e in effs if e.kind in ("load", "store", "rmw", "cmpxchg", "xchg") and e.ap is not None]
    onp = [e for e in mem if on_ptr(f, e)]
    off = [e for e in mem if not on_ptr(f, e) and not c_local(f, e)]
    site = [onp[0].inst.where()] if onp else [f.name]
    # W1: one effect, on the unmodified pointer, of the operand's width
    ok1 = len(onp) == 1 and not off and onp[0].bits == bits
    rep.check(ok1, "C20.W1", tag + ".one-effect-exact-width", "exactly one atomic effect of %d bits on *addr" % bits,
              "%s: %d effect(s) on *addr of widths %s (expected one of %d bits), %d access(es) elsewhere: neighbouring bytes touched / operation split"
              % (tag, len(onp), [e.bits for e in onp], bits, len(off)), site)
    if len(onp) != 1:
        return
    e = onp[0]
    if e.inst.op == "asm":
        suf = {8: "b", 16: "w", 32: "l", 64: "q"}[bits]
        mn = e.inst.d["asm"].split()[1] if e.inst.d["asm"].startswith("lock;") else e.inst.d["asm"].split()[0]
        rep.check(mn.endswith(suf), "C20.W1", tag + ".mnemonic-width", "instruction mnemonic %s has the %d-bit suffix" % (mn, bits), "mnemonic %s does not match a %d-bit operand" % (mn, bits), site)
    if op in ("set", "read"):
        want = "store" if op == "set" else "load"
        rep.check(e.kind == want and e.order not in ("na",), "C20.W2", tag + ".atomic-access", "atomic %s" % want, "uatomic_%s is a %s with order %s" % (op, e.kind, e.order), site)
        if op == "read":
            r = f.rets()[0]
            rv = ir.expr(f, r.args[0])
            rep.check(rv[0] == "load" and rv[3] == e.inst.id, "C20.W4", tag + ".returns-loaded", "returns the loaded value", "returns %s" % ir.expr_str(rv), site)
        return
    # W2: single locked RMW
    rep.check(e.kind == RMW_OPS[op] and e.locked, "C20.W2", tag + ".single-locked-rmw", "one %s instruction (lock prefix / xchg / atomicrmw)" % e.kind,
              "uatomic_%s is a %s%s: not a single atomic read-modify-write (updates can be lost)" % (op, e.kind, "" if e.locked else " without lock prefix"), site)
    if e.inst.op == "asm":
        rep.check(bool(e.memread), "C20.W9", tag + ".memory-operand-read-write", "the asm declares *addr as read and written (\"+m\")",
                  "the %s asm declares *addr write-only (\"=m\"): the instruction reads the old value, but the compiler is told it does not - gcc -O1 deletes a preceding plain store "
                  "to the location as dead (`x = 5; uatomic_%s(&x…)` operates on the stale bytes), the memory clobber does not prevent it" % (e.rop or e.kind, op), site)
    rep.check(e.compiler or e.full, "C20.W3", tag + ".memory-clobber", "acts as a compiler barrier (memory clobber)", "atomic instruction lacks the memory clobber", site)
    if op in FULL_OPS:
        full = e.full
        if e.inst.op != "asm":
            # builtins: seq_cst + trailing seq_cst fence for the default CMM_SEQ_CST_FENCE
            fences = [x for x in effs if x.kind == "fence" and x.full]
            full = e.order == "seq_cst" and bool(fences) and f.dominates(e.inst, fences[0].inst)
        rep.check(full, "C20.W3", tag + ".full-barrier", "full barrier (default CMM_SEQ_CST_FENCE)", "uatomic_%s is not a full barrier with its default memory order" % op, site)
    r = f.rets()[0]
    # operand def-use
    if op in ("add_return", "sub_return", "add", "sub"):
        chain, root = neg_chain(f, e.val)
        negs = [i for i in chain if i.op == "bin"]
        if op in ("add_return", "add"):
            rep.check(not negs and root == ["a", 1], "C20.W4", tag + ".operand", "adds the operand itself", "operand is transformed before the add: %s" % ir.expr_str(ir.expr(f, e.val)), site)
        elif e.inst.op == "rmw" and e.rop == "sub":
            rep.check(not negs and root == ["a", 1], "C20.W4", tag + ".operand", "atomic subtract of the operand itself", "operand transformed before the atomic subtract", site)
        else:
            okn = len(negs) == 1 and root == ["a", 1] and negs[0].d.get("ty") == "i64"
            rep.check(okn, "C20.W4", tag + ".negated-at-long-width", "subtracts by adding the negation computed at `long` width (operand widened first)",
                      "the operand is negated at %s before being widened: for an unsigned operand narrower than the target the sum is off by 2^%d (and INT_MIN overflows)"
                      % (negs[0].d.get("ty") if negs else "?", vbits), site)
            if vbits < 64 and negs:
                # the widening cast sits between the argument and the negation
                k = chain.index(negs[0])
                inner = [i for i in chain[k + 1:] if i.op == "cast" and i.d["cop"] in ("zext", "sext")]
                rep.check(bool(inner) or vbits == 64, "C20.W4", tag + ".widen-before-negate", "operand is extended to long before negation", "operand negated before extension", site)
    if op in ("xchg", "cmpxchg"):
        rv = ir.expr(f, r.args[0])
        okr = (rv[0] == "asm" and rv[2] == e.inst.id) or (rv[0] in ("rmw", "cmpxchg") and rv[-1] == e.inst.id) or (rv[0] == "ev" and rv[1][-1] == e.inst.id)
        if not okr and rv[0] == "select" and op == "cmpxchg":
            # builtins: success ? expected : loaded  (both are the old value)
            okr = rv[1][0] == "ev" and rv[1][1][-1] == e.inst.id and rv[2] == ("arg", 1) and rv[3][0] == "ev" and rv[3][1][-1] == e.inst.id
        rep.check(okr, "C20.W4", tag + ".returns-old", "returns the value read by the atomic instruction", "returns %s" % ir.expr_str(rv), site)
        if op == "cmpxchg":
            rep.check(ir.strip_casts(f, e.exp) == ["a", 1] and ir.strip_casts(f, e.new) == ["a", 2], "C20.W4", tag + ".operands", "compares with `old`, installs `new`", "cmpxchg operands swapped/altered", site)
        else:
            rep.check(ir.strip_casts(f, e.val) == ["a", 1], "C20.W4", tag + ".operand", "exchanges with the operand", "xchg operand altered", site)
    if op in ("add_return", "sub_return"):
        rv = ir.expr(f, r.args[0])
        okr = rv[0] == "bin" and rv[1] == "add" and ((rv[2][0] in ("asm", "rmw") and rv[2][-1] == e.inst.id) or (rv[2][0] == "rmw")) and rv[3] == ir.expr(f, e.val)
        if e.inst.op == "rmw":
            okr = rv[0] == "bin" and rv[1] == ("sub" if e.rop == "sub" else "add") and rv[2][0] == "rmw" and rv[2][-1] == e.inst.id and rv[3] == ir.expr(f, e.val)
        rep.check(okr, "C20.W4", tag + ".returns-new", "returns old value + operand (truncated to the operand type)", "returns %s" % ir.expr_str(rv), site)
    if op in ("and", "or", "inc", "dec", "add", "sub"):
        want = {"and": "and", "or": "or", "inc": ("inc", "add"), "dec": ("dec", "sub", "add"), "add": ("add", "xadd"), "sub": ("add", "sub", "xadd")}[op]
        rep.check(e.rop in (want if isinstance(want, tuple) else (want,)), "C20.W2", tag + ".operation", "performs %s" % e.rop, "uatomic_%s performs %s" % (op, e.rop), site)
        if op in ("and", "or"):
            rep.check(ir.strip_casts(f, e.val) == ["a", 1], "C20.W4", tag + ".operand", "mask is the operand", "mask altered", site)


def rule_cmpd(ctx, rep):
    """Macro-argument hygiene (witnesses w_<op>_cmpd__<type>: operand `a < b` with int a, b): the value reaching the atomic
    instruction is the signed 32-bit comparison of the two arguments, i.e. the operand expression was evaluated as a whole
    in its own type.  A macro that applies a cast or unary operator to its unparenthesised parameter converts `a` first and
    compares at the wrong width / signedness - every caller passing a compound expression gets a different value."""
    m = W(ctx)
    n = 0
    for f in m.defined():
        mt = re.match(r"w_(set|xchg|cmpxchg|add_return|sub_return|add|sub|and|or)_cmpd__(\w\w)$", f.name)
        if not mt:
            continue
        rep.touch(f)
        n += 1
        op, t = mt.group(1), mt.group(2)
        onp = [e for e in effects(f) if e.kind in ("store", "rmw", "cmpxchg", "xchg") and on_ptr(f, e)]
        if len(onp) != 1:
            rep.bad("C20.W7", f.name[2:] + ".one-effect", "%d atomic effects on *addr for a compound operand (expected one)" % len(onp), [f.name])
            continue
        e = onp[0]
        vals = [("old", e.exp, (1, 2)), ("new", e.new, (2, 1))] if e.kind == "cmpxchg" else [("operand", e.val, (1, 2))]
        for what, v, (x, y) in vals:
            ex = ir.expr(f, v, 10)
            cmps = [z for z in ir.subexprs(ex) if z[0] == "icmp"]
            ok = len(cmps) == 1 and cmps[0][1] == "slt" and cmps[0][2] == ("arg", x) and cmps[0][3] == ("arg", y)
            widths = [f.insts[k].d.get("ty") for k in range(len(f.insts)) if f.insts[k].op == "icmp"]
            rep.check(ok and all(w in (None, "i1") or True for w in widths), "C20.W7", "%s.%s-evaluated-whole" % (f.name[2:], what), "the %s `a < b` reaches the instruction as the signed comparison of the two int arguments" % what,
                      "the %s expression `a < b` reaches the atomic instruction as %s: the macro converted part of the expression before evaluating it (unparenthesised macro parameter) - "
                      "compound operands are computed in the wrong type" % (what, ir.expr_str(ex)), [e.inst.where()])
    pat.require(n >= 40, "only %d compound-operand witnesses" % n)


def rule_const(ctx, rep):
    """Identity operands written as literals (witnesses w_<op>_k0 / _k1): the operation is still one locked read-modify-write of the
    operand's width on *addr, and add_return / sub_return / xchg / cmpxchg are still full barriers - `uatomic_add_return(p, 0)` is the
    documented way to read with full ordering.  A constant-operand shortcut (load instead of add 0, nothing instead of or 0) compiles,
    returns the right value, and silently drops the atomic step and the barrier."""
    m = W(ctx)
    n = 0
    for f in m.defined():
        mt = re.match(r"w_(xchg|cmpxchg|add_return|sub_return|add|sub|and|or)_k([01])__(\w\w)$", f.name)
        if not mt:
            continue
        rep.touch(f)
        n += 1
        op, k, t = mt.group(1), int(mt.group(2)), mt.group(3)
        bits = BITS[t]
        tag = f.name[2:]
        effs = effects(f)
        mem = [e for e in effs if e.kind in ("load", "store", "rmw", "cmpxchg", "xchg") and e.ap is not None]
        onp = [e for e in mem if on_ptr(f, e)]
        site = [onp[0].inst.where()] if onp else [f.name]
        ok1 = len(onp) == 1 and onp[0].bits == bits and onp[0].kind == RMW_OPS[op] and onp[0].locked
        rep.check(ok1, "C20.W8", tag + ".still-one-locked-rmw", "a literal identity operand still yields one locked %s of %d bits" % (RMW_OPS[op], bits),
                  "uatomic_%s with a literal %s operand compiles to %s: the constant case is special-cased away from the atomic read-modify-write"
                  % (op, "identity" if k == 0 else "1", [(e.kind, e.bits) for e in onp] or "no access at all"), site)
        if not ok1:
            continue
        e = onp[0]
        if op in FULL_OPS:
            full = e.full
            if e.inst.op != "asm":
                fences = [x for x in effs if x.kind == "fence" and x.full]
                full = e.order == "seq_cst" and bool(fences) and f.dominates(e.inst, fences[0].inst)
            rep.check(full, "C20.W8", tag + ".still-full-barrier", "and it is still a full barrier", "uatomic_%s(p, <literal>) is not a full barrier" % op, site)
    pat.require(n >= 80, "only %d constant-operand witnesses" % n)


def c_local(f, e):
    from .c17 import is_local
    return is_local(f, e.ap)


ORD = {"relaxed": ("relaxed", False), "consume": ("acquire", False), "acquire": ("acquire", False), "seq_cst": ("seq_cst", False), "seq_cst_fence": ("seq_cst", True),
       "release": ("release", False)}


def rule_orders(ctx, rep):
    m = W(ctx)
    n = 0
    for f in m.defined():
        mt = re.match(r"w_(load|store)_(relaxed|consume|acquire|release|seq_cst|seq_cst_fence)__(\w\w)$", f.name)
        if not mt:
            continue
        rep.touch(f)
        n += 1
        kind, mo, t = mt.groups()
        effs = effects(f)
        acc = [e for e in effs if e.kind == kind and on_ptr(f, e)]
        fences = [e for e in effs if e.kind == "fence" and e.full]
        want, fence = ORD[mo]
        tag = f.name[2:]
        ok = len(acc) == 1 and acc[0].bits == BITS[t]
        if ok:
            o = acc[0].order
            if mo == "consume":
                ok = o in ("acquire", "relaxed", "seq_cst") and (o != "relaxed" or any(x.kind == "fence" for x in effs) or acc[0].inst.d.get("vol"))
            else:
                ok = o == want
            if fence:
                ok = ok and bool(fences) and f.dominates(acc[0].inst, fences[0].inst)
            else:
                ok = ok and (not fences or mo in ("seq_cst",))
        rep.check(ok, "C20.W5", tag, "%s with order %s%s, %d bits" % (kind, want, " + full fence after" if fence else "", BITS[t]),
                  "uatomic_%s(…, CMM_%s) compiles to %s order %s with %d full fence(s)" % (kind, mo.upper(), kind, acc[0].order if acc else "?", len(fences)), [f.name])
    pat.require(n >= 72, "only %d memory-order witnesses" % n)


def rule_orders_compat(ctx, rep, rid="C20.W10", only=None):
    """Callers compiled below C11 (-std=gnu99/c99/gnu89: the README asks for `at least C99`) do not get the __atomic builtins: uatomic_load /
    uatomic_store (and everything built on them: rcu_dereference, rcu_assign_pointer, CMM_LOAD/STORE_SHARED users with an order) are a volatile
    access bracketed by the x86 fence-emulation hooks.  Decided on the same witnesses compiled with -std=gnu99: one volatile access of the
    operand's width; a release / seq_cst store is preceded by (at least) a compiler barrier; a seq_cst store is followed by a full fence
    (store->load order on x86-TSO); an acquire / consume / seq_cst load is followed by (at least) a compiler barrier; the _FENCE variants are
    followed by a full fence."""
    from .. import core as _core
    c2 = ctx if ctx.facts.config_tag == "pre-c11" else _core.get_ctx(ctx.repo, ctx.tier, ("-std=gnu99",), "pre-c11")
    c2.facts.ensure()
    m = W(c2)
    n = 0
    for f in m.defined():
        mt = re.match(r"w_(load|store)_(relaxed|consume|acquire|release|seq_cst|seq_cst_fence)__(\w\w)$", f.name)
        if not mt:
            continue
        kind, mo, t = mt.groups()
        if only is not None and not only(kind, mo):
            continue
        rep.touch(f)
        n += 1
        effs = effects(f)
        acc = [e for e in effs if e.kind == kind and on_ptr(f, e)]
        tag = "pre-c11." + f.name[2:]
        if len(f.blocks) != 1 or len(acc) != 1:
            rep.unk(rid, tag, "%d accesses to *addr in %d blocks: not the single bracketed access this rule reads" % (len(acc), len(f.blocks)))
            continue
        a = acc[0]
        k = effs.index(a)
        before, after = effs[:k], effs[k + 1:]
        okw = a.bits == BITS[t] and (a.inst.d.get("vol") or a.order != "na")
        rep.check(okw, rid, tag + ".volatile-access", "one volatile %s of %d bits" % (kind, BITS[t]), "the access is %s of %d bits: the compiler may cache, tear or drop it" % ("plain" if not a.inst.d.get("vol") else "volatile", a.bits), [f.name])
        cb = lambda es: any(e.kind == "fence" and (e.compiler or e.full) for e in es)
        fb = lambda es: any((e.kind == "fence" and e.full) or (e.is_rmw() and e.full) for e in es)
        if kind == "store":
            if mo != "relaxed":
                rep.check(cb(before), rid, tag + ".barrier-before", "compiler barrier before the %s store" % mo,
                          "no compiler barrier in front of the CMM_%s store: the compiler may sink earlier stores (the initialisation of a node about to be published) below it" % mo.upper(), [a.inst.where()])
            if mo in ("seq_cst", "seq_cst_fence"):
                rep.check(fb(after), rid, tag + ".full-fence-after", "full fence after the %s store" % mo,
                          "no full fence after the CMM_%s store: on x86-TSO the store may still sit in the store buffer when later loads are satisfied (store->load reordering)" % mo.upper(), [a.inst.where()])
        else:
            if mo != "relaxed":
                rep.check(cb(after), rid, tag + ".barrier-after", "compiler barrier after the %s load" % mo,
                          "no compiler barrier after the CMM_%s load: the compiler may hoist later accesses above it" % mo.upper(), [a.inst.where()])
            if mo == "seq_cst_fence":
                rep.check(fb(after), rid, tag + ".full-fence-after", "full fence after the seq_cst_fence load", "CMM_SEQ_CST_FENCE load without its fence", [a.inst.where()])
    pat.require(n >= (72 if only is None else 8), "only %d pre-C11 memory-order witnesses" % n)


NEG_SRC = r'''
#include <urcu/uatomic.h>
struct s3 { char c[3]; };
struct s16 { char c[16]; };
struct s3 v3; struct s16 v16;
void n1(void) { struct s3 x = {{0}}; uatomic_set(&v3, x); }
void n2(void) { struct s16 x = {{0}}; uatomic_set(&v16, x); }
void n3(void) { (void) uatomic_read(&v3); }
void n4(void) { (void) uatomic_read(&v16); }
'''
POS_SRC = r'''
#include <urcu/uatomic.h>
long v; char c;
void p1(void) { uatomic_set(&v, 1); uatomic_set(&c, 1); (void) uatomic_read(&v); (void) uatomic_xchg(&c, 2); }
'''


def rule_negative(ctx, rep):
    """T13: operands of unsupported size are rejected at compile time"""
    src = os.path.join(ctx.repo, "src")
    base = None
    for o, (s, fl) in sorted(ctx.facts.units.items()):
        if s == "wfcqueue.c":
            base = fl
    pat.require(base is not None, "base flags")
    with tempfile.TemporaryDirectory() as d:
        res = {}
        for nm, code in (("neg", NEG_SRC), ("pos", POS_SRC)):
            p = os.path.join(d, nm + ".c")
            open(p, "w").write(code)
            r = subprocess.run(["clang", "-fsyntax-only", "-ferror-limit=0", "-w"] + list(base) + list(ctx.facts.extra_defs) + [p], cwd=src, stdout=subprocess.PIPE, stderr=subprocess.PIPE, text=True)
            res[nm] = r
    pos_ok = res["pos"].returncode == 0
    if not pos_ok:
        raise Broken("positive control for the compile-fail witness does not compile: %s" % res["pos"].stderr[-300:])
    errs = res["neg"].stderr
    funcs = set(re.findall(r"in function '?(n\d)'?|neg\.c:(\d+):", errs))
    lines = set(int(x) for x in re.findall(r"neg\.c:(\d+):\d+: error", errs))
    srcl = NEG_SRC.split("\n")
    want = {}
    for k, what in (("n1", "3-byte set"), ("n2", "16-byte set"), ("n3", "3-byte read"), ("n4", "16-byte read")):
        want[[i for i, l in enumerate(srcl) if ("void %s(" % k) in l][0] + 1] = what
    for ln, what in want.items():
        rep.check(ln in lines, "C20.W6", what, "rejected at compile time", "uatomic accepts a %s operand: such an access cannot be a single atomic instruction" % what.split()[0], ["witness neg.c:%d" % ln])


META["explanation"] += " " + 'Both flavours of the header (x86 asm and compiler builtins) are analysed on every run; literal identity operands (add 0, or 0, and ~0, xchg 0, cmpxchg(0,0)) are still one locked RMW and, where documented, a full barrier.'

META["explanation"] += " " + 'Also (round 13): every asm read-modify-write declares *addr as read and written ("+m", C20.W9) - the write-only form lets gcc delete the plain store that initialised the location (genuine defect, fixed in /repo 0fd784d).'

META["explanation"] += " " + 'Also (round 14): the pre-C11 fence emulation around uatomic_load / uatomic_store is decided on the witnesses compiled with -std=gnu99 (C20.W10).'

RULES = [
    ("C20.W7", rule_cmpd),
    ("C20.W8", rule_const),
    ("C20.ops", rule_ops),
    ("C20.W5", rule_orders),
    ("C20.W6", rule_negative),
    ("C20.W10", rule_orders_compat),
]
CONFIG_RULES = {"atomic-builtins": ("C20.ops", "C20.W5", "C20.W6", "C20.W8")}
FLOORS = {}
