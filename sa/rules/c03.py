"""C03 — call_rcu(): every callback runs exactly once, only after a full grace period (partial)."""
from .. import ir, mm, pat, paths, lockset, waitloop
from ..core import Broken
from ..flavors import FL, ALL
from . import c01
from .c02 import dom_atoms

META = {
    "explanation": "All-paths rules over every flavor's call_rcu helper thread, call_rcu(), _call_rcu_data_free() and free_all_cpu_call_rcu_data(): a grace period between "
                   "splicing the helper's queue and invoking any callback; who may invoke rcu_head.func and with which argument; safe iteration and per-iteration reset of the "
                   "batch queue; enqueue/wake ordering and the store-buffering pair with the helper's futex; wait-loop shape; call_rcu() brackets the enqueue in a read-side "
                   "section; helper offline (qsbr) while sleeping; hand-over of leftover callbacks to the default helper only after the helper acknowledged STOPPED, inside "
                   "one call_rcu_mutex section together with the list removal; per-CPU teardown ordering; helper list only mutated under call_rcu_mutex.",
    "not_decided": "eventual / exactly-once execution as a property of histories under all schedules",
}

META["explanation"] += " " + 'Also: callbacks are invoked with no library lock held (interprocedural may-lockset); who-may-write table for the helper-selection state (per-thread pointer, per-CPU array, default helper).'
META["technique"] = "static analysis: must-pass-through ordering rules (splice ≺ grace period ≺ invoke, enqueue ≺ wake), who-may-call / who-may-write tables, locksets and wait-loop shapes over normalised LLVM IR of all four flavors' call_rcu implementation"

class Flags:
    """call_rcu_data.flags bit values, derived from the IR of the memb flavor (who sets what)"""
    def __init__(self, ctx):
        h = ctx.fn("memb", "call_rcu_thread")
        fr = ctx.fn("memb", "urcu_memb_call_rcu_data_free")
        bf = ctx.fn("memb", "urcu_memb_call_rcu_before_fork")
        o_h = [(e.inst, ir.const_of(h, e.val)) for e in pat.accesses(h, "call_rcu_data.flags", ("rmw",)) if e.rop == "or"]
        o_f = sorted(set(ir.const_of(fr, e.val) for e in pat.accesses(fr, "call_rcu_data.flags", ("rmw",)) if e.rop == "or"))
        o_b = sorted(set(ir.const_of(bf, e.val) for e in pat.accesses(bf, "call_rcu_data.flags", ("rmw",)) if e.rop == "or"))
        pat.require(len(o_f) == 1 and len(o_b) == 1 and len(o_h) == 2, "call_rcu flag writers not recognised: helper %s free %s before_fork %s" % ([x[1] for x in o_h], o_f, o_b))
        self.STOP, self.PAUSE = o_f[0], o_b[0]
        # STOPPED is the flag after which the helper can only return; PAUSED the one it later clears
        stopped = [c for i, c in o_h if h.reach([i], [x[0] for x in o_h if x[0] is not i])[0] is None]
        pat.require(len(stopped) == 1, "STOPPED/PAUSED not distinguishable")
        self.STOPPED = stopped[0]
        self.PAUSED = [c for i, c in o_h if c != self.STOPPED][0]
        self.all = (self.STOP, self.STOPPED, self.PAUSE, self.PAUSED)
        pat.require(len(set(self.all)) == 4 and all(x & (x - 1) == 0 for x in self.all), "flag values are not four distinct bits: %s" % (self.all,))


_FL = {}


def flags(ctx):
    k = id(ctx)
    if k not in _FL:
        _FL.clear()
        _FL[k] = Flags(ctx)
    return _FL[k]


def crdp_queue_splices(f):
    """xchg on <crdp>.call_rcu_data.cbs_head...next = the source side of a splice from a helper's queue"""
    out = []
    for e in pat.accesses(f, None, ("xchg",)):
        flds = pat.full_ap_fields(e.ap)
        if "call_rcu_data.cbs_head" in flds and ir.const_of(f, e.val) == 0:
            out.append(e.inst)
    return out


def func_icalls(f):
    out = []
    for i in f.all_insts():
        if i.op == "icall":
            fp = f.inst_of(ir.strip_casts(f, i.d["fp"]))
            if fp is not None and fp.op == "load" and pat.last_field(fp.d["ap"]) == "rcu_head.func":
                out.append(i)
    return out


def rule_gp(ctx, rep):
    for fl in ALL:
        F = FL[fl]
        f = ctx.fn(F.lib, "call_rcu_thread")
        rep.touch(f)
        ics = func_icalls(f)
        sp = crdp_queue_splices(f)
        pat.require(sp, "%s: splice of the helper queue not found in call_rcu_thread" % fl)
        if not ics:
            rep.bad("C03.gp", fl + ".invokes", "helper thread never invokes rcu_head.func", [f.name])
            continue
        sync = pat.calls(f, F.pfx + "_synchronize_rcu")
        rep.must_pass("C03.gp", fl + ".splice≺GP≺invoke", f, sp, ics, lambda i: i in sync,
                      what="a grace period (synchronize_rcu) lies between taking callbacks off the helper queue and invoking any of them")
        # invoked with the rcu_head the pointer was loaded from
        for ic in ics:
            fp = f.inst_of(ir.strip_casts(f, ic.d["fp"]))
            same = ic.d["aps"][0] is not None and ic.d["aps"][0]["base"] == fp.d["ap"]["base"] and not [s for s in ic.d["aps"][0]["steps"] if s not in ("rcu_head.next",)]
            rep.check(same and len(ic.args) == 1, "C03.who", fl + ".arg", "callback invoked with the rcu_head it was registered with",
                      "callback invoked with a different argument than the rcu_head holding it", [ic.where()])
        # T14 safe iteration
        for ic in ics:
            base = ic.d["aps"][0]["base"] if ic.d["aps"][0] else None
            hdr = f.insts[base[1]].blk.id if base and base[0] == "i" and f.insts[base[1]].op == "phi" else None
            after = f.reachable_set([ic], avoid=(lambda i: i.blk.id == hdr) if hdr is not None else None)
            bad = [i for i in f.all_insts() if i.id in after and i.op in ("load", "store") and i.d["ap"]["base"] == base]
            rep.check(not bad, "C03.safe", fl + ".next-before-invoke", "no access to a callback's rcu_head after it was invoked (successor fetched first)",
                      "rcu_head accessed after its callback ran (it may have been freed or re-queued)", [b.where() for b in bad[:2]])
        # per-iteration reset of the batch queue
        inits = [i for i in f.all_insts() if i.op == "store" and pat.from_fn(i, "_cds_wfcq_init") and ir.const_of(f, i.args[0]) == 0]
        if not inits:
            rep.bad("C03.once", fl + ".batch-reset", "batch queue is never re-initialised", [f.name])
        else:
            rep.must_pass("C03.once", fl + ".batch-reset", f, ics + [f.entry()], sp, lambda i: i in inits, include_start=False,
                          what="the local batch queue is re-initialised before every splice (already-invoked heads must not stay linked)")
    # who may invoke
    for fl in ALL:
        F = FL[fl]
        m = ctx.mod(F.lib, "perfn")
        who = sorted(set(g.name for g in m.defined() if func_icalls(g)))
        rep.check(who == ["call_rcu_thread"], "C03.who", fl + ".who-invokes", "only call_rcu_thread invokes rcu_head.func", "rcu_head.func invoked from %s" % who, who)


def rule_enq(ctx, rep):
    for fl in ALL:
        F = FL[fl]
        f = ctx.fn(F.lib, F.pfx + "_call_rcu")
        rep.touch(f)
        nx = [s for s in pat.stores(f, "cds_wfcq_node.next") if ir.const_of(f, s.args[0]) == 0 and s.d["ap"]["base"] == ["a", 0]]
        fn = [s for s in pat.stores(f, "rcu_head.func") if s.d["ap"]["base"] == ["a", 0]]
        xt = [e.inst for e in pat.accesses(f, None, ("xchg",)) if "call_rcu_data.cbs_tail" in pat.full_ap_fields(e.ap)]
        ql = [e.inst for e in pat.accesses(f, "call_rcu_data.qlen", ("rmw",))]
        fu = pat.loads(f, "call_rcu_data.futex")
        if not (nx and fn and xt):
            rep.bad("C03.enq", fl + ".anatomy", "call_rcu lacks node init / func store / tail exchange", [f.name])
            continue
        for a, b, what in ((nx, xt, "node.next = NULL before the node is published"), (fn, xt, "head->func stored before the node is published")):
            rep.must_pass("C03.enq", "%s.%s" % (fl, what.split(" ")[0]), f, [f.entry()], b, lambda i, a=a: i in a, include_start=True, what=what)
        rep.check(all(mm.is_full(x) for x in xt), "C03.enq", fl + ".xchg-full", "tail exchange is a FULL barrier", "tail exchange is not FULL", [x.where() for x in xt])
        if not fu:
            rep.bad("C03.enq", fl + ".wakes", "call_rcu never tests the helper's futex: a sleeping helper is not woken", [f.name])
        else:
            rep.must_pass("C03.enq", fl + ".enqueue≺wake", f, [f.entry()], fu, lambda i: i in xt, include_start=True, what="the wake-up test happens after the enqueue")
            rep.must_pass("C03.enq", fl + ".enqueue≺FULL≺futex", f, xt, fu, lambda i: mm.is_full(i) and i not in xt,
                          what="FULL barrier between the enqueue and the futex test (store→load pair with the helper's dec/scan)")
        if fu:
            # publish => wake on *every* path: after the enqueue the only test allowed to skip the futex test is the helper's RT flag
            # (an RT helper polls and never sleeps); who the caller is, which helper it is, or how long the queue is must not decide it
            rt = [(t.blk.id, s_) for t, s_, a in pat.branch_edges_on(f, lambda a: pat.atom_mentions(a, lambda e: pat.is_load_expr(e, "call_rcu_data.flags")))]
            hit, par = f.reach(xt, None, avoid=lambda i: i in fu, edge_ok=pat.block_edge_filter(rt), stop_at_exit=True)
            if hit is not None and getattr(hit, "op", None) == "ret":
                path = f.path_to(hit, par)
                br = [i for i in path if i.op in ("br", "switch") and len(i.blk.succ) >= 2]
                rep.bad("C03.enq", fl + ".publish⇒wake", "a path from the enqueue to the return never tests the helper's futex and is not the RT-flag exemption: a callback published "
                        "on that path is not followed by a wake-up, so a helper that went to sleep just before it never runs it", [i.where() for i in br[-1:]] or [hit.where()])
            else:
                rep.ok("C03.enq", fl + ".publish⇒wake", "every path from the enqueue to the return tests the helper's futex, the RT-flag exemption aside")
        if ql:
            rep.must_pass("C03.enq", fl + ".qlen-after-enqueue", f, [f.entry()], ql, lambda i: i in xt, include_start=True, what="qlen incremented after the enqueue")
        # read-side bracket (memb, mb, bp)
        if F.parity:
            own = c01.own_ctr(F)
            sts = [e.inst for e in pat.accesses(f, F.rfield, ("store",), pred=own)]
            lock_sts = [s for s in sts if pat.from_fn(s, "_%s_read_lock" % F.pfx)]
            unlock_sts = [s for s in sts if pat.from_fn(s, "_%s_read_unlock" % F.pfx)]
            getc = pat.calls(f, F.pfx + "_get_call_rcu_data")
            if not lock_sts or not unlock_sts:
                rep.bad("C03.rl", fl + ".bracket", "call_rcu does not run get_call_rcu_data/_call_rcu inside a read-side critical section "
                        "(a per-CPU helper could be freed between lookup and enqueue)", [f.name])
            else:
                rep.must_pass("C03.rl", fl + ".lock≺lookup", f, [f.entry()], getc + xt, lambda i: i in lock_sts, include_start=True, what="read_lock precedes helper lookup and enqueue")
                back, _ = f.reach(unlock_sts, getc + xt + fu)
                rep.check(back is None, "C03.rl", fl + ".unlock-last", "read_unlock only after the enqueue and wake-up", "helper data used after read_unlock", [u.where() for u in unlock_sts[:1]])
        # helper side
        h = ctx.fn(F.lib, "call_rcu_thread")
        rep.touch(h)
        dec = [e.inst for e in pat.accesses(h, "call_rcu_data.futex", ("rmw",)) if pat.is_decrement(h, e)]
        sp = crdp_queue_splices(h)
        emp = [i for i in h.all_insts() if i.op == "load" and "call_rcu_data.cbs_head" in pat.full_ap_fields(i.d["ap"])]
        if not dec:
            rep.bad("C03.enq", fl + ".helper-announce", "helper never announces sleep (futex dec)", [h.name])
        else:
            rep.must_pass("C03.enq", fl + ".helper.dec≺FULL≺queue", h, dec, sp + emp, lambda i: mm.is_full(i) and i not in dec,
                          what="helper: FULL between announcing sleep (futex dec) and reading the queue")
        m = ctx.mod(F.lib, "perfn")
        for gname in ("call_rcu_wait",):
            g = m.fn(gname)
            if g is None:
                raise Broken("%s: %s vanished" % (fl, gname))
            ws = waitloop.wait_sites(g)
            if not ws:
                rep.bad("C03.waitloop", "%s.%s" % (fl, gname), "%s no longer sleeps on its futex" % gname, [g.name])
            for k, w in enumerate(ws):
                waitloop.check(rep, "C03.waitloop", "%s.%s.site%d" % (fl, gname, k), g, w)
        for gname in ("call_rcu_wake_up", "call_rcu_completion_wake_up"):
            g = m.fn(gname)
            if g is None:
                raise Broken("%s: %s vanished" % (fl, gname))
            rep.touch(g)
            for w in waitloop.wake_sites(g):
                ap = waitloop.word_of(w)
                z = [s for s in g.all_insts() if s.op == "store" and waitloop.same_word(g, ap, mm.effect_of(s)) and ir.const_of(g, s.args[0]) == 0]
                lds = [i for i in g.all_insts() if i.op == "load" and waitloop.same_word(g, ap, mm.effect_of(i))]
                rep.must_pass("C03.enq", "%s.%s.reset≺wake" % (fl, gname), g, [g.entry()], [w], lambda i: i in z, include_start=True, what="futex word reset to 0 before FUTEX_WAKE")
                rep.must_pass("C03.enq", "%s.%s.FULL≺test" % (fl, gname), g, [g.entry()], lds, mm.is_full, include_start=True, what="FULL barrier before testing the futex word")


def rule_offline(ctx, rep):
    """qsbr: the helper sleeps only while offline or unregistered"""
    F = FL["qsbr"]
    f = ctx.fn("qsbr", "call_rcu_thread")
    rep.touch(f)
    # online state tracked as a pseudo-lock: register/online acquire, unregister/offline release
    summ = {"urcu_qsbr_register_thread": (("online",), ()), "urcu_qsbr_thread_online": (("online",), ()),
            "urcu_qsbr_unregister_thread": ((), ("online",)), "urcu_qsbr_thread_offline": ((), ("online",))}
    own = c01.own_ctr(F)
    may = lockset.may_compute(f, summaries=summ)
    # inlined _urcu_qsbr_thread_offline / online: stores to own ctr
    # (in the flat view the exported wrappers stay calls; static inline variants are recognised by their stores)
    sleeps = [i for i in f.all_insts() if (i.op == "call" and i.callee == "poll" and not pat.from_fn(i, "___cds_wfcq_busy_wait")) or mm.is_futex(i, mm.FUTEX_WAIT)]
    pat.require(sleeps, "qsbr: helper never sleeps")
    inl_off = [e.inst for e in pat.accesses(f, F.rfield, ("store",), pred=own) if ir.const_of(f, e.val) == 0]
    inl_on = [e.inst for e in pat.accesses(f, F.rfield, ("store",), pred=own) if ir.const_of(f, e.val) != 0]
    if inl_off or inl_on:
        # typestate by reachability: every sleep is not reachable from an online point without passing an offline point
        pass
    calls_on = [c for c in f.calls() if c.callee in ("urcu_qsbr_register_thread", "urcu_qsbr_thread_online")] + inl_on
    calls_off = [c for c in f.calls() if c.callee in ("urcu_qsbr_unregister_thread", "urcu_qsbr_thread_offline")] + inl_off
    pat.require(calls_on, "qsbr: helper never registers")
    for s in sleeps:
        hit, par = f.reach(calls_on, [s], avoid=lambda i: i in calls_off)
        if hit is None:
            rep.ok("C03.offline", "qsbr.sleep@%s" % s.short(), "sleep reached only while offline/unregistered", [s.where()])
        else:
            rep.bad("C03.offline", "qsbr.sleep@%s" % s.short(), "qsbr helper sleeps while online: every grace period waits for its sleep to end", c01_path(f, hit, par))
    # ... and runs callbacks only while online: a callback may take the read-side lock (the source says so where the helper registers), and
    # an offline qsbr thread's sections are invisible to grace periods
    ics = [i for i in f.all_insts() if i.op == "icall" and (lambda e: e[0] == "load" and e[1].endswith("rcu_head.func"))(ir.expr(f, i.d["fp"]))]
    pat.require(ics, "qsbr: helper invokes no callback")
    hit, par = f.reach(calls_off, ics, avoid=lambda i: i in calls_on)
    rep.check(hit is None, "C03.offline", "qsbr.callbacks-run-online", "callbacks are invoked only after the helper went back online",
              "the qsbr helper invokes callbacks while offline: a read-side section inside a callback is not waited for by any grace period", c01_path(f, hit, par) if hit is not None else [])
    for fl in ("memb", "mb", "qsbr"):
        F2 = FL[fl]
        g = ctx.fn(F2.lib, "call_rcu_thread")
        rep.touch(g)
        reg = pat.calls(g, F2.pfx + "_register_thread")
        ics2 = [i for i in g.all_insts() if i.op == "icall" and (lambda e: e[0] == "load" and e[1].endswith("rcu_head.func"))(ir.expr(g, i.d["fp"]))]
        pat.require(ics2, "%s: helper invokes no callback" % fl)
        if not reg:
            rep.bad("C03.offline", fl + ".helper-registered", "the helper thread never registers as an RCU reader: read-side sections taken by callbacks are not waited for", [g.name])
        else:
            rep.must_pass("C03.offline", fl + ".helper-registered", g, [g.entry()], ics2, lambda i: i in reg, include_start=True, what="the helper registers as reader before it invokes any callback")


def c01_path(f, hit, par):
    from ..core import path_sites
    return path_sites(f.path_to(hit, par), 12)


def rule_handover(ctx, rep):
    for fl in ALL:
        F = FL[fl]
        f = ctx.fn(F.lib, F.pfx + "_call_rcu_data_free")
        rep.touch(f)
        frees = [c for c in pat.calls(f, "free") if c.d["aps"][0] and c.d["aps"][0]["base"] == ["a", 0]]
        pat.require(frees, "%s: free(crdp) not found" % fl)
        # STOPPED observed before anything else touches the queue
        stopped_edges = []
        for t, s, a in pat.branch_edges_on(f, lambda a: a[0] == "ne" and a[2] == ("c", 0) and a[1][0] == "bin" and a[1][1] == "and" and a[1][3] == ("c", flags(ctx).STOPPED)
                                             and a[1][2][0] == "load" and a[1][2][1].endswith("call_rcu_data.flags")):
            stopped_edges.append((t, s))
        sp = crdp_queue_splices(f)
        emp = [i for i in f.all_insts() if i.op == "load" and "call_rcu_data.cbs_head" in pat.full_ap_fields(i.d["ap"]) and i.d["ap"]["base"] == ["a", 0]]
        lk = pat.mutex_calls(f, "pthread_mutex_lock", "call_rcu_mutex")
        pat.require(lk and emp, "%s: _call_rcu_data_free anatomy" % fl)
        if not stopped_edges:
            rep.bad("C03.handover", fl + ".wait-STOPPED", "_call_rcu_data_free never waits for the helper to acknowledge STOPPED before touching its queue "
                    "(the helper may still be running a batch: callbacks it re-queues are lost, two dequeuers race)", [f.name])
        else:
            rep.must_take_edge("C03.handover", fl + ".STOPPED≺queue", f, [f.entry()], emp + sp + frees, [(t.blk.id, s) for t, s in stopped_edges],
                               what="the helper's STOPPED acknowledgement is observed before its queue is inspected, spliced or freed")
        # the default helper is never torn down this way: it is the helper of last resort every other path hands callbacks to, so the STOP
        # request (and everything after it) is reached only once crdp != default_call_rcu_data is known
        stops = [e.inst for e in pat.accesses(f, "call_rcu_data.flags", ("rmw",)) if e.rop == "or" and e.ap["base"] == ["a", 0]]
        if stops:
            def _notdef(a):
                lv = []
                if a[0] in ("eq", "ne") and a[2] == ("c", 0) and a[1][0] in ("select", "bin", "icmp"):
                    pat.leaf_atoms(("icmp", "ne", a[1], ("c", 0)), a[0] == "ne", lv)
                else:
                    lv = [a]
                return any(x[0] == "ne" and len(x) == 3 and ((x[1] == ("arg", 0) and x[2][0] == "load" and x[2][1] == "@default_call_rcu_data") or (x[2] == ("arg", 0) and x[1][0] == "load" and x[1][1] == "@default_call_rcu_data")) for x in lv)
            nd = [(t.blk.id, s_) for t, s_, a in pat.branch_edges_on(f, _notdef)]
            if not nd:
                rep.bad("C03.handover", fl + ".never-stops-default", "_call_rcu_data_free never compares crdp with default_call_rcu_data: the default helper can be stopped and freed", [stops[0].where()])
            else:
                rep.must_take_edge("C03.handover", fl + ".never-stops-default", f, [f.entry()], stops, nd, include_start=True,
                                   what="the helper is asked to STOP only after it was found not to be the default helper (a stopped default helper keeps receiving callbacks nobody runs)")
        # the hand-over needs a default helper to exist: it is created (if need be) before the splice dereferences default_call_rcu_data -
        # a program that only ever used explicit helpers has none yet
        gdc = [c_ for c_ in f.calls() if c_.callee == F.pfx + "_get_default_call_rcu_data" or pat.from_fn_opt(c_, F.pfx + "_get_default_call_rcu_data")]
        sp0 = crdp_queue_splices(f)
        if sp0:
            dl = [l for l in pat.loads(f, glob="default_call_rcu_data") if f.reach([l], sp0)[0] is not None or any(f.dominates(l, x) for x in sp0)]
            gd_any = [i for i in f.all_insts() if (i.op == "call" and i.callee == F.pfx + "_get_default_call_rcu_data") or (i.scope_chain and F.pfx + "_get_default_call_rcu_data" in i.scope_chain)]
            if not gd_any:
                rep.bad("C03.handover", fl + ".default-exists≺splice", "_call_rcu_data_free hands leftover callbacks to default_call_rcu_data without making sure it exists (get_default_call_rcu_data()): "
                        "when only explicit helpers were ever created the splice goes through a NULL pointer", [sp0[0].where()])
            else:
                rep.must_pass("C03.handover", fl + ".default-exists≺splice", f, [f.entry()], sp0, lambda i: i in gd_any, include_start=True, what="get_default_call_rcu_data() runs before the hand-over splice")
        # leftover callbacks: spliced to the default helper when non-empty, before free
        if not sp:
            rep.bad("C03.handover", fl + ".splice", "leftover callbacks are not handed over to the default helper (lost when the helper is freed)", [frees[0].where()])
        else:
            # the hand-over is skipped only when the dying helper's queue was observed empty: a path from entry to free(crdp) that avoids the
            # splice's exchange takes at least one `observed empty` edge (head.next == NULL / tail == &head)
            def _empty_obs(a):
                if a[0] != "eq" or a[1][0] != "load" or not a[1][1].startswith("arg0."):
                    return False
                return ("call_rcu_data.cbs_head" in a[1][1] and a[2] == ("c", 0)) or ("call_rcu_data.cbs_tail" in a[1][1] and a[2][0] == "addr" and "call_rcu_data.cbs_head" in a[2][1])
            eo = [(t.blk.id, s_) for t, s_, a in pat.branch_edges_on(f, _empty_obs)]
            pat.require(eo, "%s: emptiness test of the dying helper's queue" % fl)
            hit, par = f.reach([f.entry()], frees, avoid=lambda i: i in sp, edge_ok=pat.block_edge_filter(eo), include_start=True)
            rep.check(hit is None, "C03.handover", fl + ".nonempty⇒splice", "a helper is freed without hand-over only when its queue was observed empty",
                      "the helper can be freed without its leftover callbacks being spliced to the default helper although its queue was not observed empty: those callbacks are never invoked",
                      c01_path(f, hit, par) if hit is not None else [])
            ls = lockset.compute(f)
            rep.check(all("@call_rcu_mutex" in ls.get(x.id, ()) for x in sp), "C03.handover", fl + ".splice-under-mutex", "hand-over splice runs under call_rcu_mutex",
                      "hand-over splice without call_rcu_mutex", [x.where() for x in sp])
            wk = [i for i in pat.loads(f, "call_rcu_data.futex") if i.id in f.reachable_set(sp)]
            # the helper that is woken is the one that received the callbacks (default_call_rcu_data), not the dying one
            def _is_default(i):
                b = i.d["ap"]["base"]
                bi = f.inst_of(b)
                return bi is not None and bi.op == "load" and pat.base_global(bi.d["ap"]) == "default_call_rcu_data"
            wkd = [i for i in wk if _is_default(i)]
            rep.check(bool(wkd), "C03.handover", fl + ".wake-default", "the default helper (which received the callbacks) is woken after the hand-over",
                      "after the hand-over splice the receiving (default) helper is not woken%s: if it sleeps, the handed-over callbacks - possibly an rcu_barrier() marker - are never run"
                      % (" (the dying helper is woken instead)" if wk else ""), [sp[0].where()])
            if wkd:
                # ... and unconditionally: whether the *receiving* helper sleeps is decided by its own futex word (tested inside the
                # wake-up helper), never by a property of the dying helper (its RT flag, its queue length, ...)
                def _default_rt_edge(a):
                    # (default_call_rcu_data->flags & RT) != 0: the receiving helper polls and needs no wake-up
                    if not (a[0] == "ne" and a[2] == ("c", 0) and a[1][0] == "bin" and a[1][1] == "and" and a[1][2][0] == "load" and a[1][2][1].endswith("call_rcu_data.flags")):
                        return False
                    ld = f.insts[a[1][2][3]]
                    bi = f.inst_of(ld.d["ap"]["base"])
                    return bi is not None and bi.op == "load" and pat.base_global(bi.d["ap"]) == "default_call_rcu_data"
                rt_edges = [(t.blk.id, s_) for t, s_, a in pat.branch_edges_on(f, _default_rt_edge)]
                rep.must_take_edge("C03.handover", fl + ".wake-default-every-path", f, sp, None, rt_edges, to_exit=True, include_start=False, avoid=lambda i: i in wkd,
                                   what="every path from the hand-over splice to the return tests the default helper's futex word, unless the *default* helper is a polling (RT) one")
            ql = [e.inst for e in pat.accesses(f, "call_rcu_data.qlen", ("rmw",)) if e.inst.id in f.reachable_set(sp)]
            rep.check(bool(ql), "C03.handover", fl + ".qlen", "default helper's qlen credited", "qlen of the default helper not updated", [sp[0].where()])
        # list removal: under the mutex, and in the same critical section as the hand-over (no unlock between splice and list_del)
        dels = [i for i in f.all_insts() if i.op == "store" and pat.from_fn(i, "cds_list_del")]
        pat.require(dels, "%s: cds_list_del not found" % fl)
        ls = lockset.compute(f)
        rep.check(all("@call_rcu_mutex" in ls.get(d.id, ()) for d in dels), "C03.list", fl + ".free.list_del-under-mutex", "list removal under call_rcu_mutex",
                  "list removal without call_rcu_mutex", [d.where() for d in dels[:1]])
        ul = pat.mutex_calls(f, "pthread_mutex_unlock", "call_rcu_mutex")
        if sp:
            hit, par = f.reach(sp, dels, avoid=lambda i: i not in ul and False)
            # splice ≺ list_del with no unlock in between; and list_del never precedes the splice
            hit2, _ = f.reach(sp, dels, avoid=lambda i: i in ul)
            rep.check(hit2 is not None, "C04.cs", fl + ".free.splice+list_del-one-section", "hand-over and list removal share one call_rcu_mutex section",
                      "call_rcu_mutex is dropped between the hand-over splice and the list removal", [sp[0].where()])
            back, _ = f.reach(dels, sp + emp)
            rep.check(back is None, "C04.cs", fl + ".free.list_del-last", "helper leaves call_rcu_data_list only after its leftover callbacks were handed over "
                      "(rcu_barrier walks the list: a helper still holding callbacks must be on it)",
                      "helper is removed from call_rcu_data_list before its leftover callbacks are handed over: a concurrent rcu_barrier() misses them", [d.where() for d in dels[:1]])
        rep.must_pass("C03.handover", fl + ".free-last", f, [f.entry()], frees, lambda i: i in dels, include_start=True, what="crdp is freed only after it left the list")
        # default helper is never freed
        g = any(a[0] == "ne" and ((a[1] == ("arg", 0) and a[2][0] == "load" and a[2][1] == "@default_call_rcu_data") or (a[2] == ("arg", 0) and a[1][0] == "load" and a[1][1] == "@default_call_rcu_data"))
                for a in pat.dom_leaf_atoms(f, frees[0]))
        rep.check(g, "C03.handover", fl + ".not-default", "the default helper is never freed", "free(crdp) not guarded by crdp != default_call_rcu_data", [frees[0].where()])


def rule_handover_c03(ctx, rep):
    n0 = len(rep.results)
    rule_handover(ctx, rep)
    keep = [r for r in rep.results[n0:] if not r["rule"].startswith("C04.")]
    del rep.results[n0:]
    rep.results += keep


def rule_stop(ctx, rep):
    for fl in ALL:
        F = FL[fl]
        f = ctx.fn(F.lib, "call_rcu_thread")
        rep.touch(f)
        sets = [e.inst for e in pat.accesses(f, "call_rcu_data.flags", ("rmw",)) if e.rop == "or" and ir.const_of(f, e.val) == flags(ctx).STOPPED]
        if not sets:
            rep.bad("C03.stop", fl + ".STOPPED", "helper never acknowledges STOPPED", [f.name])
            continue
        ics = func_icalls(f)
        sp = crdp_queue_splices(f)
        back, _ = f.reach(sets, ics + sp)
        rep.check(back is None, "C03.stop", fl + ".quiet-after-STOPPED", "no splice or callback after STOPPED is set", "helper touches its queue after acknowledging STOPPED", [s.where() for s in sets])
        unreg = pat.calls(f, F.pfx + "_unregister_thread")
        if F.name != "bp":
            rep.check(bool(unreg), "C03.stop", fl + ".unregister", "helper unregisters before exiting", "helper exits without unregistering", [f.name])
        z = [s for s in pat.stores(f, "call_rcu_data.futex") if ir.const_of(f, s.args[0]) == 0]
        # STOP is tested after the batch was processed: from a splice, the STOP test edge is reached only ... (exit path goes through STOP test)
        stop_edges = pat.branch_edges_on(f, lambda a: a[0] == "ne" and a[2] == ("c", 0) and a[1][0] == "bin" and a[1][1] == "and" and a[1][3] == ("c", flags(ctx).STOP))
        rep.check(bool(stop_edges), "C03.stop", fl + ".tests-STOP", "helper tests STOP", "helper never tests STOP", [f.name])
        for t, s, a in stop_edges:
            rep.must_pass("C03.stop", fl + ".splice≺STOP-test", f, [f.entry()], [t], lambda i: pat.from_fn(i, "___cds_wfcq_splice"), include_start=True,
                          what="STOP is tested only after the queue was examined/spliced (and its batch run)")


def rule_stop_request(ctx, rep):
    """requester side of the stop handshake (call_rcu_data_free): STOP is set before the helper is woken - a helper woken first
    finds nothing to do, goes back to sleep and never sees STOP, while the requester polls for STOPPED for ever"""
    for fl in ALL:
        F = FL[fl]
        f = ctx.fn(F.lib, F.pfx + "_call_rcu_data_free")
        rep.touch(f)
        st = [e.inst for e in pat.accesses(f, "call_rcu_data.flags", ("rmw",)) if e.rop == "or" and ir.const_of(f, e.val) == flags(ctx).STOP]
        fu = [l for l in pat.loads(f, "call_rcu_data.futex") if l.d["ap"]["base"] == ["a", 0]]
        if not st or not fu:
            raise Broken("%s: call_rcu_data_free: STOP request / wake-up of the helper not found" % fl)
        rep.must_pass("C03.stop", fl + ".request.STOP≺wake", f, [f.entry()], fu, lambda i: i in st, include_start=True, what="STOP is requested before the helper's futex is tested (wake-up)")
        known = flags(ctx).all      # the remaining bit tested on the helper's flags is URCU_CALL_RCU_RT (public creation flag)
        rt = set((t.blk.id, s_) for t, s_, a in pat.branch_edges_on(f, lambda a: a[0] == "ne" and a[2] == ("c", 0) and a[1][0] == "bin" and a[1][1] == "and" and a[1][3][0] == "c" and a[1][3][1] not in known
                                                                    and a[1][2][0] == "load" and a[1][2][1] == "arg0.call_rcu_data.flags"))
        rep.must_pass("C03.stop", fl + ".request.STOP⇒wake", f, st, None, lambda i: i in fu, to_exit=True, edge_ok=pat.block_edge_filter(rt),
                      what="after requesting STOP the helper is woken on every path (polling RT helpers excepted)")


def rule_freeall(ctx, rep):
    for fl in ALL:
        F = FL[fl]
        f = ctx.fn(F.lib, F.pfx + "_free_all_cpu_call_rcu_data")
        rep.touch(f)
        setn = [c for c in pat.calls(f, F.pfx + "_set_cpu_call_rcu_data") if ir.const_of(f, c.args[1]) == 0]
        sync = pat.calls(f, F.pfx + "_synchronize_rcu")
        fr = pat.calls(f, F.pfx + "_call_rcu_data_free")
        pat.require(setn and fr, "%s: free_all anatomy" % fl)
        if not sync:
            rep.bad("C03.freeall", fl + ".GP", "per-CPU helpers are freed without a grace period after being unpublished: a call_rcu() caller that looked one up may enqueue on freed memory", [fr[0].where()])
            continue
        rep.must_pass("C03.freeall", fl + ".unpublish≺GP≺free", f, setn, fr, lambda i: i in sync, what="grace period between unpublishing per-CPU helpers and freeing them")


def rule_list(ctx, rep):
    for fl in ALL:
        F = FL[fl]
        m = ctx.mod(F.lib, "flat")
        n = 0
        for f in m.defined():
            if f.linkage == "internal" and not m.callers(f.name) and f.name not in ("call_rcu_thread",):
                continue
            muts = [i for i in f.all_insts() if i.op == "store" and ("@call_rcu_data_list" in ir.ap_str(f, i.d["ap"]) or pat.last_field(i.d["ap"]) in ("cds_list_head.next", "cds_list_head.prev") and "call_rcu_data.list" in ir.ap_str(f, i.d["ap"], 4))]
            muts = [i for i in muts if i.origin_fn in ("cds_list_add", "cds_list_del", "__cds_list_del", "cds_list_splice", "cds_list_move")]
            if not muts:
                continue
            # child after fork runs single-threaded with the mutex handed over: entry lockset per hand-off table
            entry = frozenset(["@call_rcu_mutex"]) if f.name.endswith("_call_rcu_after_fork_child") or f.name.endswith("_call_rcu_after_fork_parent") else frozenset()
            ls = lockset.compute(f, entry=entry)
            rep.touch(f)
            bad = [i for i in muts if "@call_rcu_mutex" not in ls.get(i.id, ())]
            n += 1
            rep.check(not bad, "C03.list", "%s.%s" % (fl, f.name), "%d mutation(s) of call_rcu_data_list under call_rcu_mutex" % len(muts),
                      "call_rcu_data_list mutated without call_rcu_mutex", [b.where() for b in bad[:2]])
        pat.require(n >= 2, "%s: list mutation sites vanished" % fl)


def rule_flags(ctx, rep):
    fl = flags(ctx)
    rep.ok("C03.flags", "bits", "STOP=%d STOPPED=%d PAUSE=%d PAUSED=%d derived from their writers (free / helper exit / before_fork / helper pause)" % fl.all, [])


def rule_cb_nolock(ctx, rep):
    """Callbacks are invoked with no library lock held (may-lockset of the helper thread, caller contexts included): a
    callback may itself call call_rcu(), create or free helpers, or wait for grace periods ('callbacks re-enqueue further
    callbacks'); holding call_rcu_mutex or a queue lock around the invocation deadlocks those."""
    from .. import lockorder
    for fl in ALL:
        F = FL[fl]
        g = lockorder.LibGraph({fl: ctx.mod(F.lib, "flat")})
        cx = g.context()
        n = 0
        for f in g.fns.values():
            for i in f.all_insts():
                if i.op != "icall":
                    continue
                fld, _t = g.icall_targets(i)
                if fld != "rcu_head.func":
                    continue
                n += 1
                rep.touch(f)
                held = set(g.held(f).get(i.id, ())) | cx[f.name]
                rep.check(not held, "C03.cb-nolock", "%s.%s@%d" % (fl, f.name, i.line), "callback invoked with no library lock held",
                          "callback invoked while %s may be held: a callback that calls back into call_rcu / helper management deadlocks" % sorted(held), [i.where()])
        pat.require(n >= 1, "%s: callback invocation site not found" % fl)


# who may write the helper-selection state (by the function in whose source text the store is written); one reason each
SELECTION_WRITERS = {
    "thread_call_rcu_data": {"call_rcu_thread": "a helper marks itself as its own helper", "%s_set_thread_call_rcu_data": "the documented setter",
                             "%s_call_rcu_after_fork_child": "child drops inherited pointers"},
    "default_call_rcu_data": {"call_rcu_data_init": "first creation under call_rcu_mutex (via get_default_call_rcu_data)", "urcu_call_rcu_exit": "library destructor",
                              "%s_call_rcu_after_fork_child": "child re-creates the default helper", "%s_get_default_call_rcu_data": "first creation"},
    "per_cpu_call_rcu_data": {"alloc_cpu_call_rcu_data": "array allocation under call_rcu_mutex", "%s_call_rcu_after_fork_child": "child drops the array",
                              "%s_set_cpu_call_rcu_data": "documented setter", "%s_free_all_cpu_call_rcu_data": "teardown"},
}

REQUIRED_WRITERS = {
    "thread_call_rcu_data": ["call_rcu_thread", "%s_set_thread_call_rcu_data", "%s_call_rcu_after_fork_child"],
    "default_call_rcu_data": ["call_rcu_data_init", "urcu_call_rcu_exit", "%s_call_rcu_after_fork_child"],
    "per_cpu_call_rcu_data": ["alloc_cpu_call_rcu_data", "%s_call_rcu_after_fork_child"],
}


def rule_who(ctx, rep):
    """T8: the state that decides which helper a call_rcu() caller enqueues to (per-thread pointer, per-CPU array pointer,
    default helper) is written only by its documented setters, helper creation and the fork/exit handlers.  In particular the
    lookup done on every call_rcu() (get_call_rcu_data) is read-only: a helper pointer cached anywhere the teardown functions
    (free_all_cpu_call_rcu_data, call_rcu_data_free) do not clear outlives the helper it points to."""
    for fl in ALL:
        F = FL[fl]
        m = ctx.mod(F.lib, "flat")
        for g, table in SELECTION_WRITERS.items():
            allowed = set(k % F.pfx if "%s" in k else k for k in table)
            found = {}
            for f in m.defined():
                for i in pat.writes(f, glob=g):        # plain stores and atomic RMWs (IR or inline asm)
                    org = i.origin_fn if i.origin_fn not in ("__uatomic_cmpxchg", "__uatomic_exchange") else next((c for c in i.scope_chain if not c.startswith("__uatomic")), i.origin_fn)
                    if org not in allowed:
                        # a helper extracted from a designated writer writes on its behalf: attribute the write to the designated function it is inlined into
                        via = [c for c in list(i.scope_chain) + [f.name] if c in allowed]
                        if via:
                            org = via[0]
                    found.setdefault(org, []).append(i)
                    rep.touch(f)
            pat.require(found, "%s: no writer of %s found" % (fl, g))
            extra = sorted(set(found) - allowed)
            required = set(k % F.pfx if "%s" in k else k for k in REQUIRED_WRITERS[g])
            present = set(x for f_ in m.defined() for i in f_.all_insts() for x in i.scope_chain)
            gone = sorted(x for x in required - set(found) if x not in present)     # vanished altogether (renamed), not merely "no longer writes"
            if extra and gone:
                # a designated writer vanished and an unknown one appeared: most likely a rename / moved code, not a new writer
                raise Broken("%s: writers of %s changed (%s gone, %s new): table needs re-confirmation" % (fl, g, gone, extra))
            rep.check(not extra, "C03.who", "%s.%s" % (fl, g), "%s written only by %s" % (g, sorted(found)),
                      "%s is also written in %s: helper-selection state modified outside its setters (a pointer cached here is not cleared when the helper is freed)" % (g, extra),
                      [found[x][0].where() for x in extra][:3])


def rule_percpu(ctx, rep):
    """set_cpu_call_rcu_data(cpu, crdp): a per-CPU slot is written only inside the array (0 <= cpu < cpus_array_len, array allocated) and never
    overwritten while occupied - installing over a live helper (both old and new non-NULL) is refused with -EEXIST; the old helper would stay
    alive but unreachable for teardown (free_all_cpu_call_rcu_data), and callers racing with the switch split their callbacks over two helpers
    one of which nobody will ever stop, flush or hand over."""
    for fl in ALL:
        F = FL[fl]
        f = ctx.fn(F.lib, F.pfx + "_set_cpu_call_rcu_data")
        rep.touch(f)
        sts = [s_ for s_ in f.all_insts() if s_.op == "store" and s_.d.get("ap") and ir.ap_str(f, s_.d["ap"]).startswith("*(@per_cpu_call_rcu_data)") and ir.expr(f, s_.args[0], 3) == ("arg", 1)]
        if not sts:
            raise Broken("%s: set_cpu_call_rcu_data: slot store not found" % fl)
        is_slot = lambda x: x[0] == "load" and x[1].startswith("*(@per_cpu_call_rcu_data)")
        good, wrong = [], []
        for b in f.blocks:
            for s_ in b.succ:
                for a in ir.edge_atoms(f, b.id, s_):
                    if a[0] in ("nand", "and", "or", "nor") and len(a) == 3 and all(isinstance(x, tuple) and len(x) == 3 for x in a[1:]):
                        parts = a[1:]
                        if any(is_slot(x[1]) for x in parts):
                            want = a[0] == "nand" and any(x[0] == "ne" and is_slot(x[1]) and x[2] == ("c", 0) for x in parts) and any(x[0] == "ne" and x[1] == ("arg", 1) and x[2] == ("c", 0) for x in parts)
                            (good if want else wrong).append((b.id, s_, a))
                    elif len(a) == 3 and a[0] in ("eq", "ne") and a[2] == ("c", 0) and (is_slot(a[1]) or a[1] == ("arg", 1)):
                        # nested ifs: slot == NULL, or crdp == NULL, each allows the store
                        if a[0] == "eq":
                            good.append((b.id, s_, a))
        okE = [(x, y) for x, y, _ in good]
        hit, par = f.reach([f.entry()], sts, edge_ok=pat.block_edge_filter(okE), include_start=True)
        if hit is None:
            rep.ok("C03.percpu", fl + ".no-overwrite", "a per-CPU slot is written only when it is empty or is being cleared")
        else:
            pth = f.path_to(hit, par)
            blks = [i.blk.id for i in pth]
            bad = [(x, y, a) for x, y, a in wrong if any(p_ == x and q_ == y for p_, q_ in zip(blks, blks[1:]))]
            if bad or not (good or wrong):
                rep.bad("C03.percpu", fl + ".no-overwrite", "set_cpu_call_rcu_data stores the new helper %s: an occupied slot is overwritten (the old helper is never torn down, callbacks split over two helpers) "
                        "or the -EEXIST refusal hits the wrong case" % ("on the edge %s" % ir.atom_str(bad[0][2]) if bad else "without looking at the slot"), [sts[0].where()])
            else:
                rep.unk("C03.percpu", fl + ".no-overwrite", "the guard of the slot store is not recognised")
        lv = pat.dom_leaf_atoms(f, sts[0])
        lo = any(a[0] == "sge" and a[1] == ("arg", 0) and a[2] == ("c", 0) for a in lv) or any(a[0] == "sgt" and a[1] == ("arg", 0) and a[2] == ("c", -1) for a in lv)
        hi = any(a[0] == "sgt" and a[2] == ("arg", 0) and a[1][0] == "load" and a[1][1] == "@cpus_array_len" for a in lv) or any(a[0] == "slt" and a[1] == ("arg", 0) and a[2][0] == "load" and a[2][1] == "@cpus_array_len" for a in lv)
        nn = any(a[0] == "ne" and a[2] == ("c", 0) and a[1][0] == "load" and a[1][1] == "@per_cpu_call_rcu_data" for a in lv)
        rep.check(lo and hi and nn, "C03.percpu", fl + ".slot-in-array", "the slot store is reached only with 0 <= cpu < cpus_array_len and an allocated array",
                  "the slot store is not guarded by %s" % ", ".join(n for n, v in (("cpu >= 0", lo), ("cpu < cpus_array_len", hi), ("array != NULL", nn)) if not v), [sts[0].where()])


def rule_wake(ctx, rep):
    """call_rcu_wake_up: reset the helper's futex word before FUTEX_WAKE, only when it is -1 (all flavors)"""
    for fl in ALL:
        F = FL[fl]
        waitloop.check_wakers(rep, "C03.wake", fl, ctx.mod(F.lib, "perfn"), lambda name, ap: name == "call_rcu_data.futex")


def rule_default(ctx, rep):
    """get_default_call_rcu_data() (the helper every call_rcu() without a private helper enqueues to) never hands out a stale
    NULL: the lock-free fast path returns the pointer it read only if that was non-NULL; otherwise the value returned is read
    again under call_rcu_mutex, after the creation of the helper or after having found that another thread created it."""
    for fl in ALL:
        F = FL[fl]
        f = ctx.fn(F.lib, F.pfx + "_get_default_call_rcu_data")
        rep.touch(f)
        lk = pat.mutex_calls(f, "pthread_mutex_lock", "call_rcu_mutex")
        pat.require(lk, "%s: get_default_call_rcu_data takes call_rcu_mutex" % fl)
        bad = None
        n = 0

        def leaves(v, via, seen):
            """(load, block the value arrives from) for every value that can be returned"""
            v = ir.strip_casts(f, v)
            if v[0] == "i" and f.insts[v[1]].op == "phi" and v[1] not in seen:
                out = []
                for val, blk in f.insts[v[1]].d["inc"]:
                    out += leaves(val, blk, seen | {v[1]})
                return out
            return [(v, via)]
        for r in f.rets():
            for v, via in leaves(r.args[0], r.blk.id, frozenset()):
                n += 1
                L = f.insts[v[1]] if v[0] == "i" else None
                if L is None or L.op != "load" or pat.base_global(L.d["ap"]) != "default_call_rcu_data":
                    bad = ("can return %s" % ir.expr_str(ir.expr(f, v, 3)), r)
                    break
                if any(f.dominates(c, L) for c in lk):
                    continue            # read under the lock
                tail = f.blocks[via].insts[-1]
                after_lock = f.reach(lk, [tail])[0] is not None
                nonnull = any(a[0] == "ne" and a[2] == ("c", 0) and a[1][0] == "load" and a[1][3] == L.id for a in pat.dom_leaf_atoms(f, tail) + ir.edge_atoms(f, via, r.blk.id))
                if after_lock:
                    bad = ("on the slow path it can return the value of default_call_rcu_data it read *before* taking call_rcu_mutex (NULL when another thread created the helper meanwhile)", L)
                    break
                if not nonnull:
                    bad = ("the fast path returns without having seen a non-NULL pointer", L)
                    break
        pat.require(n >= 2, "%s: return values of get_default_call_rcu_data" % fl)
        rep.check(bad is None, "C03.default", fl + ".never-stale-null", "returns the default helper read under the lock, or a non-NULL pointer from the fast path",
                  "get_default_call_rcu_data: %s - call_rcu() then enqueues through a NULL helper" % (bad[0] if bad else ""), [bad[1].where()] if bad else [])


def rule_publast(ctx, rep):
    """Publish-last for the helper-selection structures call_rcu() reads without call_rcu_mutex: a freshly allocated object
    (default helper, per-CPU pointer array) is completely initialised before the release store that publishes it, and no plain
    store / memset touches it afterwards.  call_rcu() on another CPU dereferences the published pointer at once: an array
    published before it is cleared makes it enqueue onto whatever the recycled heap bytes point to."""
    n = 0
    for fl in ALL:
        F = FL[fl]
        m = ctx.mod(F.lib, "flat")
        for f in m.defined():
            for s_ in f.all_insts():
                if not (s_.op == "store" and s_.d["order"] in ("release", "seq_cst")):
                    continue
                v = ir.strip_casts(f, s_.args[0])
                vi = f.inst_of(v)
                if vi is None or not (vi.op == "call" and vi.callee in ("malloc", "calloc", "realloc")):
                    continue
                n += 1
                rep.touch(f)
                tgt = ir.ap_str(f, s_.d["ap"])
                after = f.reachable_set([s_])
                late = []
                for i in f.all_insts():
                    if i.id not in after:
                        continue
                    if i.op == "store" and i.d["order"] == "na" and i.d["ap"]["base"] == ["i", vi.id]:
                        late.append(i)
                    if i.op == "call" and i.callee and (i.callee.startswith("llvm.mem") or i.callee in ("memset", "memcpy")):
                        d = ir.strip_casts(f, i.args[0])
                        di = f.inst_of(d)
                        if d == ["i", vi.id] or (di is not None and di.op == "load" and ir.ap_str(f, di.d["ap"]) == tgt):
                            late.append(i)
                rep.check(not late, "C03.publast", "%s.%s.%s.nothing-after-publish" % (fl, f.name, tgt.lstrip("@")), "no initialising write follows the publication of %s" % tgt,
                          "%s is published (release store) before it is fully initialised: %d plain write(s)/memset follow; a concurrent call_rcu() reads it uninitialised" % (tgt, len(late)),
                          [s_.where()] + [x.where() for x in late[:2]])
                if vi.callee == "malloc":
                    # malloc'ed memory has no defined content: something initialises it before the publication
                    init = [i for i in f.all_insts() if (i.op == "store" and i.d["ap"]["base"] == ["i", vi.id]) or
                            (i.op == "call" and i.callee and (i.callee.startswith("llvm.mem") or i.callee == "memset") and ir.strip_casts(f, i.args[0]) == ["i", vi.id])]
                    if not init:
                        rep.bad("C03.publast", "%s.%s.%s.initialised" % (fl, f.name, tgt.lstrip("@")), "%s: malloc'ed object published without any initialisation" % tgt, [s_.where()])
                    else:
                        rep.must_pass("C03.publast", "%s.%s.%s.init≺publish" % (fl, f.name, tgt.lstrip("@")), f, [vi], [s_], lambda i: i in init,
                                      what="the malloc'ed object is written before it is published")
    pat.require(n >= 8, "only %d publications of freshly allocated objects found" % n)


def rule_select(ctx, rep):
    """Helper selection on every call_rcu(): get_call_rcu_data() prefers the caller's private helper, then the per-CPU helper of
    the CPU it runs on, then the default helper; get_cpu_call_rcu_data(cpu) returns a slot of the per-CPU array only for
    0 <= cpu < cpus_array_len and a non-NULL (consume-loaded) array.  An index test that is off by one reads past the array."""
    for fl in ALL:
        F = FL[fl]
        m = ctx.mod(F.lib, "perfn")
        g = m.fn(F.pfx + "_get_cpu_call_rcu_data")
        pat.require(g is not None, "%s: get_cpu_call_rcu_data vanished" % fl)
        rep.touch(g)
        n = 0
        for p_, atoms, v in paths.ret_cases(g, limit=1024):
            if v is None or v == ("c", 0):
                continue
            n += 1
            ok_arr = v[0] == "load" and any(a[0] == "ne" and a[2] == ("c", 0) and a[1][0] == "load" and a[1][1] == "@per_cpu_call_rcu_data" for a in atoms)
            lo = any(a[0] == "sge" and a[1] == ("arg", 0) and a[2] == ("c", 0) or (a[0] == "sgt" and a[1] == ("arg", 0) and a[2] == ("c", -1)) for a in atoms)
            hi = any((a[0] == "sgt" and a[1][0] == "load" and a[1][1] == "@cpus_array_len" and a[2] == ("arg", 0)) or (a[0] == "slt" and a[1] == ("arg", 0) and a[2][0] == "load" and a[2][1] == "@cpus_array_len") for a in atoms)
            rep.check(ok_arr and lo and hi, "C03.select", fl + ".get_cpu.bounds", "a per-CPU slot is read only for a non-NULL array and 0 <= cpu < cpus_array_len",
                      "get_cpu_call_rcu_data returns a slot on %s: %s" % ([ir.atom_str(a) for a in atoms][-4:], "array not tested" if not ok_arr else ("lower bound missing" if not lo else "upper bound is not cpu < cpus_array_len")),
                      [g.rets()[0].where()])
            L = g.insts[v[3]] if v[0] == "load" else None
            rep.check(L is not None and L.d["order"] in ("acquire", "seq_cst", "consume"), "C03.select", fl + ".get_cpu.slot-consume", "the slot is read with rcu_dereference", "the per-CPU slot is read with a plain load", [g.rets()[0].where()])
        pat.require(n >= 1, "%s: get_cpu_call_rcu_data never returns a slot" % fl)
        h = m.fn(F.pfx + "_get_call_rcu_data")
        pat.require(h is not None, "%s: get_call_rcu_data vanished" % fl)
        rep.touch(h)
        cpu = pat.calls(h, F.pfx + "_get_cpu_call_rcu_data")
        dfl = pat.calls(h, F.pfx + "_get_default_call_rcu_data")
        pat.require(cpu and dfl, "%s: get_call_rcu_data anatomy" % fl)
        tls_null = any(a[0] == "eq" and a[2] == ("c", 0) and a[1][0] == "load" and a[1][1] == "@thread_call_rcu_data" for a in pat.dom_leaf_atoms(h, cpu[0]))
        rep.check(tls_null, "C03.select", fl + ".thread-first", "the per-CPU helper is consulted only when the caller has no private helper", "per-CPU helper consulted although the thread has its own helper", [cpu[0].where()])
        lv = pat.dom_leaf_atoms(h, dfl[0])
        rep.check(any(a[0] == "eq" and a[2] == ("c", 0) and a[1][0] == "load" and a[1][1] == "@thread_call_rcu_data" for a in lv), "C03.select", fl + ".default-last",
                  "the default helper is used only without a private helper", "default helper used although the thread has its own", [dfl[0].where()])
        for p_, atoms, v in paths.ret_cases(h, limit=256):
            if v is not None and v[0] == "call" and v[1] == F.pfx + "_get_cpu_call_rcu_data":
                rep.check(any(a[0] == "ne" and a[2] == ("c", 0) and a[1] == v for a in atoms), "C03.select", fl + ".cpu-helper-nonnull", "a per-CPU helper is returned only if non-NULL",
                          "get_call_rcu_data can return a NULL per-CPU helper", [h.rets()[0].where()])


def rule_init_before_thread(ctx, rep):
    """a helper's call_rcu_data is completely initialised before the thread that runs on it is created: the new thread reads
    flags (RT or not), the futex word and the queue at once, and there is no synchronisation between pthread_create() returning
    and the creator's later stores (a helper that read flags == 0 sleeps on a futex nobody ever wakes for an RT helper)."""
    for fl in ALL:
        F = FL[fl]
        for name in (F.pfx + "_create_call_rcu_data", F.pfx + "_get_default_call_rcu_data"):
            f = ctx.fn(F.lib, name)
            rep.touch(f)
            pc = pat.calls(f, "pthread_create")
            pat.require(pc, "%s: pthread_create" % name)
            late = []
            for i in f.all_insts():
                e = mm.effect_of(i) if i.op in ("store", "asm", "rmw", "cmpxchg") else None
                if e is None or e.ap is None or not e.writes():
                    continue
                aps = ir.ap_str(f, e.ap)
                if not aps.startswith("malloc()") or ".call_rcu_data." not in aps:
                    continue
                if f.reach(pc, [i])[0] is not None:
                    late.append((i, aps))
            rep.check(not late, "C03.init", "%s.%s.init≺thread" % (fl, name), "every field of the new call_rcu_data is written before pthread_create",
                      "%s is written after pthread_create: the helper thread may already have read the old (zero) value" % sorted(set(a.split(".call_rcu_data.")[-1] for _i, a in late)), [i.where() for i, _a in late[:2]])


def rule_helper_loop(ctx, rep):
    """The helper thread as a consumer loop (sibling of the work queue worker, same template): a grabbed batch is always
    iterated, the private batch queue is re-initialised before each splice, every callback is invoked, the thread returns only
    after observing STOP - and can reach that return."""
    from . import wq
    FLG = flags(ctx)
    for fl in ALL:
        F = FL[fl]
        h = ctx.fn(F.lib, "call_rcu_thread")
        wq.worker_rules(rep, "C03.helper", h, None, "call_rcu_data.flags", "call_rcu_data.futex", "call_rcu_data.cbs_head", "call_rcu_data.cbs_tail", "rcu_head.func", FLG.STOP, tag=fl + ".helper")
        ci = ctx.mod(F.lib, "flat").fn(F.pfx + "_create_call_rcu_data") or ctx.fn(F.lib, F.pfx + "_create_call_rcu_data")
        if ci is not None and pat.calls_opt(ci, "pthread_create"):
            wq.creator_inits(rep, "C03.helper", ci, h, "call_rcu_data", "call_rcu_data.cbs_head", "call_rcu_data.cbs_tail", tag=fl + ".create")
        else:
            rep.unk("C03.helper", fl + ".create", "the function that creates the helper thread was not found in the flattened create_call_rcu_data")
        # RT polarity: a helper created with the RT flag polls and is never woken (call_rcu skips the wake-up for it), so only a non-RT helper
        # may arm the futex and sleep on it
        rtbits = set()
        for b in h.blocks:
            for s_ in b.succ:
                for a in ir.edge_atoms(h, b.id, s_):
                    if len(a) == 3 and a[0] in ("eq", "ne") and a[2] == ("c", 0) and a[1][0] == "bin" and a[1][1] == "and" and a[1][3][0] == "c" and pat.is_load_expr(a[1][2], "call_rcu_data.flags") and a[1][3][1] not in FLG.all:
                        rtbits.add(a[1][3][1])
        if len(rtbits) == 1:
            RT = rtbits.pop()
            sites = [w for w in waitloop.wait_sites(h)] + [e.inst for e in pat.accesses(h, "call_rcu_data.futex", ("rmw",))]
            for i in sites:
                lv = [a for a in pat.dom_leaf_atoms(h, i) if len(a) == 3 and a[2] == ("c", 0) and a[1][0] == "bin" and a[1][1] == "and" and a[1][3] == ("c", RT) and pat.is_load_expr(a[1][2], "call_rcu_data.flags")]
                if not lv:
                    rep.unk("C03.helper", "%s.helper.futex-only-if-not-RT@%d" % (fl, i.line), "the helper's use of its futex is not guarded by the RT flag in a form this rule recognises")
                else:
                    rep.check(all(a[0] == "eq" for a in lv), "C03.helper", "%s.helper.futex-only-if-not-RT@%d" % (fl, i.line), "the helper arms / sleeps on its futex only when it is not an RT helper",
                              "the helper arms / sleeps on its futex exactly when it *is* an RT helper: call_rcu never wakes an RT helper, so it sleeps for ever with callbacks queued (and ordinary helpers busy-poll)", [i.where()])
        else:
            rep.unk("C03.helper", fl + ".helper.futex-only-if-not-RT", "RT flag bit not identified (%s)" % sorted(rtbits))


META["explanation"] += " " + 'Also (rounds 10-11): publish => wake on every path of _call_rcu (RT flag excepted), callbacks run on a registered (qsbr: online) helper, a helper is freed without hand-over only along an observed-empty edge.'

META["explanation"] += " " + "Also (round 12 and fifth reading): the default helper is never stopped by call_rcu_data_free and exists before the hand-over splice; per-CPU slots are written in bounds and never over a live helper; the helper's futex use is confined to non-RT helpers; call_rcu_data_init initialises everything the helper reads (queue tail -> head, lock) before pthread_create."

def rule_gpwait(ctx, rep):
    """RCU-vs-mutex order: call_rcu() runs its body as a reader (read-side critical section; online for qsbr) and may block on the library
    locks it takes there (call_rcu_mutex on the slow path that creates the default helper).  No library path waits for a grace period while
    it (or a caller) holds one of those locks: the grace period waits for the call_rcu() caller, which waits for the lock - call_rcu() never
    returns and its callback never runs."""
    from .. import lockorder
    for fl in ALL:
        F = FL[fl]
        g = lockorder.LibGraph({fl: ctx.mod(F.lib, "flat"), "cds": ctx.mod("cds", "flat")})
        acq = g.acq_trans()
        cr = F.pfx + "_call_rcu"
        pat.require(cr in g.fns and (F.pfx + "_synchronize_rcu") in g.fns, "%s: call_rcu / synchronize_rcu roots" % fl)
        L = set(acq.get(cr, ()))
        pat.require(L, "%s: call_rcu takes no library lock any more (anchor changed: the default helper was created under call_rcu_mutex)" % fl)
        ctxh = g.context()
        sync = F.pfx + "_synchronize_rcu"
        n = 0
        for f in g.fns.values():
            hs = None
            for i in f.all_insts():
                if sync not in g.callees(i):
                    continue
                if hs is None:
                    hs = g.held(f)
                    rep.touch(f)
                n += 1
                held = set(hs.get(i.id, ())) | ctxh.get(f.name, set())
                clash = sorted(held & L)
                rep.check(not clash, "C03.gpwait", "%s.%s@%d" % (fl, f.name, i.line), "grace-period wait with %s held, none of which call_rcu() takes as a reader" % (sorted(held) or "no lock"),
                          "synchronize_rcu() is called while %s is (or may be) held, and call_rcu() acquires it inside its read-side critical section (default helper creation): "
                          "a call_rcu() caller blocked on the lock is a reader the grace period waits for - neither returns, the callback is never invoked" % clash, [i.where()])
        pat.require(n >= 2, "%s: only %d grace-period wait sites found in the library" % (fl, n))


META["explanation"] += " " + 'Also (round 13): no library path waits for a grace period while it or a caller holds a lock that call_rcu() takes inside its read-side section (C03.gpwait, over the lock-order graph with caller contexts).'

META["explanation"] += " " + 'Also (round 14): fork-child hand-over rules shared from C16 (every inherited helper replaced or emptied).'

RULES = [
    ("C03.helper", rule_helper_loop),
    ("C03.init", rule_init_before_thread),
    ("C03.flags", rule_flags),
    ("C03.gp", rule_gp),
    ("C03.enq", rule_enq),
    ("C03.offline", rule_offline),
    ("C03.handover", rule_handover_c03),
    ("C03.stop", rule_stop),
    ("C03.stop", rule_stop_request),
    ("C03.freeall", rule_freeall),
    ("C03.list", rule_list),
    ("C03.cb-nolock", rule_cb_nolock),
    ("C03.who", rule_who),
    ("C03.percpu", rule_percpu),
    ("C03.default", rule_default),
    ("C03.publast", rule_publast),
    ("C03.select", rule_select),
    ("C03.wake", rule_wake),
    # leftover hand-over and the helper's batch grab are wfcqueue splices (into a live queue for the hand-over)
    ("C03.child", lambda c, r: __import__("sa.rules.c16", fromlist=["x"]).rule_child(c, r, "C03.child", callrcu_only=True)),   # callbacks pending at fork() and call_rcu() in the child: every inherited helper is replaced or emptied whichever helper served the caller
    ("C03.gpwait", rule_gpwait),
    ("C03.queue", lambda c, r: pat.shared(__import__("sa.rules.c10", fromlist=["x"]).rule_splice, "C03.queue")(c, r)),
    ("C03.queue", lambda c, r: pat.shared(__import__("sa.rules.c10", fromlist=["x"]).rule_append, "C03.queue")(c, r)),
    ("C03.listtrav", lambda c, r: __import__("sa.rules.c15", fromlist=["x"]).rule_listtrav(c, r, "C03.listtrav")),   # the helper list (teardown, barrier, fork handlers) is walked with these macros
]
FLOORS = {}
