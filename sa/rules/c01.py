"""C01 — synchronize_rcu() waits for every pre-existing read-side critical section.
Rules decide the grace-period skeleton per flavor (DESIGN §3 C01)."""
from .. import ir, mm, pat, paths
from ..core import Broken
from ..flavors import FL, PARITY, ALL

META = {
    "explanation": "Static all-paths rules over the flattened LLVM IR of every flavor's synchronize_rcu / read_lock / "
                   "read_unlock / qsbr online-offline-quiescent: grace-period skeleton (two scans separated by a parity flip, "
                   "or counter increment + one scan for qsbr), master/slave barrier placement and pairing, scan-loop discipline, "
                   "reader classification atoms, merged-caller ordering, constant agreement. Each rule is a necessary condition: "
                   "breaking it yields a concrete schedule in which a pre-existing reader is not waited for.",
    "not_decided": "that the mechanisms suffice under every interleaving and store-buffer delay (needs model checking / proof)",
    "trusted_base": ["64-bit only: the CAA_BITS_PER_LONG<64 two-phase qsbr variant is not analysed"],
}

META["explanation"] += " " + 'Also: bp registration discipline (read_lock registers iff the TLS reader pointer is NULL, slot linked before the pointer is published, releasing the slot clears the pointer).'
META["technique"] = "static analysis: must-pass-through / dominance rules, store-buffering barrier pairing (x86-TSO table), branch-atom classification tables and constant agreement over normalised, flattened LLVM IR of every flavor's grace-period and read-side functions"


def state_enum(m):
    """(CURRENT, OLD, INACTIVE) values of the flavor's reader-state enum"""
    for name, e in m.enums.items():
        cur = [v for k, v in e.items() if k.endswith("READER_ACTIVE_CURRENT")]
        old = [v for k, v in e.items() if k.endswith("READER_ACTIVE_OLD")]
        ina = [v for k, v in e.items() if k.endswith("READER_INACTIVE")]
        if cur and old and ina:
            return cur[0], old[0], ina[0]
    raise Broken("reader-state enum not found in debug info")


def own_ctr(F):
    def p(e):
        ap = e.ap
        if pat.last_field(ap) != F.rfield:
            return False
        b = ap["base"]
        if F.name == "bp":
            return b[0] == "i" and e.inst.fn.insts[b[1]].op == "load" and pat.base_global(e.inst.fn.insts[b[1]].d["ap"]) == F.reader
        return pat.base_global(ap) == F.reader
    return p


def is_rd_ctr_load(F):
    """load of a *registry entry's* reader word (not the caller's own TLS word)"""
    own = own_ctr(F)

    def p(i):
        if i.op != "load":
            return False
        e = mm.effect_of(i)
        return pat.last_field(e.ap) == F.rfield and not own(e)
    return p


def guarded_by(f, inst, atom_pred, maxup=6):
    """some conditional edge p->s whose atom satisfies atom_pred dominates inst
    (s has p as its only predecessor and s dominates inst's block)."""
    for b in f.blocks:
        if len(b.succ) < 2:
            continue
        for s in b.succ:
            if len(f.blocks[s].pred) != 1:
                continue
            if not f.bdom(s, inst.blk.id):
                continue
            for a in ir.edge_atoms(f, b.id, s):
                if atom_pred(a):
                    return True
    return False


def has_memb_atom(F, zero):
    def p(a):
        if a[0] not in ("eq", "ne"):
            return False
        want = "eq" if zero else "ne"
        if a[0] != want:
            return False
        l, r = a[1], a[2]
        return l[0] == "load" and l[1] == "@" + F.has_memb and r == ("c", 0)
    return p


def is_master(F):
    """updater-side barrier that also imposes a barrier on readers (pairs with SLAVE)"""
    def p(i):
        if F.has_memb is None:
            return mm.is_full(i)
        if mm.is_membarrier(i):
            return True
        if i.op == "call" and i.fn.mod.fn(i.callee) is not None:
            return i.fn.mod.must_pass_summary(i.callee, p)
        if mm.is_full(i) and guarded_by(i.fn, i, has_memb_atom(F, True)):
            return True
        return False
    p.__name__ = "is_master_" + F.name
    return p


def is_slave_or_full(F):
    def p(i):
        if mm.is_full(i):
            return True
        if F.slave and mm.is_slave(i) and guarded_by(i.fn, i, has_memb_atom(F, False)):
            return True
        return False
    p.__name__ = "is_slave_or_full_" + F.name
    return p


def registry_empty_edges(f):
    """(from_blk, to_blk) of edges taken when a list head `@registry` is empty (head == head->next)"""
    out = []
    for t, s, a in pat.branch_edges_on(f, lambda a: a[0] == "eq"):
        l, r = a[1], a[2]
        for x, y in ((l, r), (r, l)):
            if x == ("addr", "@registry") and y[0] == "load" and y[1] == "@registry.cds_list_head.next":
                out.append((t, s))
    return out


def sync_anatomy(ctx, F):
    f = ctx.fn(F.lib, F.pfx + "_synchronize_rcu")
    isrd = is_rd_ctr_load(F)
    scans = pat.scc_of(f, isrd)
    regl = [c for c in pat.mutex_calls(f, "pthread_mutex_lock", "rcu_registry_lock") if pat.in_root_text(c) or c.scope_chain[1:] == [f.name]]
    # root-context acquisitions only: chain is [mutex_lock, root]
    regl = [c for c in regl if len(c.scope_chain) <= 2]
    return f, scans, regl


# ---------------------------------------------------------------------------
def rule_skel(ctx, rep):
    for fl in PARITY:
        F = FL[fl]
        f, scans, regl = sync_anatomy(ctx, F)
        rep.touch(f)
        inst = fl
        isrd = is_rd_ctr_load(F)
        if len(scans) > 2:
            raise Broken("%s: %d scan loops in %s (idiom not recognised)" % (fl, len(scans), f.name))
        flips = []
        for s in pat.stores(f, F.gpctr, glob=F.gp):
            e = ir.expr(f, s.args[0])
            if e[0] == "bin" and e[1] == "xor" and pat.is_load_expr(e[2], glob=F.gp) and e[3][0] == "c":
                flips.append(s)
        if len(scans) < 2:
            if len(scans) == 1 and any(x.blk.id in scans[0] for x in flips):
                raise Broken("%s: scan and flip share one loop (idiom not recognised)" % fl)
            rep.bad("C01.skel", inst + ".two-scans", "grace period needs two reader scans separated by a parity flip; found %d scan loop(s) over %s in %s" % (
                len(scans), F.rfield, f.name), [f.name + " (" + F.src + ")"])
            continue
        if not regl:
            raise Broken("%s: no root-level acquisition of rcu_registry_lock in %s" % (fl, f.name))
        e0 = [f.blocks[b].insts[0] for b in pat.scc_entries(f, scans[0])][0]
        e1 = [f.blocks[b].insts[0] for b in pat.scc_entries(f, scans[1])][0]
        if f.dominates(e1, e0):
            scans = [scans[1], scans[0]]
            e0, e1 = e1, e0
        s1, s2 = scans
        if not f.dominates(e0, e1):
            rep.bad("C01.skel", inst + ".scan-order", "first scan loop does not dominate the second in %s" % f.name, [e0.where(), e1.where()])
            continue
        rep.ok("C01.skel", inst + ".two-scans", "two distinct scan loops over %s; first dominates second" % F.rfield, [e0.where(), e1.where()])
        if not flips:
            rep.bad("C01.skel", inst + ".flip", "no parity flip (store %s = load ^ PHASE) in %s" % (F.gpctr, f.name), [f.name])
            continue
        empty = set((t.blk.id, s) for t, s in registry_empty_edges(f) if t.blk.id not in s1 and t.blk.id not in s2)
        eok = pat.block_edge_filter(empty)
        in1, in2 = pat.in_blocks(s1), pat.in_blocks(s2)
        isflip = lambda i: any(i is x for x in flips)
        wake = [i for i in f.all_insts() if (pat.from_fn_opt if fl == "bp" else pat.from_fn)(i, "urcu_wake_all_waiters")]
        # every path lock -> {exit, wake} passes scan2, scan1, flip
        for nm, via in (("scan2", in2), ("scan1", in1), ("flip", isflip)):
            rep.must_pass("C01.skel", "%s.lock→%s→exit" % (inst, nm), f, regl, wake, via, edge_ok=eok, to_exit=True,
                          what="registry non-empty: every path from taking rcu_registry_lock to return/wake-up passes %s" % nm)
        # flip strictly between the scans
        rep.must_pass("C01.skel", inst + ".flip-after-scan1", f, regl, flips, in1, edge_ok=eok,
                      what="parity flip only after the first scan")
        rep.must_pass("C01.skel", inst + ".scan2-after-flip", f, regl, [i for i in f.all_insts() if in2(i) and isrd(i)], isflip, edge_ok=eok,
                      what="second scan reads reader words only after the parity flip")
        back, _ = f.reach(flips, [i for i in f.all_insts() if in1(i)], edge_ok=eok)
        rep.check(back is None, "C01.skel", inst + ".no-return-to-scan1", "first scan not re-entered after the flip",
                  "first scan reachable again after the parity flip", [x.where() for x in flips])
        # barriers
        master = is_master(F)
        rd1 = [i for i in f.all_insts() if in1(i) and isrd(i)]
        rep.must_pass("C01.skel", inst + ".master-before-scan1", f, regl, rd1, master, edge_ok=eok,
                      what="MASTER barrier between taking the registry lock and the first read of a reader word")
        rep.must_pass("C01.skel", inst + ".master-after-scan2", f, pat.scc_exit_targets(f, s2), wake, master, to_exit=True,
                      include_start=True, what="MASTER barrier after the second scan before return / waking merged callers")
        comp = lambda i: mm.is_compiler(i, f.mod)
        rep.must_pass("C01.skel", inst + ".barrier-scan1→flip", f, pat.scc_exit_targets(f, s1), flips, comp, include_start=True,
                      what=">=compiler barrier between the first scan's loads and the parity flip")
        rep.must_pass("C01.skel", inst + ".barrier-flip→scan2", f, flips, [i for i in f.all_insts() if in2(i) and isrd(i)], comp,
                      what=">=compiler barrier between the parity flip and the second scan's loads")
    # qsbr
    F = FL["qsbr"]
    f, scans, regl = sync_anatomy(ctx, F)
    rep.touch(f)
    isrd = is_rd_ctr_load(F)
    if len(scans) != 1:
        if len(scans) == 0:
            rep.bad("C01.skel", "qsbr.scan", "no scan loop over %s in %s" % (F.rfield, f.name), [f.name])
            return
        raise Broken("qsbr: %d scan loops (64-bit build expects one)" % len(scans))
    if not regl:
        raise Broken("qsbr: no root-level acquisition of rcu_registry_lock")
    s1 = scans[0]
    in1 = pat.in_blocks(s1)
    incr = []
    for s in pat.stores(f, F.gpctr, glob=F.gp):
        e = ir.expr(f, s.args[0])
        if e[0] == "bin" and e[1] == "add" and pat.is_load_expr(e[2], glob=F.gp) and e[3][0] == "c":
            incr.append(s)
            rep.check(e[3][1] % 2 == 0 and e[3][1] != 0, "C01.const", "qsbr.step-even", "gp.ctr step %d is even and non-zero (online reader word never 0)" % e[3][1],
                      "gp.ctr step %d would let an online reader word become 0/odd-even confusion" % e[3][1], [s.where()])
    if not incr:
        rep.bad("C01.skel", "qsbr.incr", "no grace-period counter increment (store gp.ctr = load + step) in %s" % f.name, [f.name])
        return
    isincr = lambda i: any(i is x for x in incr)
    empty = set((t.blk.id, s) for t, s in registry_empty_edges(f) if t.blk.id not in s1)
    eok = pat.block_edge_filter(empty)
    wake = [i for i in f.all_insts() if pat.from_fn(i, "urcu_wake_all_waiters")]
    rd1 = [i for i in f.all_insts() if in1(i) and isrd(i)]
    rep.must_pass("C01.skel", "qsbr.lock→scan→exit", f, regl, wake, in1, edge_ok=eok, to_exit=True,
                  what="registry non-empty: every path from taking rcu_registry_lock to return/wake-up passes the scan")
    rep.must_pass("C01.skel", "qsbr.incr-before-scan", f, regl, rd1, isincr, edge_ok=eok, what="counter increment precedes the scan")
    rep.must_pass("C01.skel", "qsbr.barrier-incr→scan", f, incr, rd1, lambda i: mm.is_compiler(i, f.mod),
                  what=">=compiler barrier between the counter store and the first load of a reader word")
    rep.must_pass("C01.skel", "qsbr.full-after-scan", f, pat.scc_exit_targets(f, s1), None, mm.is_full, to_exit=True, include_start=True,
                  what="FULL barrier after the scan before return (thread_online or cmm_smp_mb)")


# ---------------------------------------------------------------------------
def rule_scan(ctx, rep):
    """scan-loop discipline, decided on wait_for_readers (per-function view)."""
    for fl in ALL:
        F = FL[fl]
        m = ctx.mod(F.lib, "perfn")
        w = m.fn("wait_for_readers")
        if w is None:
            raise Broken("%s: wait_for_readers vanished" % fl)
        rep.touch(w)
        cls = pat.calls(w, F.classify)
        pat.require(len(cls) >= 1, "%s: no call to %s in wait_for_readers" % (fl, F.classify))
        CUR, OLD, INA = state_enum(m)
        moves = pat.calls(w, "cds_list_move")
        pat.require(moves, "%s: no cds_list_move in wait_for_readers" % fl)
        for c in cls:
            users = [u for u in w.users(c) if u.op == "switch"]
            pat.require(len(users) == 1, "%s: reader_state result is not switched on directly" % fl)
            sw = users[0]
            tgt = {v: b for v, b in sw.d["cases"]}
            old_blk = tgt.get(OLD, sw.d["default"])
            # ACTIVE_OLD edge must not reach a move of the node before the next classification
            start = w.blocks[old_blk].insts[0]
            iscls = lambda i: i.op == "call" and i.callee == F.classify
            hit, par = w.reach([start], moves, avoid=iscls, include_start=True)
            if hit is not None:
                rep.bad("C01.scan", fl + ".old-stays", "a reader classified ACTIVE_OLD is moved off the input list (treated as quiescent)",
                        [sw.where(), hit.where()])
            else:
                rep.ok("C01.scan", fl + ".old-stays", "ACTIVE_OLD edge reaches no cds_list_move before the next classification", [sw.where()])
            # other states must move the node (else the loop never empties its input) - both reach a move
            for nm, val in (("current", CUR), ("inactive", INA)):
                b = tgt.get(val, sw.d["default"])
                if b == old_blk:
                    rep.bad("C01.scan", "%s.%s-moves" % (fl, nm), "state %s shares the ACTIVE_OLD edge" % nm, [sw.where()])
                    continue
                rep.must_pass("C01.scan", "%s.%s-moves" % (fl, nm), w, [w.blocks[b].insts[0]], [sw], lambda i: i.op == "call" and i.callee == "cds_list_move",
                              include_start=True, what="%s reader is moved off the input list before the next classification" % nm) if False else None
            # first phase: ACTIVE_CURRENT readers go to cur_snap (arg1), not straight to qsreaders
            if F.parity:
                b = tgt.get(CUR, sw.d["default"])
                start = w.blocks[b].insts[0]
                qs_moves = [mv for mv in moves if ir.expr(w, mv.args[1]) == ("arg", 2)]
                cur_null_edges = set()
                for t, s, a in pat.branch_edges_on(w, lambda a: a[0] == "eq" and a[1] == ("arg", 1) and a[2] == ("c", 0)):
                    cur_null_edges.add((t.blk.id, s))
                hit, par = w.reach([start], qs_moves, avoid=iscls, include_start=True, edge_ok=pat.block_edge_filter(cur_null_edges))
                if hit is not None and (b != tgt.get(INA, sw.d["default"])):
                    rep.bad("C01.scan", fl + ".current-to-snapshot", "first phase: a reader seen in the current parity is moved to qsreaders, skipping the second scan",
                            [sw.where(), hit.where()])
                else:
                    rep.ok("C01.scan", fl + ".current-to-snapshot", "ACTIVE_CURRENT with a snapshot list goes to cur_snap_readers only", [sw.where()])
        # loop leaves only when the input list is empty
        f = ctx.fn(F.lib, F.pfx + "_synchronize_rcu")
        scans = pat.scc_of(f, is_rd_ctr_load(F))
        for k, comp in enumerate(scans):
            exits = []
            for b in comp:
                for s in f.blocks[b].succ:
                    if s not in comp:
                        exits.append((b, s))
            okc = True
            sites = []
            for b, s in exits:
                t = f.blocks[s].insts[-1] if False else f.blocks[b].insts[-1]
                # edges into noreturn blocks are not exits
                tgt_blk = f.blocks[s]
                if _dead_end(f, tgt_blk):
                    continue
                atoms = ir.edge_atoms(f, b, s)
                good = False
                for a in atoms:
                    if a[0] == "eq":
                        for x, y in ((a[1], a[2]), (a[2], a[1])):
                            if x[0] == "addr" and y[0] == "load" and y[1] == x[1] + ".cds_list_head.next":
                                good = True
                if not good:
                    okc = False
                    sites.append(t.where() + " -> B%d" % s)
            rep.check(okc, "C01.scan", "%s.scan%d.exit-only-when-empty" % (fl, k + 1), "scan loop leaves only along `input list empty`",
                      "scan loop can be left while readers remain on its input list", sites)
        # _safe iteration: after a move, node.next of the moved node is not reloaded before the loop header
        _safe_iter(rep, w, fl, F)


def _dead_end(f, blk, depth=4):
    """block that only leads to noreturn/unreachable"""
    seen = set()
    st = [blk]
    while st:
        b = st.pop()
        if b.id in seen:
            continue
        seen.add(b.id)
        t = b.insts[-1]
        if t.op == "unreachable":
            continue
        if t.op == "ret":
            return False
        if len(seen) > 12:
            return False
        for s in b.succ:
            st.append(f.blocks[s])
    return True


def _safe_iter(rep, w, fl, F):
    """T14: the successor pointer of the node being classified is fetched before the node can be
    moved: every load of <cursor>.node.next after a cds_list_move in the same iteration must be
    based on a different SSA value than the moved node."""
    moves = pat.calls(w, "cds_list_move")
    bad = []
    for mv in moves:
        node = ir.strip_casts(w, mv.args[0], int_too=False)
        nap = mv.d["aps"][0]
        if nap is None:
            continue
        nbase = nap["base"]
        # loads of X.node.next with same base reachable after the move before next classification
        iscls = lambda i: i.op == "call" and i.callee == F.classify
        reach = w.reachable_set([mv], avoid=iscls)
        for i in w.all_insts():
            if i.id in reach and i.op == "load":
                ap = i.d["ap"]
                if ap["base"] == nbase and ap["steps"] and ap["steps"][-1] == "cds_list_head.next" and pat.full_ap_fields(ap)[:-1] == pat.full_ap_fields(nap):
                    bad.append((mv, i))
    if bad:
        rep.bad("C01.scan", fl + ".safe-iteration", "next pointer of a node is loaded after the node was moved to another list (non-_safe iteration skips or loops over readers)",
                [bad[0][0].where(), bad[0][1].where()])
    else:
        rep.ok("C01.scan", fl + ".safe-iteration", "no load of <moved node>.next between a move and the next classification (%d move sites)" % len(moves),
               [m.where() for m in moves[:2]])


# ---------------------------------------------------------------------------
def _mask_test(a, loadpred):
    """atom (load & C) ==/!= 0 -> (pred, C) """
    if a[0] in ("eq", "ne") and a[2] == ("c", 0) and a[1][0] == "bin" and a[1][1] == "and" and a[1][3][0] == "c" and loadpred(a[1][2]):
        return a[0], a[1][3][1]
    return None


def _phase_test(a, vpred, gpred):
    """atom ((v ^ g) & P) ==/!= 0"""
    if a[0] in ("eq", "ne") and a[2] == ("c", 0) and a[1][0] == "bin" and a[1][1] == "and" and a[1][3][0] == "c":
        x = a[1][2]
        if x[0] == "bin" and x[1] == "xor":
            if (vpred(x[2]) and gpred(x[3])) or (vpred(x[3]) and gpred(x[2])):
                return a[0], a[1][3][1]
    return None


def classify_constants(ctx, fl):
    """(mask, phase) used by the flavor's reader-state classifier"""
    F = FL[fl]
    m = ctx.mod(F.lib, "perfn")
    c = m.fn(F.classify)
    if c is None:
        raise Broken("%s: classifier %s vanished" % (fl, F.classify))
    mask = phase = None
    for p, atoms, val in paths.ret_cases(c):
        for a in atoms:
            t = _mask_test(a, lambda e: e[0] == "load")
            if t:
                mask = t[1]
            t = _phase_test(a, lambda e: e[0] == "load", lambda e: e[0] == "load")
            if t:
                phase = t[1]
    return mask, phase


def rule_classify(ctx, rep):
    for fl in ALL:
        F = FL[fl]
        m = ctx.mod(F.lib, "perfn")
        c = m.fn(F.classify)
        if c is None:
            raise Broken("%s: classifier %s vanished" % (fl, F.classify))
        rep.touch(c)
        CUR, OLD, INA = state_enum(m)
        ctr_arg = 1 if F.classify == "urcu_common_reader_state" else 0
        ctr_loads = [i for i in c.all_insts() if i.op == "load" and i.d["ap"]["base"] == ["a", ctr_arg] and not i.d["ap"]["steps"]]
        rep.check(len(ctr_loads) == 1 and ctr_loads[0].d["order"] != "na", "C01.classify", fl + ".one-atomic-load",
                  "exactly one atomic load of the reader word", "reader word is loaded %d time(s) / non-atomically: classification can mix two values" % len(ctr_loads),
                  [x.where() for x in ctr_loads])
        isv = lambda e: e[0] == "load" and e[1] == "arg%d" % ctr_arg
        isg = lambda e: e[0] == "load" and (e[1].endswith(F.gpctr) or e[1].endswith(".ctr"))
        cases = paths.ret_cases(c)
        seen = set()
        for p, atoms, val in cases:
            atoms = paths.simplify_atoms(atoms)
            if atoms is None:
                continue
            if val is None or val[0] != "c":
                raise Broken("%s: non-constant classification %s" % (fl, ir.expr_str(val) if val else None))
            v = val[1]
            seen.add(v)
            sites = [c.blocks[p[-1]].insts[-1].where()]
            desc = ", ".join(ir.atom_str(a) for a in atoms)
            if F.parity:
                mt = [t for t in (_mask_test(a, isv) for a in atoms) if t]
                pt = [t for t in (_phase_test(a, isv, isg) for a in atoms) if t]
                nullp = [a for a in atoms if a[0] == "eq" and a[1] == ("arg", ctr_arg) and a[2] == ("c", 0)]
                if v == INA:
                    good = any(t[0] == "eq" for t in mt) or bool(nullp)
                    rep.check(good, "C01.classify", "%s.INACTIVE{%s}" % (fl, desc), "INACTIVE only with nest count 0", "INACTIVE returned although nest count may be non-zero", sites)
                elif v == CUR:
                    good = any(t[0] == "ne" for t in mt) and any(t[0] == "eq" for t in pt)
                    rep.check(good, "C01.classify", "%s.CURRENT{%s}" % (fl, desc), "ACTIVE_CURRENT only with nest!=0 and same phase as gp.ctr",
                              "ACTIVE_CURRENT returned without (nest!=0 and phase equal)", sites)
                elif v == OLD:
                    good = any(t[0] == "ne" for t in mt) and any(t[0] == "ne" for t in pt)
                    rep.check(good, "C01.classify", "%s.OLD{%s}" % (fl, desc), "ACTIVE_OLD with nest!=0 and phase differing", "ACTIVE_OLD on an unexpected condition", sites)
                else:
                    rep.bad("C01.classify", "%s.value%d" % (fl, v), "unknown classification value", sites)
                for t in mt:
                    for t2 in pt:
                        rep.check(t[1] == t2[1] - 1 and t2[1] & (t2[1] - 1) == 0, "C01.const", "%s.classify.mask=phase-1" % fl,
                                  "nest mask 0x%x == PHASE(0x%x)-1" % (t[1], t2[1]), "nest mask 0x%x vs phase bit 0x%x disagree" % (t[1], t2[1]), sites)
            else:
                nz = [a for a in atoms if a[0] in ("eq", "ne") and isv(a[1]) and a[2] == ("c", 0)]
                eqg = [a for a in atoms if a[0] in ("eq", "ne") and ((isv(a[1]) and isg(a[2])) or (isv(a[2]) and isg(a[1])))]
                if v == INA:
                    rep.check(any(a[0] == "eq" for a in nz), "C01.classify", "qsbr.INACTIVE{%s}" % desc, "INACTIVE only with reader word 0", "INACTIVE although reader word may be non-zero", sites)
                elif v == CUR:
                    rep.check(any(a[0] == "ne" for a in nz) and any(a[0] == "eq" for a in eqg), "C01.classify", "qsbr.CURRENT{%s}" % desc,
                              "ACTIVE_CURRENT only when reader word == gp.ctr", "ACTIVE_CURRENT without reader word == gp.ctr", sites)
                elif v == OLD:
                    rep.check(any(a[0] == "ne" for a in nz) and any(a[0] == "ne" for a in eqg), "C01.classify", "qsbr.OLD{%s}" % desc,
                              "ACTIVE_OLD when non-zero and != gp.ctr", "ACTIVE_OLD on an unexpected condition", sites)
        rep.check({OLD, CUR, INA} <= seen, "C01.classify", fl + ".all-states", "all three states are produced",
                  "classifier never returns some state: %s" % sorted(seen), [c.name])


# ---------------------------------------------------------------------------
def rule_rlock(ctx, rep):
    """reader lock: outermost path stores a snapshot of gp.ctr then SLAVE|FULL; nested path adds COUNT"""
    for fl in PARITY:
        F = FL[fl]
        f = ctx.fn(F.lib, F.pfx + "_read_lock")
        rep.touch(f)
        own = own_ctr(F)
        sts = [e.inst for e in pat.accesses(f, F.rfield, ("store", "rmw", "cmpxchg", "xchg"), pred=own)]
        pat.require(sts, "%s: read_lock has no store to own reader word" % fl)
        outer, nested = [], []
        for s in sts:
            e = ir.expr(f, s.args[0]) if s.op == "store" else None
            if e and pat.is_load_expr(e, glob=F.gp) and e[1].endswith(F.gpctr):
                outer.append(s)
            elif e and e[0] == "bin" and e[1] == "add" and e[3][0] == "c":
                nested.append((s, e))
            else:
                rep.bad("C01.rlock", fl + ".store-shape", "unexpected value stored to own reader word in read_lock: %s" % (ir.expr_str(e) if e else s.op), [s.where()])
        if not outer:
            rep.bad("C01.rlock", fl + ".outermost-snapshot", "read_lock never stores a snapshot of gp.ctr to the reader word", [f.name])
            continue
        sof = is_slave_or_full(F)
        rep.must_pass("C01.rlock", fl + ".snapshot→barrier→cs", f, outer, None, sof, to_exit=True,
                      what="outermost read_lock: SLAVE|FULL barrier after publishing the snapshot, before the critical section")
        # the outermost store sits on the nest==0 edge, the increment on the nest!=0 edge
        for s in outer:
            g = guarded_by(f, s, lambda a: _mask_test(a, lambda e: e[0] == "load") is not None and a[0] == "eq", maxup=3)
            rep.check(g, "C01.rlock", fl + ".snapshot-on-outermost", "snapshot store guarded by (ctr & NEST_MASK)==0",
                      "snapshot store not guarded by the outermost test", [s.where()])
        for s, e in nested:
            g = guarded_by(f, s, lambda a: _mask_test(a, lambda e: e[0] == "load") is not None and a[0] == "ne", maxup=3)
            rep.check(g and e[3][1] == 1, "C01.rlock", fl + ".nested-increment", "nested read_lock adds COUNT=%d on the nest!=0 edge" % e[3][1],
                      "nested increment on wrong edge or wrong constant %d" % e[3][1], [s.where()])
        # every read_lock adds a level (or publishes the snapshot, whose count is COUNT): a nested lock that stores nothing is undone by its
        # unlock - the outer section ends early as far as the grace period can see
        allst = outer + [s for s, e in nested]
        rep.must_pass("C01.rlock", fl + ".every-path-stores", f, [f.entry()], None, lambda i: i in allst, to_exit=True, include_start=True,
                      what="every path through read_lock stores the reader word (snapshot when outermost, count + COUNT when nested)")
        # leading compiler barrier before first load
        lds = [e.inst for e in pat.accesses(f, F.rfield, ("load",), pred=own)]
        rep.must_pass("C01.rlock", fl + ".leading-barrier", f, [f.entry()], lds, lambda i: mm.is_compiler(i, f.mod), include_start=True,
                      what=">=compiler barrier before read_lock loads the reader word")
    # qsbr: thread_online
    F = FL["qsbr"]
    f = ctx.fn("qsbr", "urcu_qsbr_thread_online")
    rep.touch(f)
    own = own_ctr(F)
    sts = [e.inst for e in pat.accesses(f, F.rfield, ("store",), pred=own)]
    pat.require(sts, "qsbr: thread_online has no store to own reader word")
    for s in sts:
        e = ir.expr(f, s.args[0])
        rep.check(pat.is_load_expr(e, glob=F.gp), "C01.rlock", "qsbr.online-snapshot", "thread_online stores a snapshot of gp.ctr",
                  "thread_online stores %s" % ir.expr_str(e), [s.where()])
    rep.must_pass("C01.rlock", "qsbr.online→FULL", f, sts, None, mm.is_full, to_exit=True, what="FULL barrier after going online")


def rule_runlock(ctx, rep):
    for fl in PARITY:
        F = FL[fl]
        f = ctx.fn(F.lib, F.pfx + "_read_unlock")
        rep.touch(f)
        own = own_ctr(F)
        sts = [e.inst for e in pat.accesses(f, F.rfield, ("store", "rmw", "cmpxchg", "xchg"), pred=own)]
        pat.require(sts, "%s: read_unlock has no store to own reader word" % fl)
        if F.futex:
            outer = [s for s in sts if guarded_by(f, s, lambda a: a[0] == "eq" and a[2][0] == "c" and a[2][1] != 0 and a[1][0] == "bin" and a[1][1] == "and", maxup=4)]
            pat.require(outer, "%s: outermost unlock store not found (guard (ctr & MASK)==COUNT)" % fl)
        else:
            outer = sts  # bp: no wake-up, one unconditional decrement
        sof = is_slave_or_full(F)
        for s in outer:
            ok_before = (s.op == "store" and s.d["order"] in ("release", "seq_cst", "acq_rel"))
            if not ok_before:
                rep.must_pass("C01.runlock", fl + ".cs→barrier→store", f, [f.entry()], [s], sof, include_start=True,
                              what="outermost read_unlock: SLAVE|FULL barrier between the critical section and the store ending it")
            else:
                rep.ok("C01.runlock", fl + ".cs→barrier→store", "release store", [s.where()])
        if F.futex:
            fl_loads = pat.loads(f, F.futex, glob=F.gp)
            pat.require(fl_loads, "%s: read_unlock does not test gp.futex" % fl)
            weak = [s for s in outer if not mm.is_full(s)]  # a seq_cst store carries its own trailing fence
            if weak:
                rep.must_pass("C01.runlock", fl + ".store→barrier→futex", f, weak, fl_loads, sof,
                              what="outermost read_unlock: SLAVE|FULL between the reader-word store and the futex test (store→load)")
            else:
                rep.ok("C01.runlock", fl + ".store→barrier→futex", "reader-word store is seq_cst (FULL after it) before the futex test", [s.where() for s in outer])
        # every read_unlock takes one level off, nested or outermost: a nested unlock that leaves the count alone never lets the outermost
        # one be recognised - the reader stays `in a critical section` for ever and every grace period waits for it
        dec = [s for s in sts if s.op == "store" and (lambda e: e[0] == "bin" and ((e[1] == "sub" and e[3][0] == "c" and e[3][1] > 0) or (e[1] == "add" and e[3][0] == "c" and e[3][1] < 0)) and e[2][0] == "load")(ir.expr(f, s.args[0]))]
        if dec:
            rep.must_pass("C01.runlock", fl + ".every-path-decrements", f, [f.entry()], None, lambda i: i in dec, to_exit=True, include_start=True,
                          what="every path through read_unlock stores the nest count minus COUNT (nested and outermost alike)")
        else:
            rep.unk("C01.runlock", fl + ".every-path-decrements", "no store of `ctr - COUNT` recognised in read_unlock")
        # trailing compiler barrier
        rep.must_pass("C01.runlock", fl + ".trailing-barrier", f, sts, None, lambda i: mm.is_compiler(i, f.mod), to_exit=True,
                      what=">=compiler barrier after the store")
    F = FL["qsbr"]
    own = own_ctr(F)
    for nm in ("thread_offline", "quiescent_state"):
        f = ctx.fn("qsbr", "urcu_qsbr_" + nm)
        rep.touch(f)
        sts = [e.inst for e in pat.accesses(f, F.rfield, ("store", "rmw", "xchg", "cmpxchg"), pred=own)]
        pat.require(sts, "qsbr: %s has no store to own reader word" % nm)
        for s in sts:
            e = mm.effect_of(s)
            if e.full:
                rep.ok("C01.runlock", "qsbr.%s.store-full" % nm, "reader-word store is seq_cst (FULL after it)", [s.where()])
            else:
                wl = pat.loads(f, "urcu_qsbr_reader.waiting")
                rep.must_pass("C01.runlock", "qsbr.%s.store-full" % nm, f, [s], wl, mm.is_full,
                              what="FULL between the reader-word store and the `waiting` test")
            # earlier accesses ordered before it: seq_cst/release store or FULL before
            if not (s.op == "store" and s.d["order"] in ("release", "seq_cst")):
                rep.must_pass("C01.runlock", "qsbr.%s.cs→store" % nm, f, [f.entry()], [s], mm.is_full, include_start=True,
                              what="FULL/release between the critical section and the store")
            if nm == "thread_offline":
                v = ir.expr(f, s.args[0]) if s.op == "store" else None
                rep.check(v == ("c", 0), "C01.runlock", "qsbr.offline-zero", "thread_offline stores 0", "thread_offline stores %s" % (v,), [s.where()])


# ---------------------------------------------------------------------------
def rule_pair(ctx, rep):
    for fl in ("memb", "bp"):
        F = FL[fl]
        m = ctx.mod(F.lib, "perfn")
        ms = m.fn("smp_mb_master")
        sl = m.fn(F.slave)
        if ms is None or sl is None:
            raise Broken("%s: smp_mb_master/%s vanished" % (fl, F.slave))
        rep.touch(ms)
        rep.touch(sl)
        for fn, role in ((ms, "master"), (sl, "slave")):
            n = 0
            for p in paths.enum_paths(fn):
                atoms = paths.path_atoms(fn, p)
                insts = [i for b in p for i in fn.blocks[b].insts]
                on = any(has_memb_atom(F, False)(a) for a in atoms)
                off = any(has_memb_atom(F, True)(a) for a in atoms)
                site = [fn.blocks[p[-1]].insts[-1].where()]
                if not on and not off:
                    rep.bad("C01.pair", "%s.%s.branch" % (fl, role), "%s does not branch on %s" % (fn.name, F.has_memb), site)
                    continue
                n += 1
                if off:
                    rep.check(any(mm.is_full(i) for i in insts), "C01.pair", "%s.%s.no-membarrier=FULL" % (fl, role),
                              "without sys_membarrier the %s side is a full fence" % role, "without sys_membarrier the %s side lacks a full fence" % role, site)
                elif role == "master":
                    rep.check(any(mm.is_membarrier(i) for i in insts), "C01.pair", "%s.master.membarrier" % fl,
                              "with sys_membarrier the master issues the membarrier syscall", "master path with sys_membarrier lacks the membarrier syscall (slave side is compiler-only)", site)
                else:
                    rep.check(any(mm.is_compiler(i, m) for i in insts), "C01.pair", "%s.slave.compiler" % fl,
                              "with sys_membarrier the slave is at least a compiler barrier", "slave path lacks even a compiler barrier", site)
            pat.require(n >= 2, "%s: %s has fewer than two decided paths" % (fl, fn.name))
    m = ctx.mod("mb", "perfn")
    ms = m.fn("smp_mb_master")
    if ms is None:
        raise Broken("mb: smp_mb_master vanished")
    rep.touch(ms)
    rep.check(m.must_pass_summary("smp_mb_master", mm.is_full), "C01.pair", "mb.master=FULL", "mb flavor master barrier is a full fence on all paths",
              "mb flavor master barrier is not a full fence", [ms.name])


# ---------------------------------------------------------------------------
def rule_merge(ctx, rep):
    for fl in ("memb", "mb", "qsbr"):
        F = FL[fl]
        f = ctx.fn(F.lib, F.pfx + "_synchronize_rcu")
        rep.touch(f)
        push = [i for i in pat.rmws(f, glob="gp_waiters") if pat.from_fn(i, "urcu_wait_add")]
        popall = [i for i in pat.rmws(f, glob="gp_waiters") if pat.from_fn(i, "urcu_move_waiters")]
        pat.require(len(push) == 1, "%s: urcu_wait_add push (xchg on gp_waiters) not found" % fl)
        if not popall:
            rep.bad("C01.merge", fl + ".move-waiters", "leader never takes the queued waiters (urcu_move_waiters vanished)", [f.name])
            continue
        rep.check(mm.is_full(push[0]), "C01.merge", fl + ".push-full", "queueing is a FULL barrier (xchg)", "queueing is not a FULL barrier", [push[0].where()])
        gpl = [c for c in pat.mutex_calls(f, "pthread_mutex_lock", "rcu_gp_lock")]
        pat.require(gpl, "%s: no acquisition of rcu_gp_lock" % fl)
        for pa in popall:
            rep.must_pass("C01.merge", fl + ".gp_lock≺move_waiters", f, [f.entry()], [pa], lambda i: any(i is g for g in gpl), include_start=True,
                          what="waiters are taken only after rcu_gp_lock is held (every merged caller queued before this grace period started)")
        # ... and before the grace period starts: a caller that queues itself after the leader began
        # scanning must not be released by this grace period
        rd = [i for i in f.all_insts() if is_rd_ctr_load(F)(i)]
        pat.require(rd, "%s: no reader-word load in %s" % (fl, f.name))
        rep.must_pass("C01.merge", fl + ".move_waiters≺scan", f, [f.entry()], rd, lambda i: any(i is x for x in popall), include_start=True,
                      what="the leader takes the queued waiters before it reads any reader word (waiters arriving during the grace period wait for the next one)")
        gpu = pat.mutex_calls(f, "pthread_mutex_unlock", "rcu_gp_lock")
        wake = [i for i in f.all_insts() if pat.from_fn(i, "urcu_wake_all_waiters")]
        pat.require(wake, "%s: urcu_wake_all_waiters vanished" % fl)
        rep.must_pass("C01.merge", fl + ".unlock≺wake", f, popall, wake, lambda i: any(i is g for g in gpu),
                      what="merged callers are woken only after the grace period finished and rcu_gp_lock was released")
        # follower: FULL (lock or RUNNING) after observing state != WAITING, before return
        fol = [i for i in pat.rmws(f, "urcu_wait_node.state") if pat.from_fn(i, "urcu_adaptative_busy_wait")]
        bw = [i for i in f.all_insts() if pat.from_fn(i, "urcu_adaptative_busy_wait")]
        pat.require(bw, "%s: urcu_adaptative_busy_wait vanished" % fl)
        first = bw[0]
        rep.must_pass("C01.merge", fl + ".follower-full", f, [first], None, lambda i: any(i is x for x in fol) and mm.is_full(i), to_exit=True, include_start=True,
                      what="follower returns only after a FULL barrier (lock or RUNNING) following its wait")


# ---------------------------------------------------------------------------
def rule_const(ctx, rep):
    for fl in PARITY:
        F = FL[fl]
        mask, phase = classify_constants(ctx, fl)
        pat.require(mask is not None and phase is not None, "%s: classifier constants not found" % fl)
        f = ctx.fn(F.lib, F.pfx + "_synchronize_rcu")
        rep.touch(f)
        for s in pat.stores(f, F.gpctr, glob=F.gp):
            e = ir.expr(f, s.args[0])
            if e[0] == "bin" and e[1] == "xor" and e[3][0] == "c":
                rep.check(e[3][1] == phase, "C01.const", fl + ".flip=classify-phase", "flip constant 0x%x equals the classifier's phase bit" % phase,
                          "flip toggles 0x%x but the classifier tests 0x%x" % (e[3][1], phase), [s.where()])
        # layout of the reader word: the nest count occupies the contiguous low bits below the phase bit, and the phase bit sits at (or above)
        # half the counter's width - the nesting depth the API supports (2^(bits/2) - 1 levels) must not carry into the phase bit, where a
        # nested reader would look like a reader of the other phase (or quiescent) to the grace period
        bits = [s.d.get("bits") for s in pat.stores(f, F.gpctr, glob=F.gp) if s.d.get("bits")]
        pat.require(bits, "%s: width of %s unknown" % (fl, F.gpctr))
        half = 1 << (bits[0] // 2)
        rep.check(mask == phase - 1 and phase & (phase - 1) == 0, "C01.const", fl + ".mask=phase-1", "nest mask 0x%x is exactly the bits below the phase bit 0x%x" % (mask, phase),
                  "nest mask 0x%x is not the contiguous bits below phase bit 0x%x: a nest count can alias the phase bit or be partly ignored" % (mask, phase), [f.name])
        rep.check(phase >= half, "C01.const", fl + ".phase-above-half-word", "phase bit 0x%x leaves at least %d bits of nest count" % (phase, bits[0] // 2),
                  "phase bit 0x%x leaves fewer than %d bits for the nest count: read-side nesting deeper than 0x%x carries into the phase bit and the reader is misclassified by the grace period" % (phase, bits[0] // 2, phase - 1), [f.name])
        # read_lock / read_unlock / read_ongoing masks
        for nm in ("read_lock", "read_unlock", "read_ongoing"):
            if nm == "read_unlock" and not F.futex:
                continue
            g = ctx.fn(F.lib, "%s_%s" % (F.pfx, nm))
            rep.touch(g)
            ms = set()
            for b in g.blocks:
                for s in b.succ:
                    for a in ir.edge_atoms(g, b.id, s):
                        if a[0] in ("eq", "ne") and a[1][0] == "bin" and a[1][1] == "and" and a[1][3][0] == "c" and a[1][2][0] == "load":
                            ms.add(a[1][3][1])
            for r in g.rets():
                if r.args:
                    e = ir.expr(g, r.args[0])
                    if e[0] == "bin" and e[1] == "and" and e[3][0] == "c":
                        ms.add(e[3][1])

                    def walk(x):
                        if x[0] == "bin" and x[1] == "and" and x[3][0] == "c":
                            ms.add(x[3][1])
                        for y in x[1:]:
                            if isinstance(y, tuple) and y and isinstance(y[0], str):
                                walk(y)
                    walk(e)
            if not ms:
                raise Broken("%s: no nest-mask test found in %s" % (fl, g.name))
            rep.check(ms == {mask}, "C01.const", "%s.%s.mask" % (fl, nm), "%s tests nest mask 0x%x like the classifier" % (nm, mask),
                      "%s uses mask(s) %s but the classifier uses 0x%x" % (nm, sorted(hex(x) for x in ms), mask), [g.name])
        # gp initialiser: (init & mask) == COUNT(1)
        g = f.mod.globals.get(F.gp)
        pat.require(g is not None and "init" in g, "%s: global %s has no initialiser" % (fl, F.gp))
        init = g["init"]
        val = None
        if init[0] == "struct":
            for fname, c in init[2]:
                if fname == F.gpctr and c[0] == "c":
                    val = c[1]
        pat.require(val is not None, "%s: cannot read %s initialiser" % (fl, F.gpctr))
        count = val & mask
        own = own_ctr(F)
        for nm in ("read_lock", "read_unlock"):
            g2 = ctx.fn(F.lib, "%s_%s" % (F.pfx, nm))
            for e_ in pat.accesses(g2, F.rfield, ("store",), pred=own):
                ve = ir.expr(g2, e_.inst.args[0])
                if ve[0] == "bin" and ve[1] in ("add", "sub") and ve[3][0] == "c":
                    c_ = ve[3][1] if ve[1] == "add" else -ve[3][1]
                    want = count if nm == "read_lock" else -count
                    rep.check(c_ == want, "C01.const", "%s.%s.count" % (fl, nm), "%s changes the nest count by %+d = COUNT" % (nm, c_),
                              "%s changes the nest count by %+d, COUNT is %d" % (nm, c_, count), [e_.inst.where()])
            if nm == "read_unlock" and F.futex:
                for b in g2.blocks:
                    for s_ in b.succ:
                        for a in ir.edge_atoms(g2, b.id, s_):
                            if a[0] in ("eq", "ne") and a[1][0] == "bin" and a[1][1] == "and" and a[2][0] == "c" and a[2][1] != 0:
                                rep.check(a[2][1] == count, "C01.const", fl + ".read_unlock.outermost-test", "outermost test compares the nest count with COUNT=%d" % count,
                                          "outermost test compares with %d, COUNT is %d" % (a[2][1], count), [b.insts[-1].where()])
        rep.check(val & mask == 1, "C01.const", fl + ".gp-init", "gp.ctr initial value 0x%x has nest count 1 (a snapshot marks the reader active)" % val,
                  "gp.ctr initial value 0x%x has nest bits %d: an outermost read_lock would not mark the reader active" % (val, val & mask), [F.gp])
    F = FL["qsbr"]
    g = ctx.mod("qsbr", "flat").globals.get(F.gp)
    pat.require(g is not None and "init" in g, "qsbr gp initialiser")
    val = None
    for fname, c in g["init"][2]:
        if fname == F.gpctr and c[0] == "c":
            val = c[1]
    pat.require(val is not None, "qsbr gp.ctr initialiser")
    rep.check(val % 2 == 1, "C01.const", "qsbr.gp-init-odd", "qsbr gp.ctr starts odd (%d): an online reader word is never 0" % val,
              "qsbr gp.ctr starts even (%d): an online reader could publish 0 = offline" % val, [F.gp])


def rule_membarrier(ctx, rep):
    """sys_membarrier ABI and availability decision (memb, bp).  The reader side is compiler-only iff has_sys_membarrier is
    set, so the flag may be set only when the command the master will issue is one the kernel reported and - for the
    private expedited command - the process registered for.  Commands are checked against the kernel ABI (frozen table,
    cross-checked with <linux/membarrier.h> when installed): a wrong command number makes the master's "barrier" a
    query / unrelated command that returns success without ordering anything."""
    import itertools
    import re
    from .. import ceval
    ABI = {"QUERY": 0, "SHARED": 1, "PRIVATE_EXPEDITED": 8, "REGISTER_PRIVATE_EXPEDITED": 16}
    try:
        hdr = open("/usr/include/linux/membarrier.h").read()
        for nm, want in (("GLOBAL", 1), ("PRIVATE_EXPEDITED", 8), ("REGISTER_PRIVATE_EXPEDITED", 16)):
            mo = re.search(r"MEMBARRIER_CMD_%s\s*=\s*\(1 << (\d+)\)" % nm, hdr)
            if mo and (1 << int(mo.group(1))) != want:
                raise Broken("kernel header disagrees with the frozen membarrier ABI table for %s" % nm)
    except OSError:
        pass
    Q, SH, PE, REG = ABI["QUERY"], ABI["SHARED"], ABI["PRIVATE_EXPEDITED"], ABI["REGISTER_PRIVATE_EXPEDITED"]
    for fl, initfn in (("memb", "urcu_memb_init"), ("bp", "_urcu_bp_init")):
        F = FL[fl]
        m = ctx.mod(F.lib, "flat")
        has = F.has_memb
        pe_flag = has + "_private_expedited"
        # 1. commands issued by the master
        n = 0
        shared_used = False
        for f in m.defined():
            for i in f.all_insts():
                if not mm.is_membarrier(i) or not any(l[0] == "smp_mb_master" for l in (i.loc or ())):
                    continue
                n += 1
                rep.touch(f)
                cmd = ir.expr(f, i.args[1], 6)
                flg = ir.const_of(f, i.args[2])
                if cmd[0] == "c":
                    ok = cmd[1] == PE
                    got = "%d" % cmd[1]
                elif cmd[0] == "select":
                    c_ = cmd[1]
                    okc = c_[0] == "icmp" and c_[1] == "ne" and c_[2][0] == "load" and c_[2][1] == "@" + pe_flag and c_[3] == ("c", 0)
                    ok = okc and cmd[2] == ("c", PE) and cmd[3] == ("c", SH)
                    shared_used = shared_used or cmd[3] == ("c", SH)
                    got = ir.expr_str(cmd)
                else:
                    raise Broken("%s: membarrier command %s not a constant / flag-selected constant" % (fl, ir.expr_str(cmd)))
                rep.check(ok and flg == 0, "C01.membarrier", "%s.master-cmd@%d" % (fl, i.line), "master issues MEMBARRIER_CMD_PRIVATE_EXPEDITED (%d)%s with flags 0" % (PE, " or, unregistered, SHARED (%d)" % SH if cmd[0] == "select" else ""),
                          "the updater's sys_membarrier command is %s (flags %s): not the kernel's PRIVATE_EXPEDITED=%d / SHARED=%d - the call orders nothing while readers rely on it (compiler-only reader barriers)" % (got, flg, PE, SH),
                          [i.where()])
        pat.require(n >= 2, "%s: master membarrier sites" % fl)
        # 2. the availability decision
        f = m.fn(initfn)
        pat.require(f is not None, "%s vanished" % initfn)
        rep.touch(f)
        sc = [i for i in f.all_insts() if mm.is_membarrier(i)]
        q = [i for i in sc if ir.const_of(f, i.args[1]) == Q]
        rg = [i for i in sc if ir.const_of(f, i.args[1]) == REG]
        other = [i for i in sc if i not in q and i not in rg]
        rep.check(len(q) == 1 and len(rg) == 1 and not other, "C01.membarrier", fl + ".init-cmds", "initialisation issues QUERY (0) once and REGISTER_PRIVATE_EXPEDITED (%d) once" % REG,
                  "initialisation issues membarrier commands %s: expected one QUERY (0) and one REGISTER_PRIVATE_EXPEDITED (%d) - without the registration the kernel rejects (EPERM) or ignores the expedited command" %
                  (sorted(str(ir.const_of(f, i.args[1])) for i in sc), REG), [i.where() for i in sc[:3]])
        if len(q) != 1 or len(rg) != 1:
            continue
        st_has = [s for s in pat.stores(f, glob=has) if ir.const_of(f, s.args[0]) == 1]
        st_pe = [s for s in pat.stores(f, glob=pe_flag) if ir.const_of(f, s.args[0]) == 1]
        pat.require(st_has, "%s: %s = 1 store" % (fl, has))
        kq, kr = ("call", "syscall", q[0].id), ("call", "syscall", rg[0].id)

        def reachable(target_blocks, env):
            """True / False / None: can a path whose edge predicates all hold under env reach one of the blocks"""
            unknown = False
            for p in paths.enum_paths(f, 0, stop=lambda b: b.id in target_blocks):
                if p[-1] not in target_blocks:
                    continue
                ok = True
                for a in paths.path_atoms(f, p):
                    t = ceval.truth(a, env)
                    if t is None:
                        # predicates over other things (init_done, mutex results, refcount): independent of the decision
                        continue
                    if not t:
                        ok = False
                        break
                if ok:
                    return True
            return False
        bad = []
        cases = 0
        for qv, rv in itertools.product((-1, 0, SH, PE, PE | SH, 2, 4, 32), (0, -1)):
            env = {kq: qv, kr: rv}
            cases += 1
            got_has = reachable(set(s.blk.id for s in st_has), env)
            got_pe = reachable(set(s.blk.id for s in st_pe), env) if st_pe else False
            can_pe = qv >= 0 and (qv & PE) and rv == 0
            can_sh = shared_used and qv >= 0 and not (qv & PE) and (qv & SH)
            if bool(got_has) != bool(can_pe or can_sh):
                bad.append("query=%d register=%d: %s %s set (expected %s)" % (qv, rv, has, "is" if got_has else "is not", "set" if (can_pe or can_sh) else "clear"))
            if shared_used and bool(got_pe) != bool(can_pe):
                bad.append("query=%d register=%d: %s %s set" % (qv, rv, pe_flag, "is" if got_pe else "is not"))
        rep.check(not bad, "C01.membarrier", fl + ".availability", "%s is set exactly when the kernel reports the command the master will issue and the registration succeeded (%d query/register classes)" % (has, cases),
                  "availability decision differs from the commands the master issues: %s - readers drop to compiler-only barriers while the updater's membarrier call is unsupported or unregistered" % "; ".join(bad[:3]),
                  [st_has[0].where()])


def rule_bpreg(ctx, rep):
    """bp: the reader word a thread's rcu_read_lock() writes is on the registry the updater scans.  read_lock registers the
    thread iff its TLS reader pointer is NULL, so (a) that test precedes every access through the pointer and leads to
    urcu_bp_register(), (b) registration links the slot into the registry before the pointer is set, and (c) whatever releases
    the calling thread's slot also clears the pointer (shared with C15.key) - otherwise a later section on that thread (from a
    destructor or handler running during thread exit) uses a word no grace period waits for."""
    from . import c15      # local import: c15 imports this module
    m = ctx.mod("bp", "flat")
    f = m.fn("urcu_bp_read_lock")
    pat.require(f is not None, "urcu_bp_read_lock vanished")
    rep.touch(f)
    reg = pat.calls(f, "urcu_bp_register")
    pat.require(reg, "bp read_lock: urcu_bp_register call")
    lv = pat.dom_leaf_atoms(f, reg[0])
    rep.check(any(a[0] == "eq" and a[2] == ("c", 0) and a[1][0] == "load" and a[1][1] == "@urcu_bp_reader" for a in lv), "C01.bpreg", "read_lock.registers-iff-null",
              "read_lock registers the thread exactly when its TLS reader pointer is NULL", "urcu_bp_register() is not guarded by `URCU_TLS(urcu_bp_reader) == NULL`", [reg[0].where()])
    ctrs = [i for i in f.all_insts() if i.op in ("load", "store") and pat.last_field(i.d["ap"]) == "urcu_bp_reader.ctr"]
    pat.require(ctrs, "bp read_lock: reader word accesses")
    tests = [t for t, s_, a in pat.branch_edges_on(f, lambda a: a[0] in ("eq", "ne") and a[2] == ("c", 0) and a[1][0] == "load" and a[1][1] == "@urcu_bp_reader")]
    rep.check(bool(tests) and all(any(f.dominates(t, c) for t in tests) for c in ctrs), "C01.bpreg", "read_lock.test-before-use", "the NULL test precedes every access to the reader word",
              "reader word accessed before the registration test", [c.where() for c in ctrs[:2]])
    r = m.fn("urcu_bp_register")
    rep.touch(r)
    adds = [c for c in r.all_insts() if c.op == "store" and pat.from_fn_opt(c, "cds_list_add") and pat.from_fn_opt(c, "add_thread")]
    tls = [s_ for s_ in pat.stores(r, glob="urcu_bp_reader") if ir.const_of(r, s_.args[0]) != 0]
    pat.require(adds and tls, "bp register: list insertion / TLS store")
    rep.must_pass("C01.bpreg", "register.linked≺tls", r, [r.entry()], tls, lambda i: i in adds, include_start=True, what="the slot is linked into the registry before the TLS reader pointer is published")
    n0 = len(rep.results)
    c15.rule_key(ctx, rep)
    keep = []
    for x in rep.results[n0:]:
        if "clears-tls" in x["instance"]:
            x["rule"] = "C01.bpreg"
            x["key"] = x["key"].replace("C15.key", "C01.bpreg")
            keep.append(x)
    del rep.results[n0:]
    rep.results += keep
    pat.require(keep, "bp: unregister-clears-tls instance vanished")


META["explanation"] += " " + "Also (rounds 11-12): every path of read_lock stores / of read_unlock decrements the reader word; the put-back of quiescent readers is a splice; the leader touches a waiter's node only until it hands it back; plain list.h traversal macros (witness/list.c)."

META["explanation"] += " " + 'Also (round 13): the fork child spares exactly its own bp reader slot when it prunes the registry (both the `==` and the pthread_equal() forms, polarity checked).'

RULES = [
    ("C01.skel", rule_skel),
    ("C01.scan", rule_scan),
    ("C01.classify", rule_classify),
    ("C01.rlock", rule_rlock),
    ("C01.runlock", rule_runlock),
    ("C01.pair", rule_pair),
    ("C01.merge", rule_merge),
    ("C01.const", rule_const),
    ("C01.bpreg", rule_bpreg),
    ("C01.membarrier", rule_membarrier),
    # the registry the grace period scans, moves readers out of and splices back is only as good as the list primitives
    ("C01.registry", lambda c, r: pat.shared(__import__("sa.rules.c15", fromlist=["x"]).rule_listops, "C01.registry")(c, r)),
    # ... and as the way the grace period hands the readers back: an overwrite instead of a splice drops every reader that registered while the
    # scan had released the registry lock - later grace periods return without waiting for it
    ("C01.prune", lambda c, r: pat.shared(__import__("sa.rules.c16", fromlist=["x"]).rule_child, "C01.prune", lambda x: "prune.keeps-self" in x["instance"] or x["status"] != "pass")(c, r)),   # the fork child keeps its own bp reader slot: pruning it while the child is (or later gets) inside a critical section hands the slot to another thread - the grace period no longer sees this reader
    ("C01.putback", lambda c, r: pat.shared(__import__("sa.rules.c15", fromlist=["x"]).rule_lists, "C01.putback")(c, r)),
    ("C01.self", lambda c, r: pat.shared(__import__("sa.rules.c02", fromlist=["x"]).rule_self, "C01.self")(c, r)),   # a qsbr updater that returns offline is no longer waited for
    ("C01.listtrav", lambda c, r: __import__("sa.rules.c15", fromlist=["x"]).rule_listtrav(c, r, "C01.listtrav")),   # wait_for_readers walks the registry with these macros
    ("C01.node", lambda c, r: pat.shared(__import__("sa.rules.c02", fromlist=["x"]).rule_node, "C01.node", lambda x: "wake_all" in x["instance"] or "TEARDOWN" in x["instance"] or x["status"] != "pass")(c, r)),   # merged callers: the leader touches a waiter's stack node only until it hands it back - a stale next pointer leads into the next batch and wakes callers whose grace period has not run
]
FLOORS = {}
