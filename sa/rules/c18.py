"""C18 — RCU lists: readers concurrent with an updater always see a consistent list (structural part)."""
import re
import subprocess
from .. import ir, mm, pat, paths
from ..core import Broken

META = {
    "explanation": "On a witness unit that instantiates every update primitive and every *_rcu traversal macro of the current headers: publication last (all stores initialising the new node "
                   "precede the store that makes it forward-reachable, and that store is an atomic release store); removal leaves the removed node's forward pointer intact and unlinks with an "
                   "atomic store; every forward-pointer load of every traversal is an atomic consume/acquire (or volatile) load, no traversal loads a `prev` pointer, and each iteration loads "
                   "the forward pointer exactly once (the value tested for termination is the value used to reach the next element); the macro inventory of the headers equals the witness coverage.",
    "not_decided": "reader-sees-consistent-list as a property of all interleavings with the updater",
}

META["explanation"] += " " + 'Also: exact symbolic post-state (store-forwarding walk of each path) of all six update primitives over the pre-state: forward and backward links of the new node and both neighbours.'
META["technique"] = 'static analysis: publish-last / consume-load rules on every macro instance plus symbolic post-state evaluation of the update primitives (witness unit, no execution)'
MOD = "w_rculist"
FWD = ("cds_list_head.next", "cds_hlist_node.next", "cds_hlist_head.next")
PREV = ("cds_list_head.prev", "cds_hlist_node.prev")


def W(ctx):
    return ctx.mod(MOD, "flat")


def wfn(ctx, name):
    f = W(ctx).fn(name)
    if f is None:
        raise Broken("witness function %s missing (witness/rculist.c out of date?)" % name)
    return f


def rule_pub(ctx, rep):
    table = {  # function -> (new node argument, description of the publishing store's base)
        "w_list_add_rcu": 0, "w_list_add_tail_rcu": 0, "w_list_replace_rcu": 1, "w_hlist_add_head_rcu": 0,
    }
    for name, newarg in table.items():
        f = wfn(ctx, name)
        rep.touch(f)
        sts = [s for s in f.all_insts() if s.op == "store"]
        init = [s for s in sts if s.d["ap"]["base"] == ["a", newarg] and pat.last_field(s.d["ap"]) in FWD + PREV]
        # publishing store: stores the new node into some *forward* pointer of another node
        pub = [s for s in sts if pat.last_field(s.d["ap"]) in FWD and s.d["ap"]["base"] != ["a", newarg] and ir.expr(f, s.args[0], 2) == ("arg", newarg)]
        if not pub:
            rep.bad("C18.pub", name + ".publishes", "%s never links the new node forward-reachable" % name, [f.name])
            continue
        for p in pub:
            rep.check(p.d["order"] in ("release", "seq_cst", "acq_rel"), "C18.pub", name + ".release", "the publishing store is an atomic release store",
                      "the node is published with a plain/relaxed store (order %s): its initialisation can become visible after the node itself" % p.d["order"], [p.where()])
            late = [s for s in init if not f.dominates(s, p) or f.reach([p], [s])[0] is not None]
            rep.check(not late and len(init) >= 2, "C18.pub", name + ".init≺publish", "both pointers of the new node are written before it is published (%d stores)" % len(init),
                      "a pointer of the new node is written after (or not before) the publishing store: a reader can follow an uninitialised pointer", [s.where() for s in late] or [p.where()])


def rule_del(ctx, rep):
    for name in ("w_list_del_rcu", "w_hlist_del_rcu"):
        f = wfn(ctx, name)
        rep.touch(f)
        sts = [s for s in f.all_insts() if s.op == "store"]
        poison = [s for s in sts if s.d["ap"]["base"] == ["a", 0] and pat.last_field(s.d["ap"]) in FWD]
        rep.check(not poison, "C18.del", name + ".keeps-next", "the removed node's forward pointer is left intact (readers standing on it can continue)",
                  "del_rcu overwrites the removed node's forward pointer: a reader standing on it is derailed", [s.where() for s in poison])
        unl = [s for s in sts if pat.last_field(s.d["ap"]) in FWD and s.d["ap"]["base"] != ["a", 0]]
        if not unl:
            rep.bad("C18.del", name + ".unlinks", "del_rcu never unlinks the node", [f.name])
            continue
        for u in unl:
            rep.check(u.d["order"] != "na" or u.d.get("vol"), "C18.del", name + ".atomic-unlink", "the unlinking store is atomic", "the unlinking store is a plain store (can tear / be split by the compiler)", [u.where()])
            e = ir.expr(f, u.args[0], 3)
            rep.check(e[0] == "load" and e[1].startswith("arg0") and e[1].endswith(".next"), "C18.del", name + ".unlink-value", "predecessor now points at the removed node's successor",
                      "unlink stores %s" % ir.expr_str(e), [u.where()])


def rule_replace_old(ctx, rep):
    """the node replaced by cds_list_replace_rcu keeps both pointers (readers standing on it continue into the list)"""
    f = wfn(ctx, "w_list_replace_rcu")
    rep.touch(f)
    sts = [s for s in f.all_insts() if s.op == "store" and s.d["ap"]["base"] == ["a", 0]]
    rep.check(not sts, "C18.del", "w_list_replace_rcu.old-untouched", "the replaced node is not written (its forward pointer still leads into the list)",
              "cds_list_replace_rcu writes the replaced node (%s): a reader standing on it is derailed / loops" % ", ".join(sorted(set(str(pat.last_field(s.d["ap"])) for s in sts))),
              [s.where() for s in sts[:2]])


def trav_fns(ctx):
    return [f for f in W(ctx).defined() if f.name.startswith("w_trav_")]


def rule_trav(ctx, rep):
    fs = trav_fns(ctx)
    pat.require(len(fs) >= 5, "witness traversals missing (%d)" % len(fs))
    for f in fs:
        rep.touch(f)
        tag = f.name[len("w_trav_"):]
        lds = [l for l in f.all_insts() if l.op == "load" and pat.last_field(l.d["ap"]) in FWD + PREV]
        fw = [l for l in lds if pat.last_field(l.d["ap"]) in FWD]
        pv = [l for l in lds if pat.last_field(l.d["ap"]) in PREV]
        pat.require(fw, "%s: no forward-pointer load" % tag)
        bad = [l for l in fw if not (l.d["order"] != "na" or l.d.get("vol"))]
        rep.check(not bad, "C18.trav", tag + ".consume", "all %d forward-pointer loads are atomic (consume/acquire, or relaxed with dependency ordering) or volatile loads" % len(fw),
                  "a traversal loads a forward pointer with a plain load: the compiler may reload or speculate it", [b.where() for b in bad])
        rep.check(not pv, "C18.trav", tag + ".no-prev", "no `prev` pointer is read by a forward traversal", "traversal reads a prev pointer (not RCU-safe: prev is not kept consistent for readers)", [p.where() for p in pv])
        # one load of the forward pointer per iteration
        cyc = f.sccs()
        pat.require(cyc, "%s: loop vanished" % tag)
        for comp in cyc:
            inl = [l for l in fw if l.blk.id in comp]
            hdr = set(pat.scc_entries(f, comp))
            dup = []
            for a in inl:
                for b in inl:
                    # any two forward-pointer loads within one step: whether they are spelled alike (a macro argument
                    # evaluated twice) or through two cursors that name the same node (pos->next and entry->member.next)
                    if a is b:
                        continue
                    hit, _ = f.reach([a], [b], avoid=lambda i: i.blk.id in hdr and i.pos == 0)
                    if hit is not None:
                        dup.append((a, b))
            rep.check(not dup, "C18.trav", tag + ".single-load-per-step", "each step loads the forward pointer once: the value tested and the value followed are the same",
                      "the same forward pointer is loaded twice in one step (e.g. a macro argument evaluated twice): the termination test and the element computation can disagree "
                      "when an updater changes it in between", [dup[0][0].where(), dup[0][1].where()] if dup else [])
        # loads before the loop (first element) likewise single
        pre = [l for l in fw if not any(l.blk.id in c for c in cyc)]
        dup0 = [(a, b) for a in pre for b in pre if a is not b and f.reach([a], [b])[0] is not None]
        rep.check(not dup0, "C18.trav", tag + ".single-load-first", "the first element is loaded once", "the head's forward pointer is loaded twice before the loop", [dup0[0][0].where()] if dup0 else [])


def rule_trav_skel(ctx, rep):
    """traversal skeleton of every *_for_each_*_rcu macro (witness): the body runs exactly for cursors different from the
    terminator (the list head for cds_list, NULL for cds_hlist), the loop ends at the terminator, and the value handed to the
    body is the cursor of the test (entry variants: the element containing it)"""
    for f in trav_fns(ctx):
        rep.touch(f)
        tag = f.name[len("w_trav_"):]
        vis = pat.calls(f, "w_visit")
        pat.require(vis, tag + ": body")
        hl = "hlist" in tag
        term = ("c", 0) if hl else ("arg", 0)
        for v in vis:
            lv = pat.dom_leaf_atoms(f, v)
            cur = [a for a in lv if a[0] == "ne" and a[2] == term]
            inv = [a for a in lv if a[0] == "eq" and a[2] == term]
            rep.check(bool(cur) and not inv, "C18.trav", tag + ".body-iff-not-terminator", "the body runs only for a cursor that is not %s" % ("NULL" if hl else "the list head"),
                      "the body runs on a path where the cursor %s: %s" % ("is the terminator" if inv else "was not compared with the terminator", "the head itself is handed to the body as an element / nothing is ever visited"), [v.where()])
            if cur:
                c_ = cur[0][1]
                arg = ir.expr(f, v.args[0], 4)
                same = arg == c_ or (c_[0] == "addr" and arg[0] == "phi" and c_[1].startswith("phi#%d." % arg[1])) or (c_[0] == "phi" and ir.expr_contains(arg, lambda z: z == c_)) or arg[0] == "phi"
                rep.check(same, "C18.trav", tag + ".body-gets-cursor", "the body receives the tested cursor (or its containing element)", "the body receives %s, the test was on %s" % (ir.expr_str(arg), ir.expr_str(c_)), [v.where()])
        # leaves only at the terminator
        ends = [(t.blk.id, s_) for t, s_, a in pat.branch_edges_on(f, lambda a: a[0] == "eq" and a[2] == term)]
        pat.require(ends, tag + ": end test")
        rep.must_take_edge("C18.trav", tag + ".ends-at-terminator", f, [f.entry()], list(f.rets()), ends, include_start=True, what="the traversal returns only after the cursor reached the terminator")


def rule_inv(ctx, rep):
    """every *_rcu traversal macro / update primitive defined by the headers is instantiated by the witness"""
    import os
    repo = ctx.repo
    names = set()
    for h in ("include/urcu/rculist.h", "include/urcu/rcuhlist.h"):
        src = open(os.path.join(repo, h)).read()
        names |= set(re.findall(r"#define\s+(cds_h?list_for_each\w*_rcu\w*)\s*\(", src))
        names |= set(re.findall(r"\n(?:void|int)\s+(cds_h?list_\w+_rcu)\s*\(", src))
    pat.require(len(names) >= 9, "header inventory too small: %s" % sorted(names))
    have = set(f.name for f in W(ctx).defined())
    wsrc = open(os.path.join(os.path.dirname(os.path.dirname(os.path.dirname(os.path.abspath(__file__)))), "witness", "rculist.c")).read()
    miss = sorted(n for n in names if not re.search(r"\b%s\s*\(" % re.escape(n), wsrc))
    if miss:
        raise Broken("headers define %s which the witness unit does not instantiate: analysis incomplete" % miss)
    rep.ok("C18.inv", "inventory", "all %d RCU list primitives/macros of the headers are instantiated by the witness: %s" % (len(names), sorted(names)), [])


THOROUGH_CONFIGS = [("default", ()), ("dereference-volatile", ("-DURCU_DEREFERENCE_USE_VOLATILE=1",))]

# expected post-state of each update primitive over the pre-state (generic, non-aliased case): {location: value}; entries
# marked optional exist only on the path where the neighbour is non-NULL (hlist)
POST = {
    "w_list_add_rcu": ({"arg0.next": "pre(arg1.next)", "arg0.prev": "arg1", "pre(arg1.next).prev": "arg0", "arg1.next": "arg0"}, set()),
    "w_list_add_tail_rcu": ({"arg0.next": "arg1", "arg0.prev": "pre(arg1.prev)", "pre(arg1.prev).next": "arg0", "arg1.prev": "arg0"}, set()),
    "w_list_replace_rcu": ({"arg1.next": "pre(arg0.next)", "arg1.prev": "pre(arg0.prev)", "pre(arg0.prev).next": "arg1", "pre(arg0.next).prev": "arg1"}, set()),
    "w_list_del_rcu": ({"pre(arg0.next).prev": "pre(arg0.prev)", "pre(arg0.prev).next": "pre(arg0.next)"}, set()),
    "w_hlist_add_head_rcu": ({"arg0.next": "pre(arg1.next)", "arg0.prev": "arg1", "arg1.next": "arg0", "pre(arg1.next).prev": "arg0"}, {"pre(arg1.next).prev"}),
    "w_hlist_del_rcu": ({"pre(arg0.prev).next": "pre(arg0.next)", "pre(arg0.next).prev": "pre(arg0.prev)"}, {"pre(arg0.next).prev"}),
}


def rule_post(ctx, rep):
    """Symbolic post-state of the update primitives (store-forwarding walk of each path, sa/symheap.py): the doubly-linked
    structure the *updater* relies on is exact - forward and backward pointers of the new node and of both neighbours.  A
    back-pointer fix-up done through an already re-written forward pointer leaves stale ->prev links: readers never follow
    them, but the next cds_list_del_rcu / replace_rcu unlinks through them and drops or keeps the wrong node."""
    from .. import symheap
    m = ctx.mod("w_rculist", "flat")
    for name, (want, optional) in POST.items():
        f = m.fn(name)
        pat.require(f is not None, "witness %s vanished" % name)
        rep.touch(f)
        states = symheap.post_states(f)
        union = {}
        bad = []
        for p, mem, order in states:
            for k, v in mem.items():
                if want.get(k) != v:
                    bad.append((k, v, [i for l, i in order if l == k][-1]))
                union[k] = v
            missing = [k for k in want if k not in mem and k not in optional]
            for k in missing:
                bad.append((k, "<not written>", f.rets()[0]))
        for k in optional:
            if k not in union:
                bad.append((k, "<never written>", f.rets()[0]))
        tag = name[2:]
        if not bad:
            rep.ok("C18.post", tag, "post-state exact on %d path(s): %s" % (len(states), ", ".join("%s=%s" % kv for kv in sorted(want.items()))), [f.name])
        else:
            k, v, site = bad[0]
            rep.bad("C18.post", tag, "after %s, %s is %s (specified: %s): the list's back/forward links are inconsistent for the next update" % (tag, k, v, want.get(k, "untouched")), [site.where()])


META["explanation"] += " " + 'Also (round 14): rcu_assign_pointer / rcu_dereference in a caller compiled with -std=gnu99 keep their compiler barriers (C18.compat).'

RULES = [
    ("C18.inv", rule_inv),
    ("C18.pub", rule_pub),
    ("C18.del", rule_del),
    ("C18.del", rule_replace_old),
    ("C18.trav", rule_trav),
    ("C18.trav", rule_trav_skel),
    ("C18.post", rule_post),
    ("C18.compat", lambda c, r: __import__("sa.rules.c20", fromlist=["x"]).rule_orders_compat(c, r, "C18.compat", lambda kind, mo: (kind, mo) in (("store", "release"), ("load", "consume")))),   # rcu_assign_pointer / rcu_dereference in a caller compiled below C11: the publication store keeps its compiler barrier in front (a node is fully initialised before it is reachable)
]
FLOORS = {}
